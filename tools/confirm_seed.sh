#!/bin/bash
# usage: tools/confirm_seed.sh <seeded/dir> [worktree]
# lead's own confirmation of a seeded change: applies patch.diff to a clean scratch worktree of /repo (outside /repo and /verif),
# runs the pinned suite there, runs demo.py on the changed tree and on /repo, writes confirm.txt into the seeded dir, removes the scratch tree.
set -u
S=$(realpath "$1"); W=${2:-/tmp/lead-confirm-$$}
OWN=0
if [ ! -d "$W" ]; then git -C /repo worktree add --detach "$W" >/dev/null 2>&1; OWN=1; fi
git -C "$W" checkout -q -- . ; git -C "$W" clean -fdq -e .pytest_cache
if ! git -C "$W" apply "$S/patch.diff"; then echo "PATCH DOES NOT APPLY" | tee "$S/confirm.txt"; [ $OWN = 1 ] && git -C /repo worktree remove --force "$W"; exit 2; fi
SUITE=$(cd "$W" && PYTHONPATH="$W" /venv/bin/python -m pytest -q -p no:cacheprovider --timeout=900 --continue-on-collection-errors 2>&1 | tail -1)
( cd "$W" && PYTHONPATH="$W" PYTHONHASHSEED=0 timeout 300 /venv/bin/python "$S/demo.py" >"$S/demo.changed.out" 2>&1 ); DC=$?
( cd /repo && PYTHONPATH=/repo PYTHONHASHSEED=0 timeout 300 /venv/bin/python "$S/demo.py" >"$S/demo.unchanged.out" 2>&1 ); DU=$?
{
  echo "confirmed by the lead in scratch worktree (removed afterwards)"
  echo "suite with the change: $SUITE"
  echo "demo.py exit on changed tree: $DC   on unchanged /repo: $DU"
} | tee "$S/confirm.txt"
git -C "$W" checkout -q -- .
[ $OWN = 1 ] && git -C /repo worktree remove --force "$W"
exit 0
