#!/bin/bash
# usage: tools/mutant.sh <patch.diff> <Cxx> [tier]   -- runs a check against a private copy of /repo with the patch applied
set -e
P=$(realpath "$1"); PROP=$2; TIER=${3:-quick}
D=/tmp/lead-mut-$$
mkdir -p $D && cp -r /repo $D/repo && rsync -a --exclude .work --exclude replays --exclude '.git' /verif/ $D/verif/
( cd $D/repo && git apply "$P" ) || { echo "PATCH DOES NOT APPLY"; rm -rf $D; exit 2; }
( cd $D/verif && VERIF_REPO=$D/repo ./check $PROP --tier $TIER 2>&1 | tail -${TAILN:-6}; for f in replays/*.json; do [ -f "$f" ] && python3 -c "import json,sys; d=json.load(open('$f')); print('REPLAY', d['key'][:200]); print('   ', d['what'][:400])"; done 2>/dev/null | head -12 )
rm -rf $D
