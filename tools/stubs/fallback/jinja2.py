"""Minimal stand-in for jinja2.Template, used by tools/props/c20.py ONLY when the real jinja2 cannot be imported
(in this sandbox jinja2 3.1.6 is installed, so the real one is used and this file stays unused).
Supports what pyparsing/diagram's template uses: {% if [not] name %} / {% else %} / {% endif %},
{% for x in name %} / {% endfor %}, {{ a.b | safe }} (no auto-escaping, like jinja2's default Template)."""
import re

__stand_in__ = "verif C20 minimal stand-in"
_tok = re.compile(r"(\{%.*?%\}|\{\{.*?\}\})", re.S)


class Template:
    def __init__(self, source):
        self.parts = _tok.split(source)

    def render(self, *args, **kwargs):
        ctx = dict(*args, **kwargs)
        out = []
        self._run(0, ctx, out, True)
        return "".join(out)

    @staticmethod
    def _lookup(expr, ctx):
        expr = expr.split("|")[0].strip()
        cur = None
        for i, name in enumerate(expr.split(".")):
            if i == 0:
                cur = ctx.get(name, "")
            elif isinstance(cur, dict):
                cur = cur.get(name, "")
            else:
                cur = getattr(cur, name, "")
        return cur

    def _run(self, i, ctx, out, live):
        """interpret parts[i:] until a closing/else tag at this nesting level; returns (index_after, tag)"""
        parts = self.parts
        while i < len(parts):
            p = parts[i]
            if p.startswith("{{"):
                if live:
                    v = self._lookup(p[2:-2], ctx)
                    out.append("" if v is None else str(v))
                i += 1
            elif p.startswith("{%"):
                words = p[2:-2].split()
                if words[0] == "if":
                    neg = words[1] == "not"
                    val = bool(self._lookup(words[2] if neg else words[1], ctx))
                    cond = (not val) if neg else val
                    i, tag = self._run(i + 1, ctx, out, live and cond)
                    if tag == "else":
                        i, tag = self._run(i, ctx, out, live and not cond)
                elif words[0] == "for":
                    var, seq = words[1], self._lookup(words[3], ctx) or []
                    end = i + 1
                    if live and seq:
                        for v in seq:
                            c2 = dict(ctx)
                            c2[var] = v
                            end, _ = self._run(i + 1, c2, out, True)
                    else:
                        end, _ = self._run(i + 1, ctx, out, False)
                    i = end
                elif words[0] in ("endif", "endfor", "else"):
                    return i + 1, words[0]
                else:
                    raise ValueError("unsupported tag %r" % p)
            else:
                if live:
                    out.append(p)
                i += 1
        return i, None
