"""Structural stand-in for the `railroad` module of the railroad-diagrams package (NOT installed in this sandbox;
the importable module called `railroad` in /venv is an unrelated project).

Only used by tools/props/c20.py, which puts this directory on sys.path (and removes any previously imported
`railroad`) before importing pyparsing.diagram, so that the real to_railroad / railroad_to_html code runs.

Every class records its constructor arguments verbatim (no wrapping of strings, no geometry), with the same
constructor signatures as railroad-diagrams 3.0 where pyparsing relies on them:
  * pyparsing's EditablePartial.__call__ inspects `inspect.getfullargspec(func).varargs` and splices the keyword
    `items=[...]` into the positional arguments, hence the var-positional parameter of the multi-containers is
    called `items`;
  * pyparsing subclasses railroad.Group (EachItem, AnnotatedItem) and compares `func == railroad.Group`.
Differences from the real package (deliberate, listed in notes/C20.md): Optional / ZeroOrMore are classes here (functions
returning Choice(Skip, ...) there); HorizontalChoice never collapses to Sequence; None / "" children are *recorded* instead
of being wrapped in Terminal("") or crashing during layout -- the C20 oracle looks for them.
"""

__stand_in__ = "verif C20 structural stand-in"


class DiagramItem:
    kind = "DiagramItem"

    def __init__(self, *args, **kwargs):
        self.args = list(args)
        self.kwargs = dict(kwargs)

    # what the real items offer to railroad_to_html
    def writeSvg(self, write):
        write(self._render())

    def writeStandalone(self, write, css=None):
        write(self._render())

    def _render(self):
        return "<svg class=\"railroad-diagram\"><!-- %s --></svg>" % (_esc(repr(self)),)

    def children(self):
        return []

    def __repr__(self):
        return "%s(%s)" % (type(self).__name__, ", ".join(repr(c) for c in self.children()))


def _esc(s):
    return s.replace("&", "&amp;").replace("<", "&lt;").replace(">", "&gt;").replace("--", "- -")


class Diagram(DiagramItem):
    def __init__(self, *items, **kwargs):
        self.items = list(items)
        self.kwargs = dict(kwargs)

    def children(self):
        return self.items


class _Multi(DiagramItem):
    def __init__(self, *items):
        self.items = list(items)

    def children(self):
        return self.items


class Sequence(_Multi):
    pass


class Stack(_Multi):
    pass


class OptionalSequence(_Multi):
    pass


class AlternatingSequence(_Multi):
    pass


class HorizontalChoice(_Multi):
    pass


class MultipleChoice(DiagramItem):
    def __init__(self, default, type, *items):
        self.default = default
        self.type = type
        self.items = list(items)

    def children(self):
        return self.items


class Choice(DiagramItem):
    def __init__(self, default, *items):
        self.default = default
        self.items = list(items)

    def children(self):
        return self.items


class OneOrMore(DiagramItem):
    def __init__(self, item, repeat=None):
        self.item = item
        self.repeat = repeat

    def children(self):
        return [self.item]


class ZeroOrMore(DiagramItem):
    def __init__(self, item, repeat=None, skip=False):
        self.item = item
        self.repeat = repeat
        self.skip = skip

    def children(self):
        return [self.item]


class Optional(DiagramItem):
    def __init__(self, item, skip=False):
        self.item = item
        self.skip = skip

    def children(self):
        return [self.item]


class Group(DiagramItem):
    def __init__(self, item, label=None):
        self.item = item
        self.label = label

    def children(self):
        return [self.item]

    def __repr__(self):
        return "%s[%r](%r)" % (type(self).__name__, self.label, self.item)


class Start(DiagramItem):
    def __init__(self, type="simple", label=None):
        self.type = type
        self.label = label


class End(DiagramItem):
    def __init__(self, type="simple"):
        self.type = type


class Terminal(DiagramItem):
    def __init__(self, text, href=None, title=None, cls=""):
        self.text = text
        self.href = href
        self.title = title
        self.cls = cls

    def __repr__(self):
        return "Terminal(%r)" % (self.text,)


class NonTerminal(DiagramItem):
    def __init__(self, text, href=None, title=None, cls=""):
        self.text = text
        self.href = href
        self.title = title
        self.cls = cls

    def __repr__(self):
        return "NonTerminal(%r, href=%r)" % (self.text, self.href)


class Comment(DiagramItem):
    def __init__(self, text, href=None, title=None, cls=""):
        self.text = text
        self.href = href
        self.title = title
        self.cls = cls


class Skip(DiagramItem):
    def __init__(self):
        pass
