"""Rebuilds section 10 of DESIGN.md from notes/ASBUILT.md, filling the tables that are derived from files:
<!--FIXED--> from known_findings.txt + `git -C /repo log`, <!--SEEDS--> from seeded/*/{meta,result}.json."""
import glob, json, os, re, subprocess
HERE = os.path.dirname(os.path.dirname(os.path.abspath(__file__)))
SEP = "-" * 101 + "\n"


def fixed_table():
    subjects = {}
    for l in subprocess.run(["git", "-C", "/repo", "log", "--format=%h %s"], capture_output=True, text=True).stdout.split("\n"):
        if " fix:" in " " + l:
            h, _, s = l.partition(" ")
            subjects[h] = s
    rows = {}
    for l in open(os.path.join(HERE, "known_findings.txt")):
        m = re.match(r"fixed: property=(C\d+) (\w+) (.*)", l)
        if m:
            rows.setdefault(m.group(2), []).append((m.group(1), m.group(3).strip()))
    out = ["| /repo commit | properties | what failed (first `fixed:` line) | commit subject |", "|---|---|---|---|"]
    for h in reversed(list(subjects)):
        r = rows.get(h, [])
        props = ", ".join(sorted({p for p, _ in r})) or "-"
        what = (r[0][1] if r else "")[:150].replace("|", "\\|")
        out.append("| %s | %s | %s | %s |" % (h, props, what, subjects[h].replace("|", "\\|")[:110]))
    return "\n".join(out)


def seeds_table():
    out = ["| id | prop | change (meta.json) | demo changed/unchanged | check (violations, with a failing input) |", "|---|---|---|---|---|"]
    for d in sorted(glob.glob(os.path.join(HERE, "seeded", "*"))):
        mp, rp = os.path.join(d, "meta.json"), os.path.join(d, "result.json")
        if not (os.path.exists(mp) and os.path.exists(rp)):
            continue
        m, r = json.load(open(mp)), json.load(open(rp))
        s = " ".join(m.get("summary", "").split())[:140].replace("|", "\\|")
        out.append("| %s | %s | %s | %s/%s | %s |" % (
            os.path.basename(d), m["property"], s, r.get("demo_exit_changed", "-"), r.get("demo_exit_unchanged", "-"),
            ("detected %s (%s)" % (r.get("violations"), r.get("with_failing_input"))) if r.get("detected") else "MISSED " + str(r.get("error", ""))[:60]))
    return "\n".join(out)


def main():
    body = open(os.path.join(HERE, "notes", "ASBUILT.md")).read()
    body = body.replace("<!--FIXED-->", fixed_table()).replace("<!--SEEDS-->", seeds_table())
    p = os.path.join(HERE, "DESIGN.md")
    D = open(p).read()
    marker = SEP + "## 10. Build record (as built)"
    if marker in D:
        D = D[:D.index(marker)]
    D = D.rstrip("\n") + "\n\n\n" + SEP + body.lstrip("\n")
    open(p, "w").write(D)
    print("DESIGN.md: %d lines" % len(D.split("\n")))


if __name__ == "__main__":
    main()
