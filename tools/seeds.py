"""Runs every seeded change of /verif/seeded against the check of its property (quick tier), each in a private scratch copy of
/repo and /verif under /tmp (removed afterwards; /repo itself is never touched), and writes seeded/<id>/result.json and
seeded/RESULTS.md.   usage: python tools/seeds.py [-j N] [id-prefix ...]"""
import json, os, re, shutil, subprocess, sys, tempfile
from concurrent.futures import ThreadPoolExecutor

HERE = os.path.dirname(os.path.dirname(os.path.abspath(__file__)))
SEEDED = os.path.join(HERE, "seeded")


def run_one(name):
    d = os.path.join(SEEDED, name)
    meta = json.load(open(os.path.join(d, "meta.json")))
    prop = meta["property"]
    tmp = tempfile.mkdtemp(prefix="lead-seed-")
    res = {"seed": name, "property": prop}
    try:
        subprocess.run(["cp", "-r", "/repo", tmp + "/repo"], check=True)
        subprocess.run(["rsync", "-a", "--exclude", ".work", "--exclude", "replays", "--exclude", ".git", HERE + "/", tmp + "/verif/"], check=True)
        a = subprocess.run(["git", "apply", os.path.join(d, "patch.diff")], cwd=tmp + "/repo", capture_output=True, text=True)
        if a.returncode != 0:
            res["error"] = "patch does not apply: " + a.stderr[-300:]
            return res
        env = dict(os.environ, PYTHONPATH=tmp + "/repo", PYTHONHASHSEED="0")
        if os.path.exists(os.path.join(d, "demo.py")):
            try:
                p = subprocess.run(["/venv/bin/python", os.path.join(d, "demo.py")], cwd=tmp + "/repo", env=env, capture_output=True, text=True, timeout=300)
                res["demo_exit_changed"] = p.returncode
            except subprocess.TimeoutExpired:
                res["demo_exit_changed"] = "timeout"
            p = subprocess.run(["/venv/bin/python", os.path.join(d, "demo.py")], cwd="/repo", env=dict(env, PYTHONPATH="/repo"), capture_output=True, text=True, timeout=300)
            res["demo_exit_unchanged"] = p.returncode
        c = subprocess.run(["./check", prop, "--tier", "quick"], cwd=tmp + "/verif", env=dict(os.environ, VERIF_REPO=tmp + "/repo"),
                           capture_output=True, text=True, timeout=3000)
        out = c.stdout + c.stderr
        vio = [l for l in out.split("\n") if l.startswith("VIOLATION")]
        res["check_exit"] = c.returncode
        res["violations"] = len(vio)
        res["with_failing_input"] = sum(1 for l in vio if not l.rstrip().endswith("no-failing-input-found"))
        whats = []
        rp = os.path.join(tmp, "verif", "replays")
        for l in vio[:3]:
            m = re.search(r"replay=(\S+)", l)
            if m and os.path.exists(m.group(1)):
                try:
                    whats.append(json.load(open(m.group(1)))["what"][:400])
                except Exception:
                    pass
        res["examples"] = whats
        res["detected"] = c.returncode != 0 and bool(vio)
    except Exception as e:
        res["error"] = "%s: %s" % (type(e).__name__, e)
    finally:
        shutil.rmtree(tmp, ignore_errors=True)
    json.dump(res, open(os.path.join(d, "result.json"), "w"), indent=1)
    return res


def main():
    args = sys.argv[1:]
    jobs = 4
    if args and args[0] == "-j":
        jobs = int(args[1])
        args = args[2:]
    names = sorted(n for n in os.listdir(SEEDED) if os.path.isdir(os.path.join(SEEDED, n)) and os.path.exists(os.path.join(SEEDED, n, "meta.json")))
    if args:
        names = [n for n in names if any(n.startswith(a) for a in args)]
    with ThreadPoolExecutor(jobs) as ex:
        results = list(ex.map(run_one, names))
    for r in results:
        print(r["seed"], "DETECTED" if r.get("detected") else "MISSED", r.get("with_failing_input"), r.get("error", ""))
    # the table covers every seed that has a result.json
    rows = []
    for n in sorted(os.listdir(SEEDED)):
        p = os.path.join(SEEDED, n, "result.json")
        if os.path.exists(p):
            rows.append(json.load(open(p)))
    with open(os.path.join(SEEDED, "RESULTS.md"), "w") as f:
        f.write("# Seeded changes vs. the checks (quick tier; produced by tools/seeds.py)\n\n")
        f.write("| seed | property | demo exit (changed / unchanged) | check | violations (with a failing input) | first report |\n|---|---|---|---|---|---|\n")
        for r in rows:
            f.write("| %s | %s | %s / %s | %s | %s (%s) | %s |\n" % (
                r["seed"], r["property"], r.get("demo_exit_changed", "-"), r.get("demo_exit_unchanged", "-"),
                "detected" if r.get("detected") else ("ERROR " + r.get("error", "") if r.get("error") else "MISSED"),
                r.get("violations", "-"), r.get("with_failing_input", "-"), (r.get("examples") or [""])[0].replace("|", "\\|").replace("\n", " ")[:220]))
    return 0


if __name__ == "__main__":
    sys.exit(main())
