"""Shared machinery of ./check : translator run, Coq cone build, Print Assumptions, hygiene grep,
model evaluation inside Coq (cases.v + vm_compute), known findings, replay files, evidence.

A property plugin (tools/props/cXX.py) defines
    PROP = "C14"
    GEN = ["gen_loc"]                  # generators whose output the property's theorems depend on
    def correspond(ctx): ...           # differential run model vs implementation + property oracle on the implementation
    def search(ctx, reason): ...       # optional: widened search for a failing input when the tie is broken
    def replay(ctx, obj): ...          # re-evaluate one replay file
and calls ctx.violation(...) / ctx.stat(...) / ctx.sample(...).
"""
import fcntl, hashlib, json, os, random, re, subprocess, sys, time

VERIF = os.path.dirname(os.path.dirname(os.path.abspath(__file__)))
REPO = os.environ.get("VERIF_REPO", "/repo")
COQ = os.path.join(VERIF, "coq")
WORK = os.path.join(VERIF, ".work")
PY = "/venv/bin/python"
HYGIENE = re.compile(r"\b(Admitted|admit|Axiom|Axioms|Parameter|Parameters|Conjecture|Hypothesis|Variable|bypass_check)\b|Unset\s+Guard|Unset\s+Positivity|Unset\s+Universe|type-in-type|impredicative-set")


def sh(cmd, timeout=600, cwd=None, env=None, input=None):
    try:
        p = subprocess.run(cmd, shell=isinstance(cmd, str), cwd=cwd, env=env, input=input,
                           stdout=subprocess.PIPE, stderr=subprocess.STDOUT, timeout=timeout, text=True)
        return p.returncode, p.stdout
    except subprocess.TimeoutExpired as e:
        out = e.stdout or ""
        if isinstance(out, bytes):
            out = out.decode("utf8", "replace")
        return 124, out + "\nTIMEOUT after %ss" % timeout


class Lock:
    def __init__(self, name):
        os.makedirs(WORK, exist_ok=True)
        self.path = os.path.join(WORK, name + ".lock")

    def __enter__(self):
        self.f = open(self.path, "w")
        fcntl.flock(self.f, fcntl.LOCK_EX)
        return self

    def __exit__(self, *a):
        fcntl.flock(self.f, fcntl.LOCK_UN)
        self.f.close()


# ----------------------------------------------------------------------------------------------
# Coq project handling
# ----------------------------------------------------------------------------------------------
def coq_files():
    out = []
    for sub in ("Model", "Gen", "Proofs", "Props"):
        d = os.path.join(COQ, sub)
        if os.path.isdir(d):
            for f in sorted(os.listdir(d)):
                if f.endswith(".v"):
                    out.append(sub + "/" + f)
    return out


def write_coqproject():
    files = coq_files()
    text = "-Q . PP\n" + "\n".join(files) + "\n"
    p = os.path.join(COQ, "_CoqProject")
    old = open(p).read() if os.path.exists(p) else None
    changed = old != text
    if changed:
        with open(p, "w") as f:
            f.write(text)
    if changed or not os.path.exists(os.path.join(COQ, "Makefile")):
        rc, out = sh("coq_makefile -f _CoqProject -o Makefile", cwd=COQ)
        if rc != 0:
            raise RuntimeError("coq_makefile failed: " + out)


_dep_cache = {}


def cone(vfile):
    """transitive set of project .v files that vfile (relative path) depends on, including itself"""
    if vfile in _dep_cache:
        return _dep_cache[vfile]
    seen = set()
    stack = [vfile]
    while stack:
        f = stack.pop()
        if f in seen:
            continue
        seen.add(f)
        p = os.path.join(COQ, f)
        if not os.path.exists(p):
            continue
        txt = open(p).read()
        for m in re.finditer(r"(?:From\s+PP\s+)?Require\s+(?:Import\s+|Export\s+)?([^.]*(?:\.[A-Za-z_][\w.]*)*)\.", txt):
            pass
        for m in re.finditer(r"\b(?:PP\.)?(Model|Gen|Proofs|Props)\.([A-Za-z_]\w*)", txt):
            dep = "%s/%s.v" % (m.group(1), m.group(2))
            if dep not in seen:
                stack.append(dep)
    _dep_cache[vfile] = seen
    return seen


def build_target(vfile, timeout=1500, jobs=8):
    """make <vfile>o ; returns (ok, log)"""
    with Lock("coq"):
        write_coqproject()
        rc, out = sh("make -j%d %so" % (jobs, vfile), cwd=COQ, timeout=timeout)
    return rc == 0, out


def first_error(log):
    m = re.search(r'File "\./([^"]+)", line (\d+), characters [^\n]*\n(Error:?[^\n]*(?:\n[^\n]+){0,6})', log)
    if m:
        return {"file": m.group(1), "line": int(m.group(2)), "message": m.group(3)[:600]}
    if "TIMEOUT" in log:
        return {"file": "?", "line": 0, "message": "build timed out"}
    return {"file": "?", "line": 0, "message": log[-600:]}


def enclosing_lemma(vfile, line):
    try:
        lines = open(os.path.join(COQ, vfile)).read().split("\n")
    except OSError:
        return None
    for i in range(min(line, len(lines)) - 1, -1, -1):
        m = re.match(r"\s*(Theorem|Lemma|Corollary|Example|Definition|Fixpoint|Fact|Proposition)\s+(\w+)", lines[i])
        if m:
            return m.group(2)
    return None


def theorem_names(vfile):
    txt = open(os.path.join(COQ, vfile)).read()
    txt = re.sub(r"\(\*.*?\*\)", "", txt, flags=re.S)
    return re.findall(r"^\s*(?:Theorem|Corollary)\s+(\w+)", txt, flags=re.M)


def count_obligations(files):
    """number of Qed/Defined-closed statements in the given files"""
    n = 0
    for f in files:
        p = os.path.join(COQ, f)
        if os.path.exists(p):
            txt = re.sub(r"\(\*.*?\*\)", "", open(p).read(), flags=re.S)
            n += len(re.findall(r"\b(Qed|Defined)\s*\.", txt))
    return n


def hygiene(files):
    bad = []
    for f in files:
        p = os.path.join(COQ, f)
        if not os.path.exists(p):
            continue
        txt = re.sub(r"\(\*.*?\*\)", "", open(p).read(), flags=re.S)
        # Section variables/hypotheses are permitted only inside Sections: track nesting
        depth = 0
        for ln, line in enumerate(txt.split("\n"), 1):
            if re.match(r"\s*Section\s+\w+", line):
                depth += 1
            if re.match(r"\s*End\s+\w+", line) and depth > 0:
                depth -= 1
            for m in HYGIENE.finditer(line):
                w = m.group(0)
                if w in ("Variable", "Hypothesis") and depth > 0:
                    continue
                if w in ("Variable", "Hypothesis", "Parameter", "Parameters", "Axiom", "Axioms") and \
                        not re.match(r"\s*(Local\s+|Global\s+)?%s\b" % w, line):
                    continue  # the word occurs inside an identifier/string, not as a command
                bad.append("%s:%d: %s" % (f, ln, line.strip()[:120]))
    return bad


def coq_run(name, text, timeout=600):
    """compile a scratch .v (outside the project tree) that may Require project modules; returns (rc, stdout)"""
    d = os.path.join(WORK, "scratch")
    os.makedirs(d, exist_ok=True)
    base = re.sub(r"\W", "_", name)
    p = os.path.join(d, base + ".v")
    with open(p, "w") as f:
        f.write(text)
    rc, out = sh(["bash", "-c", "ulimit -s unlimited 2>/dev/null; exec coqc -Q %s PP %s" % (COQ, p)], timeout=timeout, cwd=d)
    for ext in (".vo", ".vok", ".vos", ".glob"):
        q = os.path.join(d, base + ext)
        if os.path.exists(q):
            os.remove(q)
    aux = os.path.join(d, "." + base + ".aux")
    if os.path.exists(aux):
        os.remove(aux)
    return rc, out


def print_assumptions(propfile, names):
    mod = propfile[:-2].replace("/", ".")
    text = "From PP Require Import %s.\n" % mod
    for n in names:
        text += 'Goal True. idtac "@@THM %s". exact I. Qed.\nPrint Assumptions %s.\n' % (n, n)
    rc, out = coq_run("assum_" + mod, text, timeout=900)
    res = {}
    if rc != 0:
        return None, out
    parts = re.split(r"@@THM (\w+)\n", out)
    for i in range(1, len(parts), 2):
        body = parts[i + 1].strip()
        res[parts[i]] = "Closed under the global context" if body.startswith("Closed under the global context") else body
    return res, out


# ----------------------------------------------------------------------------------------------
# Parsing of vm_compute output (Coq terms over numbers, lists, tuples, constructors)
# ----------------------------------------------------------------------------------------------
_tok = re.compile(r"\s*(\[|\]|\(|\)|;|,|-?\d+|[A-Za-z_][\w']*|\"(?:[^\"]|\"\")*\"|%\w+|::|=|:)")


def parse_coq_term(s):
    """numbers -> int, lists -> list, tuples -> tuple, `C a b` -> ('C', a, b), true/false -> bool"""
    toks = [t for t in _tok.findall(s) if not t.startswith("%")]
    pos = [0]

    def peek():
        return toks[pos[0]] if pos[0] < len(toks) else None

    def nxt():
        t = toks[pos[0]]
        pos[0] += 1
        return t

    def atom():
        t = nxt()
        if t == "[":
            items = []
            if peek() == "]":
                nxt()
                return items
            while True:
                items.append(app())
                t2 = nxt()
                if t2 == "]":
                    return items
                assert t2 == ";", t2
        if t == "(":
            items = [app()]
            while peek() == ",":
                nxt()
                items.append(app())
            assert nxt() == ")"
            return items[0] if len(items) == 1 else tuple(items)
        if re.fullmatch(r"-?\d+", t):
            return int(t)
        if t == "true":
            return True
        if t == "false":
            return False
        if t.startswith('"'):
            return t[1:-1].replace('""', '"')
        return (t,)

    def app():
        head = atom()
        if isinstance(head, tuple) and len(head) == 1 and isinstance(head[0], str):
            args = []
            while peek() not in (None, "]", ")", ";", ",", ":", "="):
                args.append(atom())
            if args:
                return (head[0],) + tuple(args)
            return head[0] if head[0] in ("None", "nil", "tt") else head
        return head

    return app()


def coq_eval_terms(name, preamble, exprs, timeout=900):
    """evaluate each Coq expression with vm_compute; returns list of parsed terms (or raises)"""
    text = preamble + "\nSet Printing Width 1000000.\nSet Printing Depth 1000000.\n"
    for i, e in enumerate(exprs):
        text += 'Goal True. idtac "@@R %d". exact I. Qed.\nEval vm_compute in (%s).\n' % (i, e)
    rc, out = coq_run(name, text, timeout=timeout)
    if rc != 0:
        raise RuntimeError("model evaluation failed:\n" + out[-2000:])
    parts = re.split(r"@@R (\d+)\n", out)
    res = [None] * len(exprs)
    for i in range(1, len(parts), 2):
        body = parts[i + 1].strip()
        m = re.match(r"=\s*(.*)\n\s*:\s[^\n]*\Z", body, flags=re.S)
        if not m:
            m = re.match(r"=\s*(.*?)\s*:\s[^:]*\Z", body, flags=re.S)
        res[int(parts[i])] = parse_coq_term(m.group(1))
    return res


def coq_str(s):
    """Python str -> Coq list of code points"""
    return "[" + ";".join("%d" % ord(c) for c in s) + "]%N"


def from_coq_str(l):
    return "".join(chr(c) for c in l)


# ----------------------------------------------------------------------------------------------
# Known findings
# ----------------------------------------------------------------------------------------------
def load_known(prop):
    p = os.path.join(VERIF, "known_findings.txt")
    out = {}
    if os.path.exists(p):
        for line in open(p):
            line = line.strip()
            m = re.match(r"finding:\s+property=(\w+)\s+key=(\S+)\s*(.*)", line)
            if m and m.group(1) == prop:
                out[m.group(2)] = m.group(3)
    return out


# ----------------------------------------------------------------------------------------------
# The per-run context
# ----------------------------------------------------------------------------------------------
class Ctx:
    def __init__(self, prop, tier, seed):
        self.prop, self.tier, self.seed = prop, tier, seed
        self.t0 = time.time()
        self.rng = random.Random(seed)
        self.known = load_known(prop)
        self.known_hit = {}
        self.violations = []      # dicts: key, what, replay (obj), found_input (bool)
        self.tie_broken = []      # strings
        self.stats = {}
        self.samples = []
        self.evaluations = 0
        self.nontrivial = set()
        self.agreed = 0
        self.assumptions = []
        self.coverage_extra = {}
        self.obligations = 0
        self.discharged = 0
        self.assum_report = {}
        self.thm_status = {}
        self.thorough = tier == "thorough"

    # -- bookkeeping used by plugins
    def stat(self, k, n=1):
        self.stats[k] = self.stats.get(k, 0) + n

    def sample(self, obj, limit=8):
        if len(self.samples) < limit:
            self.samples.append(obj)

    def case(self, key=None, nontrivial=False, agreed=True):
        self.evaluations += 1
        if nontrivial and key is not None:
            self.nontrivial.add(key if isinstance(key, str) else json.dumps(key, sort_keys=True, default=str))
        if agreed:
            self.agreed += 1

    def violation(self, key, what, replay, found_input=True):
        """a concrete failing input on the implementation (found_input) or a broken tie without one"""
        if key in self.known:
            self.known_hit[key] = what
            return
        for v in self.violations:
            if v["key"] == key:
                return
        self.violations.append({"key": key, "what": what, "replay": replay, "found_input": found_input})

    def broken(self, name):
        if name not in self.tie_broken:
            self.tie_broken.append(name)

    # -- finishing
    def write_replay(self, v):
        os.makedirs(os.path.join(VERIF, "replays"), exist_ok=True)
        h = hashlib.sha1((self.prop + "|" + v["key"]).encode()).hexdigest()[:12]
        p = os.path.join(VERIF, "replays", "%s-%s.json" % (self.prop, h))
        obj = {"property": self.prop, "key": v["key"], "what": v["what"], "found_input": v["found_input"],
               "tier": self.tier, "seed": self.seed, "replay": v["replay"],
               "replay_cmd": "./check %s --replay %s" % (self.prop, p)}
        with open(p, "w") as f:
            json.dump(obj, f, indent=1, default=str)
        return p

    def finish(self, level="proof", checker_cmd="", trusted_base=None, rule="", explanation=""):
        # a broken tie with no concrete failing input is still a violation
        if self.tie_broken and not any(v["found_input"] for v in self.violations):
            self.violations.append({"key": "tie:" + ";".join(self.tie_broken),
                                    "what": "no longer checks: " + "; ".join(self.tie_broken),
                                    "replay": {"broken": self.tie_broken}, "found_input": False})
        for k, what in self.known_hit.items():
            print("KNOWN-FINDING: property=%s %s :: %s" % (self.prop, k, what))
        lines = []
        self.coverage_extra["violations_total"] = len(self.violations)
        # report the smallest few concrete inputs (all are counted above)
        self.violations.sort(key=lambda v: (not v["found_input"], len(v["key"]), v["key"]))
        self.violations = self.violations[:4]
        for v in self.violations:
            p = self.write_replay(v)
            tail = "" if v["found_input"] else " no-failing-input-found"
            lines.append("VIOLATION property=%s replay=%s%s" % (self.prop, p, tail))
        cov = {
            "obligations": self.obligations, "discharged": self.discharged,
            "checker_cmd": checker_cmd, "trusted_base": trusted_base or [],
            "evaluations": self.evaluations, "distinct_nontrivial": len(self.nontrivial),
            "traces_validated_against_impl": self.agreed,
            "rule": rule, "samples": self.samples or ["(none)"],
            "print_assumptions": self.assum_report, "theorem_status": self.thm_status,
            "stats": self.stats, "tie_broken": self.tie_broken,
            "known_findings_reproduced": sorted(self.known_hit),
            "explanation": explanation,
        }
        cov.update(self.coverage_extra)
        ev = {"property_id": self.prop, "tier": self.tier, "seed": self.seed, "level": level,
              "coverage": cov, "assumptions": self.assumptions, "wall_s": round(time.time() - self.t0, 2),
              "violations": len(self.violations)}
        os.makedirs(os.path.join(VERIF, "evidence"), exist_ok=True)
        with open(os.path.join(VERIF, "evidence", self.prop + ".json"), "w") as f:
            json.dump(ev, f, indent=1, default=str)
        for l in lines:
            print(l)
        print("%s %s tier=%s seed=%d obligations=%d/%d evaluations=%d nontrivial=%d wall=%.1fs" % (
            self.prop, "FAIL" if lines else "ok", self.tier, self.seed, self.discharged, self.obligations,
            self.evaluations, len(self.nontrivial), time.time() - self.t0))
        return 1 if lines else 0


TRUSTED_COMMON = [
    "Coq 8.16.1 kernel (coqc); vm_compute used for evaluation and finite sweeps; native_compute not used",
    "no Axiom/Parameter/Admitted in the development (grep'd every run); Print Assumptions output recorded verbatim",
    "tools/translate (Python ast): transcribes only the shapes it recognises, refuses otherwise",
    "tools/props/* correspondence harness: generators, canonicalisation, reference oracles in Python",
    "CPython 3.12 itself and the parts of pyparsing outside the model (see DESIGN.md section 5)",
]


def run_property(plugin, argv):
    import argparse
    ap = argparse.ArgumentParser()
    ap.add_argument("--tier", default=os.environ.get("VERIF_TIER", "quick"))
    ap.add_argument("--replay", default=None)
    a = ap.parse_args(argv)
    seed = int(os.environ.get("VERIF_SEED", "0") or 0)
    ctx = Ctx(plugin.PROP, a.tier, seed)
    sys.path.insert(0, VERIF)
    os.makedirs(WORK, exist_ok=True)
    if a.replay:
        obj = json.load(open(a.replay))
        ok = plugin.replay(ctx, obj)
        print("replay: property %s %s" % (plugin.PROP, "holds on this input" if ok else "FAILS on this input"))
        return 0 if ok else 1

    # watchdog: should the harness ever stop making progress, leave every thread's Python stack in .work/ and end the process
    # instead of hanging (a hung check decides nothing; the limits are an order of magnitude above the normal run times)
    import faulthandler
    limit = int(os.environ.get("VERIF_WATCHDOG_S", "2400" if a.tier == "quick" else "14400"))
    try:
        _wd = open(os.path.join(WORK, "watchdog-%s.txt" % plugin.PROP), "w")
        faulthandler.dump_traceback_later(limit, exit=True, file=_wd)
    except Exception:
        pass

    # 1. translator
    from tools.translate import run as trun
    with Lock("coq"):
        errs = trun.run(REPO, VERIF)
    for g in getattr(plugin, "GEN", []):
        if g in errs:
            ctx.broken("translator:%s (%s)" % (g, errs[g][:200]))
    ctx.stats["translator_errors"] = len(errs)

    # 2. proofs
    propfile = "Props/%s.v" % plugin.PROP
    files = sorted(cone(propfile))
    ctx.obligations = count_obligations(files)
    ok, log = build_target(propfile)
    if ok:
        ctx.discharged = ctx.obligations
        names = theorem_names(propfile)
        rep, raw = print_assumptions(propfile, names)
        if rep is None:
            ctx.broken("print-assumptions:" + propfile)
        else:
            ctx.assum_report = rep
            allowed = set(getattr(plugin, "ALLOWED_AXIOMS", []))
            for n, r in rep.items():
                if r != "Closed under the global context":
                    axs = set(re.findall(r"^(\S+)\s*:", r, flags=re.M))
                    if not axs <= allowed:
                        ctx.broken("axioms:%s depends on %s" % (n, sorted(axs - allowed)))
            for n in names:
                ctx.thm_status[n] = "refuted-witness" if ("_refuted" in n) else (
                    "partial" if "_partial" in n else "full")
        bad = hygiene([f for f in files if not f.startswith("Gen/")] + [f for f in files if f.startswith("Gen/")])
        for b in bad:
            ctx.broken("hygiene:" + b)
    else:
        err = first_error(log)
        lemma = enclosing_lemma(err["file"], err["line"])
        # obligations discharged = those in files that did compile
        okfiles = [f for f in files if os.path.exists(os.path.join(COQ, f + "o")) and f != err["file"]]
        ctx.discharged = count_obligations(okfiles)
        ctx.broken("proof:%s:%s (%s)" % (err["file"], lemma or "?", err["message"].replace("\n", " ")[:300]))
    ctx.coverage_extra["cone_files"] = files

    # 3. correspondence + property oracle on the implementation
    try:
        plugin.correspond(ctx)
    except Exception as e:  # harness failure = tie not established
        import traceback
        ctx.broken("correspondence:harness-error %s: %s" % (type(e).__name__, str(e)[:300]))
        ctx.coverage_extra["harness_traceback"] = traceback.format_exc()[-1500:]

    # 4. widened search when the tie is broken and no concrete input has been found yet
    if ctx.tie_broken and not any(v["found_input"] for v in ctx.violations) and hasattr(plugin, "search"):
        try:
            plugin.search(ctx, list(ctx.tie_broken))
        except Exception as e:
            ctx.coverage_extra["search_error"] = "%s: %s" % (type(e).__name__, str(e)[:300])

    return ctx.finish(level="proof",
                      checker_cmd="make -C coq %so  (coqc 8.16.1, full .vo build) ; coqc Print Assumptions" % propfile,
                      trusted_base=TRUSTED_COMMON + list(getattr(plugin, "TRUSTED", [])),
                      rule=getattr(plugin, "RULE", ""), explanation=getattr(plugin, "EXPLANATION", ""))
