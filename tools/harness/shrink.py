"""Delta-debugging of a failing (grammar, env, input) case."""


def subtrees(g):
    """candidate replacements of g by something smaller"""
    out = []
    kids = [(i, x) for i, x in enumerate(g) if isinstance(x, tuple)]
    for i, x in kids:
        out.append(x)                                   # replace by a child
    if g[0] in ("and", "mf", "or", "each") and len(g) > 2:
        for i in range(1, len(g)):
            out.append(g[:i] + g[i + 1:])                 # drop one element
    for i, x in kids:
        for y in subtrees(x):
            out.append(g[:i] + (y,) + g[i + 1:])          # shrink inside a child
    return out


def shrink(g, env, inp, fails, budget=150):
    """fails(g, env, inp) -> bool ; returns a smaller failing triple"""
    n = 0
    changed = True
    while changed and n < budget:
        changed = False
        for i in range(len(inp)):
            cand = inp[:i] + inp[i + 1:]
            n += 1
            if fails(g, env, cand):
                inp = cand
                changed = True
                break
            if n >= budget:
                break
        if changed:
            continue
        for cand in subtrees(g):
            n += 1
            try:
                ok = fails(cand, env, inp)
            except Exception:
                ok = False
            if ok:
                g = cand
                changed = True
                break
            if n >= budget:
                break
    return g, env, inp
