"""Run the real implementation / the extracted model on cases and bring both to one canonical observation form.

canonical results:  pres = ('P', [tok...], [(name, [(tok, pos)...])...], sorted(all_names), name)
                    tok  = ('s', str) | ('i', int) | ('b', bool) | 'none' | ('l', [tok...]) | ('p', pres)
canonical outcomes: ('ok', pres) | ('err', class_name, loc, message_text, element_id|None) | ('div',)
                    ('scan', [(pres, start, end)...], 'done' | ('err', ...) | 'div')
"""
import os, subprocess, sys
import pyparsing as pp
from pyparsing.results import ParseResults

HERE = os.path.dirname(os.path.dirname(os.path.dirname(os.path.abspath(__file__))))
DRIVER = os.path.join(HERE, "ocaml", "_build", "driver")


# ---------- S-expressions ----------
def parse_sx(s):
    pos = 0
    n = len(s)
    stack = [[]]
    while pos < n:
        c = s[pos]
        if c == "(":
            stack.append([])
            pos += 1
        elif c == ")":
            top = stack.pop()
            stack[-1].append(top)
            pos += 1
        elif c in " \n\t":
            pos += 1
        else:
            st = pos
            while pos < n and s[pos] not in " ()\n\t":
                pos += 1
            stack[-1].append(s[st:pos])
    return stack[0][0]


def _s(l):
    return "".join(chr(int(x)) for x in l)


def tok_from_sx(t):
    if t == "none":
        return "none"
    k = t[0]
    if k == "s": return ("s", _s(t[1]))
    if k == "i": return ("i", int(t[1]))
    if k == "b": return ("b", t[1] == "1")
    if k == "l": return ("l", [tok_from_sx(x) for x in t[1:]])
    if k == "p": return ("p", pres_from_sx(t[1]))
    raise ValueError(t)


def pres_from_sx(p):
    assert p[0] == "P", p
    toks = [tok_from_sx(x) for x in p[1]]
    d = [(_s(kv[0]), [(tok_from_sx(vp[0]), int(vp[1])) for vp in kv[1]]) for kv in p[2]]
    names = sorted(_s(x) for x in p[3])
    rn = None if p[4] == "N" else _s(p[4])
    return ("P", toks, d, names, rn)      # `_modal` is write-only in pyparsing (no method reads it): not compared


# ---------- the real objects ----------
def tok_from_real(v):
    if isinstance(v, ParseResults):
        return ("p", pres_from_real(v))
    if isinstance(v, bool): return ("b", v)
    if isinstance(v, int): return ("i", v)
    if isinstance(v, str): return ("s", v)
    if v is None: return "none"
    if isinstance(v, list): return ("l", [tok_from_real(x) for x in v])
    return ("other", repr(v))


def pres_from_real(r):
    toks = [tok_from_real(x) for x in r._toklist]
    d = [(str(k), [(tok_from_real(v[0]), v[1]) for v in occ]) for k, occ in r._tokdict.items()]
    return ("P", toks, d, sorted(str(x) for x in r._all_names), r._name)


def exc_from_real(e, dumper):
    el = getattr(e, "parser_element", None)
    return ("err", type(e).__name__, getattr(e, "loc", None), getattr(e, "msg", str(e)),
            dumper.ids.get(id(el)) if el is not None else None)


def set_mode(mode):
    pp.ParserElement.disable_memoization()
    if mode[0] == "packrat":
        pp.ParserElement.enable_packrat(mode[1])
    elif mode[0] == "lr":
        pp.ParserElement.enable_left_recursion(mode[1])


LAST_STATS = [0, 0]   # [hits, misses] of the packrat cache during the last real run


class _Timeout(BaseException):
    pass


def _on_alarm(signum, frame):
    raise _Timeout()


def run_real(root, dumper, inp, mode, entry, timeout=0.5):
    """a case that runs longer than `timeout` seconds OF ITS OWN CPU TIME is reported as ('div',): the real parser spins on
    repetitions whose body matches without consuming.  (ITIMER_VIRTUAL: a loaded machine does not turn a slow case into a
    spin; corr.run_groups additionally re-runs with a larger budget before it believes a disagreement that involves a spin)"""
    import signal
    old_handler = signal.signal(signal.SIGVTALRM, _on_alarm)
    div = ("div",) if entry[0] != "scan" else ("scan", [], "div")
    try:
        try:
            signal.setitimer(signal.ITIMER_VIRTUAL, timeout, 0.25)
            r = _run_real(root, dumper, inp, mode, entry)
        finally:
            signal.setitimer(signal.ITIMER_VIRTUAL, 0)
    except _Timeout:
        r = div
    finally:
        try:
            signal.setitimer(signal.ITIMER_VIRTUAL, 0)
            signal.signal(signal.SIGVTALRM, old_handler)
            LAST_STATS[:] = list(pp.ParserElement.packrat_cache_stats)
            pp.ParserElement.disable_memoization()
        except _Timeout:
            pass
    return r


def _run_real(root, dumper, inp, mode, entry):
    set_mode(mode)
    if True:
        if entry[0] == "parse":
            try:
                r = root.parse_string(inp, parse_all=entry[1])
                return ("ok", pres_from_real(r))
            except pp.ParseBaseException as e:
                return exc_from_real(e, dumper)
            except RecursionError:
                return ("div",)
            except Exception as e:
                return ("err", type(e).__name__, None, "", None)
        if entry[0] == "scan":
            out = []
            fin = "done"
            try:
                kw = {}
                if entry[1] is not None:
                    kw["max_matches"] = entry[1]
                for t, s, e in root.scan_string(inp, overlap=entry[2], always_skip_whitespace=entry[3], **kw):
                    out.append((pres_from_real(t), s, e))
            except pp.ParseBaseException as e:
                fin = exc_from_real(e, dumper)
            except RecursionError:
                fin = "div"
            except Exception as e:
                fin = ("err", type(e).__name__, None, "", None)
            return ("scan", out, fin)
        if entry[0] == "transform":
            kt = root.keepTabs                      # transform_string switches keepTabs on for good: restore it for the next case
            try:
                return ("str", root.transform_string(inp))
            except pp.ParseBaseException as e:
                return exc_from_real(e, dumper)
            except RecursionError:
                return ("div",)
            except Exception as e:
                return ("err", type(e).__name__, None, "", None)
            finally:
                root.keepTabs = kt
        raise ValueError(entry)


# ---------- the model ----------
def mode_sx(mode):
    if mode[0] == "none": return "none"
    if mode[0] == "packrat": return "(packrat %s)" % ("N" if mode[1] is None else mode[1])
    if mode[0] == "lr": return "(lr %s)" % ("N" if mode[1] is None else mode[1])
    raise ValueError(mode)


def entry_sx(entry):
    if entry[0] == "parse": return "(parse %d)" % int(entry[1])
    if entry[0] == "scan":
        return "(scan %s %d %d)" % ("N" if entry[1] is None else entry[1], int(entry[2]), int(entry[3]))
    if entry[0] == "peg":
        return "(peg)"
    if entry[0] == "transform":
        return "(transform)"
    raise ValueError(entry)


def case_line(cid, env_sx, root_sx, keeptabs, inp, mode, entry, dw=" \n\t\r"):
    chars = "(%s)" % " ".join(str(ord(c)) for c in inp)
    dwx = "(%s)" % " ".join(str(ord(c)) for c in dw)
    return "(case %s %s %s %d %s %s %s %s)" % (cid, env_sx, root_sx, int(keeptabs), chars, mode_sx(mode), entry_sx(entry), dwx)


def run_model(lines, shards=8, timeout=900):
    """lines: list of case lines; returns {id: raw_sx_text}"""
    if not lines:
        return {}
    shards = max(1, min(shards, len(lines) // 50 + 1))
    chunks = [lines[i::shards] for i in range(shards)]
    procs = []
    for ch in chunks:
        p = subprocess.Popen(["bash", "-c", "ulimit -s unlimited 2>/dev/null; exec %s" % DRIVER], stdin=subprocess.PIPE,
                             stdout=subprocess.PIPE, stderr=subprocess.PIPE, text=True)
        procs.append((p, ch))
    out = {}
    import threading
    results = [None] * len(procs)

    def feed(i, p, ch):
        results[i] = p.communicate("\n".join(ch) + "\n", timeout=timeout)
    ths = [threading.Thread(target=feed, args=(i, p, ch)) for i, (p, ch) in enumerate(procs)]
    for t in ths: t.start()
    for t in ths: t.join()
    for (p, ch), res in zip(procs, results):
        if res is None or p.returncode != 0:
            raise RuntimeError("model driver failed: rc=%s stderr=%s" % (p.returncode, (res or ("", ""))[1][-500:]))
        for line in res[0].split("\n"):
            if line:
                cid, _, rest = line.partition(" ")
                rest, _, fl = rest.partition(" #flags ")
                out[cid] = rest
                if fl:
                    MODEL_FLAGS[cid] = tuple(n for n, c in zip(FLAG_NAMES, fl.strip()) if c == "1")
    return out


FLAG_NAMES = ("seed_read", "seed_returned", "peek_tainted", "peek_replaced", "peek_error", "key_error")
MODEL_FLAGS = {}     # case id -> names of the LR flags (Model/LRT.v) raised by the model run


def outcome_from_model(text, dumper):
    sx = parse_sx(text)
    k = sx[0]
    if k == "ok":
        return ("ok", pres_from_sx(sx[1]))
    if k == "err":
        return _err(sx, dumper)
    if k in ("div", "oof"):
        return ("div",)
    if k == "scan":
        ms = [(pres_from_sx(m[0]), int(m[1]), int(m[2])) for m in sx[1]]
        fin = sx[2]
        if fin == "done": f = "done"
        elif fin == "div": f = "div"
        else: f = _err(fin, dumper)
        return ("scan", ms, f)
    if k == "peg":
        r = sx[3]
        if isinstance(r, list) and r[0] == "ok":
            res = ("ok", int(r[1]), [tok_from_sx(x) for x in r[2]])
        else:
            res = (r,)
        return ("peg", sx[1] == "1", sx[2] == "1", res)
    if k == "str":
        return ("str", "".join(chr(int(c)) for c in sx[1:]))
    if k == "bad":
        return ("bad", text)
    raise ValueError(text)


def _err(sx, dumper):
    loc = int(sx[2])
    el = None if sx[4] == "N" else int(sx[4])
    return ("err", sx[1], loc, dumper.render_msg(sx[3]), el)
