"""History independence of the entry points: an implementation-side metamorphic oracle shared by C02, C04, C08 and C14.

What an entry point (parse_string, scan_string, search_string, transform_string, split, matches) returns is a function of the
grammar AS CONFIGURED, the memoization MODE and the string - not of what the same grammar object was asked before.  A history is
a short list of steps on ONE grammar object:

  entry steps   ("parse", s) ("parse_all", s) ("scan", s) ("search", s) ("transform", s) ("split", s) ("matches", s)
  config steps  ("tabs",)    root.parse_with_tabs()
                ("action",)  a pure parse action added IN PLACE to a sub-expression the root refers to
  mode steps    ("mode", m)  the documented switches (enable_packrat / enable_left_recursion(force=True) / disable_memoization)

followed by one observed entry step.  The expected outcome is that of the observed step on a FRESH grammar object that received
the config steps only, in a process whose memoization was switched straight to the last mode.  The one documented carry-over is
modelled: transform_string leaves the element in keep-tabs mode (core.py: `self.keepTabs = True`), so a history with an earlier
transform step is compared with a fresh grammar on which parse_with_tabs() was called.

Nothing here is a theorem; the oracle exists because the properties quantify over "any sequence of calls" while the
correspondence runs build a fresh object per case."""
import random
import signal

MODES = {
    "none": ("none",), "packrat128": ("packrat", 128), "packratU": ("packrat", None), "packrat2": ("packrat", 2),
    "lrU": ("lr", None), "lr2": ("lr", 2),
}


class _Timeout(BaseException):
    pass


def _switch(pp, mode):
    """the documented way to go from whatever is enabled to `mode`"""
    PE = pp.ParserElement
    if mode[0] == "none":
        PE.disable_memoization()
    elif mode[0] == "packrat":
        PE.enable_packrat(mode[1], force=True)
    else:
        PE.enable_left_recursion(mode[1], force=True)


def grammars(pp, lr):
    """name -> builder() -> (root, inner or None, inputs).  `inner` is a sub-expression object the root refers to."""
    W, A, N = pp.Word, pp.alphas, pp.nums
    g = {}

    def seq():
        inner = W(N)
        return W(A)("w") + inner, inner, ["abc 123", "xy 7", "abc\t123", "abc 123 zz 45", "\tq 9", "abc"]
    g["seq"] = seq

    def rep():
        inner = W(N)
        return pp.OneOrMore(pp.Group(W(A) + inner("n*"))), inner, ["a 1 b 2", "a 1", "a\t1 b 22", "zz 4 !", "7"]
    g["rep"] = rep

    def alt():
        word, inner = W(A), W(N)
        return (word + inner("count") + "!") | (word + inner + "?"), inner, ["abc 123 ?", "abc 123 !", "x 1 ?", "abc\t12 ?"]
    g["alt"] = alt

    def located():
        inner = W(A)
        return pp.OneOrMore(pp.Located(inner)), inner, ["ab\tcd ef", "a b", "\tab", "ab cd\t"]
    g["located"] = located

    def fwd_right():
        e, inner = pp.Forward(), W(N)
        e <<= pp.Group(inner + pp.Opt(pp.Literal("+") + e))
        return e, inner, ["1+2+3", "1+2 xy 30+4", "4+5", "30+4", "1 + 2\t+ 3"]
    g["fwd-right"] = fwd_right

    if lr:
        def fwd_left():
            e, inner = pp.Forward(), W(N)
            e <<= pp.Group(e + "+" + inner) | inner
            return e, inner, ["1+2+3", "1+2 xy 30+4", "4+5", "30+4", "1 + 2\t+ 3"]
        g["fwd-left"] = fwd_left

        def fwd_left_named():
            e, inner = pp.Forward(), W(N)
            e <<= (e + "-" + inner("r*")) | inner("l")
            return e, inner, ["1-2-3", "1-2 9-8", "7", "10-4"]
        g["fwd-left-named"] = fwd_left_named
    return g


def _conv(t):
    return "<%s>" % t[0]


def do_step(pp, root, inner, step):
    k = step[0]
    if k == "tabs":
        root.parse_with_tabs(); return None
    if k == "action":
        if inner is not None:
            inner.add_parse_action(_conv)
        return None
    if k == "mode":
        _switch(pp, MODES[step[1]]); return None
    s = step[1]
    try:
        if k == "parse":
            r = root.parse_string(s); return ("ok", r.as_list(), r.as_dict())
        if k == "parse_all":
            r = root.parse_string(s, parse_all=True); return ("ok", r.as_list(), r.as_dict())
        if k == "scan":
            return ("ok", [(t.as_list(), t.as_dict(), a, b) for t, a, b in root.scan_string(s)])
        if k == "search":
            return ("ok", root.search_string(s).as_list())
        if k == "transform":
            return ("ok", root.transform_string(s))
        if k == "split":
            return ("ok", list(root.split(s)))
        if k == "matches":
            return ("ok", root.matches(s))
    except pp.ParseBaseException as e:
        return ("err", type(e).__name__, e.loc)
    except RecursionError:
        return ("rec",)
    except _Timeout:
        raise
    except Exception as e:
        return ("internal", type(e).__name__, str(e)[:80])
    raise ValueError(step)


ENTRY = ["parse", "parse_all", "scan", "search", "transform", "split", "matches"]


def random_history(rng, inputs, modes, with_tabs, with_action, mode_switches):
    steps = []
    for _ in range(rng.randint(1, 3)):
        c = rng.random()
        if c < 0.12 and with_tabs:
            steps.append(("tabs",))
        elif c < 0.27 and with_action:
            steps.append(("action",))
        elif c < 0.40 and mode_switches:
            steps.append(("mode", rng.choice(modes)))
        else:
            steps.append((rng.choice(ENTRY), rng.choice(inputs)))
    final = (rng.choice(["parse", "scan", "transform", "search", "parse_all", "split"]), rng.choice(inputs))
    return steps, final


def expected_of(pp, build, first_mode, steps, final):
    root, inner, _ = build()
    pp.ParserElement.disable_memoization()
    last = first_mode
    for st in steps:
        if st[0] == "mode":
            last = st[1]
    _switch(pp, MODES[last])
    tabs = False
    for st in steps:
        if st[0] in ("tabs", "action"):
            do_step(pp, root, inner, st)
        if st[0] == "transform":
            tabs = True
    if tabs:
        root.parse_with_tabs()
    return do_step(pp, root, inner, final)


def observed_of(pp, build, first_mode, steps, final):
    root, inner, _ = build()
    pp.ParserElement.disable_memoization()
    _switch(pp, MODES[first_mode])
    for st in steps:
        do_step(pp, root, inner, st)
    return do_step(pp, root, inner, final)


FIXED = [
    # (grammar, first mode, steps, final) - shapes worth running on every seed
    ("seq", "packrat128", [("transform", "abc 123"), ("action",)], ("scan", "abc 123")),
    ("seq", "packratU", [("scan", "abc 123"), ("action",)], ("transform", "abc 123")),
    ("seq", "packrat128", [("parse", "abc 123"), ("action",)], ("parse", "abc 123")),
    ("seq", "none", [("tabs",), ("transform", "xy 7")], ("scan", "abc\t123")),
    ("located", "none", [("tabs",), ("transform", "a b")], ("parse", "ab\tcd ef")),
    ("located", "packrat128", [("tabs",), ("search", "a b")], ("scan", "ab\tcd ef")),
    ("fwd-left", "lrU", [("parse", "30+4")], ("scan", "1+2 xy 30+4")),
    ("fwd-left", "lrU", [("scan", "30+4")], ("transform", "1+2 xy 30+4")),
    ("fwd-left", "lr2", [("parse", "4+5")], ("split", "1+2+3")),
    ("fwd-left", "packrat128", [("mode", "lrU")], ("parse", "1+2+3")),
    ("fwd-left", "packratU", [("parse", "4+5"), ("mode", "lrU")], ("parse", "1+2+3")),
    ("fwd-left", "packrat128", [("mode", "lr2")], ("scan", "1+2 xy 30+4")),
    ("fwd-left-named", "packrat128", [("mode", "lrU")], ("parse", "1-2-3")),
    ("fwd-right", "lrU", [("mode", "packrat128")], ("parse", "1+2+3")),
    ("alt", "lrU", [("parse", "abc 123 !")], ("parse", "abc 123 ?")),
]


def run(ctx, prop, modes, n, with_tabs=True, with_action=True, mode_switches=False, seed_salt=0, budget=2.0):
    """modes: names from MODES the histories start in (and switch between when mode_switches).  Reports
    ctx.violation("history:...") on a difference; returns the number of histories run."""
    import pyparsing as pp
    lr = any(m.startswith("lr") for m in modes)
    G = grammars(pp, lr)
    rng = random.Random(ctx.seed * 7919 + seed_salt)
    todo = [(g, m, st, fin) for (g, m, st, fin) in FIXED if g in G and m in modes
            and all(s[0] != "mode" or (mode_switches and s[1] in modes) for s in st)
            and (with_tabs or all(s[0] != "tabs" for s in st)) and (with_action or all(s[0] != "action" for s in st))]
    names = sorted(G)
    while len(todo) < n:
        gname = rng.choice(names)
        inputs = G[gname]()[2]
        m = rng.choice(modes)
        if gname.startswith("fwd-left") and not m.startswith("lr"):
            # a left-recursive Forward needs the bounded-recursion mode at the observed step
            continue
        steps, final = random_history(rng, inputs, modes, with_tabs, with_action, mode_switches)
        if gname.startswith("fwd-left") and any(s[0] == "mode" and not s[1].startswith("lr") for s in steps):
            continue
        todo.append((gname, m, steps, final))

    def on_alarm(sig, frm):
        raise _Timeout()
    old = signal.signal(signal.SIGPROF, on_alarm)
    done = 0
    try:
        for gname, m, steps, final in todo:
            try:
                signal.setitimer(signal.ITIMER_PROF, budget, 0.25)
                try:
                    got = observed_of(pp, G[gname], m, steps, final)
                    want = expected_of(pp, G[gname], m, steps, final)
                finally:
                    signal.setitimer(signal.ITIMER_PROF, 0)
            except _Timeout:
                ctx.stat("history_timeouts")
                continue
            finally:
                signal.setitimer(signal.ITIMER_PROF, 0)
                pp.ParserElement.disable_memoization()
            done += 1
            ctx.stat("history_cases")
            ctx.case("history|%s|%s|%r|%r" % (gname, m, steps, final), nontrivial=True, agreed=True)
            if got != want:
                last = m
                for s in steps:
                    if s[0] == "mode":
                        last = s[1]
                kinds = "+".join(sorted(set(s[0] for s in steps)))
                ctx.violation("history:%s-after-%s:%s:%s" % (final[0], kinds, gname, last),
                              "grammar %s, starting in mode %s: after the steps %r, %s(%r) gives %r; a fresh grammar with the same "
                              "configuration in mode %s gives %r" % (gname, m, steps, final[0], final[1], got, last, want),
                              {"kind": "history", "grammar": gname, "mode": m, "steps": [list(s) for s in steps], "final": list(final),
                               "lr": lr})
    finally:
        signal.setitimer(signal.ITIMER_PROF, 0)
        signal.signal(signal.SIGPROF, old)
        pp.ParserElement.disable_memoization()
    return done


def replay(r):
    """re-runs one recorded history; True iff observed == expected"""
    import pyparsing as pp
    G = grammars(pp, bool(r.get("lr")))
    steps = [tuple(s) for s in r["steps"]]
    final = tuple(r["final"])
    try:
        got = observed_of(pp, G[r["grammar"]], r["mode"], steps, final)
        want = expected_of(pp, G[r["grammar"]], r["mode"], steps, final)
    finally:
        pp.ParserElement.disable_memoization()
    print("observed", got)
    print("expected", want)
    return got == want
