"""Shared correspondence runner: executes groups of cases on the real implementation and on the extracted model.

group = (root_surface, env_surface, inputs, modes, entries)
record = dict(g, env, inp, mode, entry, real, model, agree)
"""
from . import build, dump, observe

PBE = ("ParseException", "ParseFatalException", "ParseSyntaxException")


def proj_all(o):
    """full observation, minus parser_element (not part of any property) and minus fields of foreign exceptions"""
    if o[0] == "err":
        return o[:4] if o[1] in PBE else o[:2]
    if o[0] == "scan":
        if o[2] == "div":
            return ("scan", "div")       # the matches yielded before the generator started to spin are not compared
        return ("scan", o[1], proj_all(o[2]) if isinstance(o[2], tuple) else o[2])
    return o


def ensure_driver():
    import os, subprocess
    here = observe.HERE
    from tools import vlib
    ok, log = vlib.build_target("Model/LRT.vo Model/Transform.vo Model/Peg.vo Model/Entry.vo Proofs/EqDec.v")      # what Extract.v requires
    if not ok:
        raise RuntimeError("the model does not build: " + log[-800:])
    r = subprocess.run(["bash", os.path.join(here, "ocaml", "build.sh")], capture_output=True, text=True, timeout=900)
    if r.returncode != 0 or not os.path.exists(observe.DRIVER):
        raise RuntimeError("model driver build failed: " + (r.stdout + r.stderr)[-800:])


def run_groups(groups, proj=proj_all, stats=None, model=True, skip_spins=True):
    """returns list of records; unsupported grammars are counted in stats['unsupported']"""
    stats = stats if stats is not None else {}
    lines, recs = [], []
    n = 0
    for (g, env, inputs, modes, entries) in groups:
        b = build.Builder(env)
        try:
            root = b.build_all(g)
            root.streamline()
            d = dump.Dumper()
            rsx, esx = d.dump(root)
        except (dump.Unsupported, build.Unbuildable) as e:
            stats["unsupported"] = stats.get("unsupported", 0) + 1
            stats.setdefault("unsupported_reasons", {})
            stats["unsupported_reasons"][str(e)[:40]] = stats["unsupported_reasons"].get(str(e)[:40], 0) + 1
            continue
        for cname, cnt in d.classes.items():
            stats.setdefault("classes", {})
            stats["classes"][cname] = stats["classes"].get(cname, 0) + 1
        spins = set()        # inputs on which this grammar spins: the other modes/entries are not run (they spin too)
        for inp in inputs:
            for mode in modes:
                for entry in entries:
                    if skip_spins and inp in spins:
                        stats["skipped_after_spin"] = stats.get("skipped_after_spin", 0) + 1
                        continue
                    cid = "c%d" % n
                    n += 1
                    real = observe.run_real(root, d, inp, mode, entry) if entry[0] != "peg" else None
                    if real is not None and (real == ("div",) or (real[0] == "scan" and real[2] == "div")):
                        spins.add(inp)
                    if model:
                        lines.append(observe.case_line(cid, esx, rsx, root.keepTabs, inp, mode, entry))
                    recs.append({"id": cid, "g": g, "env": env, "inp": inp, "mode": mode, "entry": entry, "real": real,
                                 "dumper": d, "root": root, "hits": observe.LAST_STATS[0], "misses": observe.LAST_STATS[1]})
    if model:
        out = observe.run_model(lines)
        for r in recs:
            txt = out.get(r["id"])
            if txt is None:
                r["model"] = ("missing",)
            else:
                r["model"] = observe.outcome_from_model(txt, r["dumper"])
                r["flags"] = observe.MODEL_FLAGS.get(r["id"])
            r["agree"] = True if r["real"] is None else proj(r["model"]) == proj(r["real"])
            if not r["agree"] and _spun(r["real"]) and not _spun(r["model"]):
                # the implementation was cut off but the model terminates: give the real parser a generous budget before believing it
                r["real"] = observe.run_real(r["root"], r["dumper"], r["inp"], r["mode"], r["entry"], timeout=8.0)
                r["agree"] = proj(r["model"]) == proj(r["real"])
                stats["retried_after_cutoff"] = stats.get("retried_after_cutoff", 0) + 1
    return recs


def _spun(o):
    return o is not None and (o == ("div",) or (o[0] == "scan" and o[2] == "div"))


def kind_of(o):
    if o[0] == "ok": return "ok"
    if o[0] == "err": return o[1]
    if o[0] == "scan": return "scan"
    return o[0]


def describe(r):
    return {"grammar": r["g"], "env": r["env"], "input": r["inp"], "mode": r["mode"], "entry": r["entry"],
            "real": r["real"], "model": r.get("model")}
