"""Helpers shared by the parse-level property plugins (C01..C09, C12, C14)."""
import json
from . import gen, corr, shrink as shr

TRUSTED_PARSE = [
    "extraction: ExtrOcamlBasic only (bool, option, list, prod, sumbool, unit); nat/N/Z/positive stay Coq datatypes; "
    "ocaml/driver.ml (S-expression reader/printer, no logic)",
    "tools/harness/dump.py: reads the attributes of the real (streamlined) pyparsing objects into the model's attributed "
    "grammar; tools/harness/build.py: builds grammars through the public API; observe.py: canonical observations",
    "model limits: classes outside coq/Model/Core.v (Regex, QuotedString, CloseMatch, Dict, IndentedBlock, Tag, "
    "non-exact PrecededBy, debug/fail actions) are reported as unsupported and carry no theorem",
]


def key_of(r):
    return json.dumps([r["g"], sorted(r["env"].items()) if r["env"] else [], r["inp"], r["mode"], r["entry"]], default=str)


def grammar_groups(ctx, n_random, depth=(2, 5), opts=None, modes=(("none",),), entries=(("parse", False),),
                   inputs_per=6, enum_depth=0, enum_inputs=None, envs=None):
    rng = ctx.rng
    groups = []
    envs = envs or [gen.ENV0, gen.ENV_EXPR]
    if enum_depth:
        for g in gen.enum_depth(enum_depth):
            groups.append((g, gen.ENV0, enum_inputs or gen.enum_inputs(2, "ab, "), list(modes), list(entries)))
    for _ in range(n_random):
        g = gen.rand_grammar(rng, rng.randint(*depth), opts)
        env = rng.choice(envs)
        inputs = set()
        for _ in range(inputs_per):
            s = gen.sample_input(rng, g, env)
            inputs.add(s)
            inputs.add(gen.mutate_input(rng, s))
        groups.append((g, env, sorted(inputs)[:2 * inputs_per], list(modes), list(entries)))
    return groups


def single(g, env, inp, mode, entry, proj=corr.proj_all):
    recs = corr.run_groups([(g, env, [inp], [mode], [entry])], proj=proj)
    return recs[0] if recs else None


def model_agreement(ctx, recs, family, proj=corr.proj_all, max_report=3):
    """count cases; report (shrunk) disagreements between model and implementation as a broken correspondence"""
    bad = [r for r in recs if not r.get("agree", True)]
    reported = 0
    for r in bad:
        if reported >= max_report:
            break
        def fails(g, env, inp, r=r):
            x = single(g, env, inp, r["mode"], r["entry"], proj)
            return x is not None and not x["agree"]
        try:
            g, env, inp = shr.shrink(r["g"], r["env"], r["inp"], fails, budget=60)
            x = single(g, env, inp, r["mode"], r["entry"], proj) or r
        except Exception:
            g, env, inp, x = r["g"], r["env"], r["inp"], r
        ctx.broken("correspondence:%s model!=impl grammar=%r env=%r input=%r mode=%r entry=%r impl=%r model=%r" % (
            family, g, env, inp, r["mode"], r["entry"], proj(x["real"]), proj(x["model"])))
        reported += 1
    ctx.stat(family + "_compared", len(recs))
    ctx.stat(family + "_disagreements", len(bad))
    return bad


def outcome_hist(ctx, recs):
    for r in recs:
        ctx.stat("outcome_" + corr.kind_of(r["real"]))
