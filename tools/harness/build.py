"""Surface grammars (nested tuples) -> real pyparsing objects, through the public API only.

g ::= ('lit', s) | ('clit', s) | ('kw', s) | ('ckw', s) | ('word', init[, body[, min, max, exact, askw]]) | ('char', set)
    | ('notin', chars[, min, max, exact]) | ('white', chars) | ('empty',) | ('nomatch',)
    | ('linestart',) | ('lineend',) | ('stringstart',) | ('stringend',) | ('wordstart', chars) | ('wordend', chars) | ('gotocol', n)
    | ('and', g...) | ('andstop', i, g...)    # '-' (error stop) before element i>=1
    | ('mf', g...) | ('or', g...) | ('each', g...)
    | ('opt', g) | ('optd', default, g) | ('star', g) | ('plus', g) | ('starstop', g, stop) | ('plusstop', g, stop)
    | ('not', g) | ('fb', g) | ('pb', g)
    | ('group', g) | ('grouplist', g) | ('suppress', g) | ('combine', g) | ('combinej', join, adjacent, g) | ('located', g) | ('dict', g)
    | ('skipto', g) | ('skiptoi', g) | ('skiptof', g, failon) | ('dlist', g, delim) | ('atss', g) | ('atls', g)
    | ('fwd', k)
    | ('name', n, g) | ('namestar', n, g) | ('copy', g)
    | ('act', action, g)            # action = model action tuple, see ACTIONS
    | ('leavews', g) | ('ignore', g, c) | ('setws', chars, g) | ('keeptabs', g) | ('setname', n, g)
env : {k: g}  Forward bodies attached with <<=
"""
import pyparsing as pp


class Unbuildable(Exception):
    pass


# ---- actions: Python callables paired with their model term --------------------------------------------
_ACT_COUNTER = [0]
ACT_REGISTRY = {}   # function __name__ -> model action s-expression text


def _tok_sx(v):
    if isinstance(v, bool):
        return "(b %d)" % int(v)
    if isinstance(v, int):
        return "(i %d)" % v
    if v is None:
        return "none"
    if isinstance(v, str):
        return "(s (%s))" % " ".join(str(ord(c)) for c in v)
    if isinstance(v, list):
        return "(l %s)" % " ".join(_tok_sx(x) for x in v)
    raise Unbuildable("token literal %r" % (v,))


def chars_sx(s):
    return "(%s)" % " ".join(str(ord(c)) for c in s)


EXC = {"parse": pp.ParseException, "fatal": pp.ParseFatalException, "index": IndexError, "type": TypeError,
       "value": ValueError, "key": KeyError, "attr": AttributeError}


def make_action(spec):
    """spec: ('keep',) ('const', [..]) ('conststr', s) ('upper',) ('join',) ('loc',) ('append', v) ('raise', kind, id)
             ('cond', minlen, fatal, id)   -> (callable, model-sx, is_condition)"""
    kind = spec[0]
    _ACT_COUNTER[0] += 1
    name = "act_%d" % _ACT_COUNTER[0]
    if kind == "keep":
        def f(s, l, t): return None
        sx = "keep"
    elif kind == "const":
        v = spec[1]
        def f(s, l, t): return list(v)
        sx = "(const %s)" % " ".join(_tok_sx(x) for x in v)
    elif kind == "conststr":
        v = spec[1]
        def f(s, l, t): return v
        sx = "(conststr %s)" % chars_sx(v)
    elif kind == "upper":
        # the test action upper-cases a-z only (Model/Core.v AUpper / upper_c): str.upper() on non-ASCII text is not modelled
        _UP = {c: c - 32 for c in range(97, 123)}
        def f(s, l, t): return [x.translate(_UP) if isinstance(x, str) else x for x in t]
        sx = "upper"
    elif kind == "join":
        def f(s, l, t): return "".join(t._asStringList())
        sx = "join"
    elif kind == "loc":
        def f(s, l, t): return [l]
        sx = "loc"
    elif kind == "append":
        v = spec[1]
        def f(s, l, t):
            t.append(v)
        sx = "(append %s)" % _tok_sx(v)
    elif kind == "raise":
        k, i = spec[1], spec[2]
        if k in ("parse", "fatal"):
            def f(s, l, t): raise EXC[k](s, l, "user%d" % i)
        else:
            def f(s, l, t): raise EXC[k]("user%d" % i)
        sx = "(raise %s %d)" % (k, i)
    elif kind == "cond":
        m, fatal, i = spec[1], spec[2], spec[3]
        def g(s, l, t): return len(t[0]) >= m
        g.__name__ = name
        ACT_REGISTRY[name] = "(cond %d %d %d)" % (m, int(fatal), i)
        return g, ACT_REGISTRY[name], True, {"fatal": fatal, "message": "user%d" % i}
    else:
        raise Unbuildable("action %r" % (spec,))
    f.__name__ = name
    ACT_REGISTRY[name] = sx
    return f, sx, False, None


class Builder:
    def __init__(self, env=None, share=True):
        self.envspec = env or {}
        self.fwds = {}
        self.memo = {}
        self.share = share

    def build_all(self, root):
        for k in self.envspec:
            self.fwds[k] = pp.Forward()
        r = self.build(root)
        for k, g in self.envspec.items():
            self.fwds[k] <<= self.build(g)
        return r

    def fresh(self, g):
        """a private object graph for g (nothing shared with other uses), for the API calls that mutate in place"""
        saved, self.memo = self.memo, {}
        old_share, self.share = self.share, False
        try:
            return self.build(g)
        finally:
            self.memo, self.share = saved, old_share

    def build(self, g):
        mutating = g[0] in ("act", "leavews", "ignore", "setws", "keeptabs", "setname")
        if self.share and not mutating and g in self.memo:
            return self.memo[g]
        e = self._build(g)
        if e is None:
            raise Unbuildable("the API call for %r returned None" % (g[0],))
        if self.share and not mutating:
            self.memo[g] = e
        return e

    def _build(self, g):
        k = g[0]
        B = self.build
        if k == "lit": return pp.Literal(g[1])
        if k == "clit": return pp.CaselessLiteral(g[1])
        if k == "kw": return pp.Keyword(g[1])
        if k == "ckw": return pp.CaselessKeyword(g[1])
        if k == "word":
            kw = {}
            if len(g) > 3:
                mn, mx, ex, askw = g[3:7]
                kw = dict(min=mn, max=mx, exact=ex, as_keyword=askw)
            return pp.Word(g[1], g[2] if len(g) > 2 else None, **kw)
        if k == "char": return pp.Char(g[1])
        if k == "notin":
            kw = {}
            if len(g) > 2:
                kw = dict(min=g[2], max=g[3], exact=g[4])
            return pp.CharsNotIn(g[1], **kw)
        if k == "white": return pp.White(g[1])
        if k == "empty": return pp.Empty()
        if k == "nomatch": return pp.NoMatch()
        if k == "linestart": return pp.LineStart()
        if k == "lineend": return pp.LineEnd()
        if k == "stringstart": return pp.StringStart()
        if k == "stringend": return pp.StringEnd()
        if k == "wordstart": return pp.WordStart(g[1])
        if k == "wordend": return pp.WordEnd(g[1])
        if k == "gotocol": return pp.GoToColumn(g[1])
        if k == "and":
            es = [B(x) for x in g[1:]]
            r = es[0]
            if len(es) == 1:
                return pp.And([r])
            for x in es[1:]:
                r = r + x
            return r
        if k == "andstop":
            i = g[1]
            es = [B(x) for x in g[2:]]
            r = es[0]
            for j, x in enumerate(es[1:], 1):
                r = (r - x) if j == i else (r + x)
            return r
        if k in ("mf", "or", "each"):
            es = [B(x) for x in g[1:]]
            cls = {"mf": pp.MatchFirst, "or": pp.Or, "each": pp.Each}[k]
            if len(es) == 1:
                return cls([es[0]])
            r = es[0]
            for x in es[1:]:
                r = (r | x) if k == "mf" else ((r ^ x) if k == "or" else (r & x))
            return r
        if k == "opt": return pp.Opt(B(g[1]))
        if k == "optd": return pp.Opt(B(g[2]), default=g[1])
        if k == "star": return pp.ZeroOrMore(B(g[1]))
        if k == "plus": return pp.OneOrMore(B(g[1]))
        if k == "starstop": return pp.ZeroOrMore(B(g[1]), stop_on=B(g[2]))
        if k == "plusstop": return pp.OneOrMore(B(g[1]), stop_on=B(g[2]))
        if k == "not": return ~B(g[1])
        if k == "fb": return pp.FollowedBy(B(g[1]))
        if k == "pb": return pp.PrecededBy(B(g[1]))
        if k == "group": return pp.Group(B(g[1]))
        if k == "grouplist": return pp.Group(B(g[1]), aslist=True)
        if k == "suppress": return pp.Suppress(B(g[1]))
        if k == "combine": return pp.Combine(B(g[1]))
        if k == "combinej": return pp.Combine(B(g[3]), join_string=g[1], adjacent=g[2])
        if k == "located": return pp.Located(B(g[1]))
        if k == "dict": return pp.Dict(B(g[1]))
        if k == "skipto": return pp.SkipTo(B(g[1]))
        if k == "skiptoi": return pp.SkipTo(B(g[1]), include=True)
        if k == "skiptof": return pp.SkipTo(B(g[1]), fail_on=B(g[2]))
        if k == "dlist": return pp.DelimitedList(B(g[1]), delim=g[2])
        if k == "atss": return pp.AtStringStart(B(g[1]))
        if k == "atls": return pp.AtLineStart(B(g[1]))
        if k == "fwd":
            if g[1] not in self.fwds:
                self.fwds[g[1]] = pp.Forward()
            return self.fwds[g[1]]
        if k == "name": return B(g[2]).set_results_name(g[1])
        if k == "namestar": return B(g[2])(g[1] + "*")
        if k == "copy": return B(g[1]).copy()
        if k == "act":
            e = self.fresh(g[2])
            f, sx, is_cond, kw = make_action(g[1])
            if is_cond:
                e.add_condition(f, **kw)
            else:
                e.add_parse_action(f)
            return e
        if k == "leavews": return self.fresh(g[1]).leave_whitespace()
        if k == "ignore": return self.fresh(g[1]).ignore(B(g[2]))
        if k == "setws": return self.fresh(g[2]).set_whitespace_chars(g[1])
        if k == "keeptabs": return self.fresh(g[1]).parse_with_tabs()
        if k == "setname": return self.fresh(g[2]).set_name(g[1])
        raise Unbuildable("surface form %r" % (k,))
