"""Dump a real (streamlined) pyparsing object graph as the model's attributed `expr` (S-expression text for the
OCaml driver), plus the table node-id -> errmsg used to render the model's message references."""
import pyparsing as pp
from pyparsing import core as C
from .build import ACT_REGISTRY, chars_sx, _tok_sx


class Unsupported(Exception):
    pass


MAXINT = C._MAX_INT
_NOT_MATCHED = pp.Opt._Opt__optionalNotMatched

KW_SUFFIX = {0: "", 1: ", was immediately followed by keyword character",
             2: ", keyword was immediately followed by keyword character",
             3: ", keyword was immediately preceded by keyword character"}
FIXED_MSG = {"noalt": "no defined alternatives to match", "noexpr": "No expression defined",
             "notstringstart": "not found at string start", "notlinestart": "not found at line start",
             "textcol": "Text not in expected column", "actindex": "exception raised in parse action",
             "fwdnobase": "Forward recursion without base case", "empty": ""}


class Dumper:
    def __init__(self):
        self.ids = {}          # id(obj) -> nid
        self.objs = []         # keep objects alive so id() stays unique
        self.errmsg = {4003: "Expected end of text"}
        self.fwd_index = {}    # id(forward) -> env index
        self.fwd_bodies = []   # env: list of body objects
        self.classes = {}

    def nid(self, e):
        k = id(e)
        if k not in self.ids:
            self.ids[k] = len(self.ids) + 1
            self.objs.append(e)
            self.errmsg[self.ids[k]] = e.errmsg if e.errmsg is not None else ""
        return self.ids[k]

    # ---- attrs
    def actions(self, e):
        out = []
        for i, fn in enumerate(e.parseAction):
            name = getattr(fn, "__name__", "")
            if name in ACT_REGISTRY:
                out.append(ACT_REGISTRY[name])
            elif isinstance(e, pp.PrecededBy) and i == 0 and name == "<lambda>":
                out.append("delall")
            else:
                raise Unsupported("parse action %r" % name)
        return "(%s)" % " ".join(out)

    def attrs(self, e):
        if e.debug or e.failAction is not None:
            raise Unsupported("debug/failAction")
        rs = e.resultsName
        rsx = "N" if rs is None else "(S %s)" % " ".join(str(ord(c)) for c in str(rs))
        try:
            slen = len(str(e))
        except RecursionError:
            slen = 0
        return "(A %d %s %d %d %d %s %d %d %d %d %s %d %d)" % (
            self.nid(e), rsx, int(e.modalResults), int(bool(e.saveAsList)), int(e.skipWhitespace),
            chars_sx("".join(sorted(e.whiteChars))), int(e.callPreparse), int(e.mayIndexError),
            int(e.customName is not None), int(bool(e.errmsg)), self.actions(e), int(bool(e.callDuringTry)), min(slen, 4000))

    def ign(self, e):
        return "(%s)" % " ".join(self.expr(x) for x in e.ignoreExprs)

    # ---- nodes
    def expr(self, e):
        t = type(e)
        self.classes[t.__name__] = self.classes.get(t.__name__, 0) + 1
        A, I = self.attrs(e), self.ign(e)
        mx = lambda v: "N" if v == MAXINT else str(v)
        if t is pp.Empty:
            return "(T %s %s empty)" % (A, I)
        if t in (pp.Literal, C._SingleCharLiteral):
            return "(T %s %s (lit %s))" % (A, I, chars_sx(e.match))
        if t is pp.CaselessLiteral:
            return "(T %s %s (clit %s %s))" % (A, I, chars_sx(e.match), chars_sx(e.returnString))
        if t in (pp.Keyword, pp.CaselessKeyword):
            return "(T %s %s (kw %s %s %d %s))" % (A, I, chars_sx(e.match), chars_sx("".join(sorted(e.identChars))),
                                                      int(e.caseless), chars_sx(e.caselessmatch if e.caseless else ""))
        if t in (pp.Word, pp.Char):
            use_re = "parseImpl" in e.__dict__
            return "(T %s %s (word %s %s %d %s %d %d %d))" % (
                A, I, chars_sx("".join(sorted(e.initChars))), chars_sx("".join(sorted(e.bodyChars))), e.minLen, mx(e.maxLen),
                int(e.maxSpecified), int(e.asKeyword), int(use_re))
        if t is pp.CharsNotIn:
            return "(T %s %s (notin %s %d %s))" % (A, I, chars_sx("".join(sorted(e.notCharsSet))), e.minLen, mx(e.maxLen))
        if t is pp.White:
            return "(T %s %s (white %s %d %s))" % (A, I, chars_sx(e.matchWhite), e.minLen, mx(e.maxLen))
        if t is pp.NoMatch:
            return "(T %s %s nomatch)" % (A, I)
        if t is pp.LineStart:
            return "(T %s %s (linestart %d %s))" % (A, I, int("\n" in e.orig_whiteChars),
                                                    chars_sx("".join(sorted(e.skipper.whiteChars))))
        if t is pp.LineEnd: return "(T %s %s lineend)" % (A, I)
        if t is pp.StringStart:
            if e.ignoreExprs:
                # StringStart.parseImpl compares loc with self.preParse(instring, 0), which runs the ignore expressions from 0;
                # the model's token step is a pure function of (string, loc) and reads whitespace only
                raise Unsupported("StringStart with ignore expressions (preParse from 0 runs sub-parsers)")
            return "(T %s %s stringstart)" % (A, I)
        if t is pp.StringEnd: return "(T %s %s stringend)" % (A, I)
        if t is pp.WordStart: return "(T %s %s (wordstart %s))" % (A, I, chars_sx("".join(sorted(e.wordChars))))
        if t is pp.WordEnd: return "(T %s %s (wordend %s))" % (A, I, chars_sx("".join(sorted(e.wordChars))))
        if t is pp.GoToColumn: return "(T %s %s (gotocol %d))" % (A, I, e.col)
        if t is pp.And._ErrorStop: return "(T %s %s errorstop)" % (A, I)
        if t in (pp.And, pp.MatchFirst, pp.Or):
            kind = {pp.And: "and", pp.MatchFirst: "mf", pp.Or: "or"}[t]
            return "(N %s %s %s (%s))" % (A, I, kind, " ".join(self.expr(x) for x in e.exprs))
        if t is pp.Each:
            kids = " ".join(self.expr(x) for x in e.exprs)       # first: fills the str() caches that `==` looks at
            return "(N %s %s (each %s) (%s))" % (A, I, self.each_info(e), kids)
        if t is pp.Forward:
            if e.expr is None:
                return "(F %s %s N)" % (A, I)
            if id(e) not in self.fwd_index:
                self.fwd_index[id(e)] = len(self.fwd_bodies)
                self.fwd_bodies.append(e.expr)
            return "(F %s %s %d)" % (A, I, self.fwd_index[id(e)])
        if t in (pp.OneOrMore, pp.ZeroOrMore):
            ne = "N" if e.not_ender is None else self.expr(e.not_ender)
            return "(R %s %s %d %s %s)" % (A, I, int(t is pp.ZeroOrMore), self.expr(e.expr), ne)
        if t is pp.SkipTo:
            fo = "N" if e.failOn is None else self.expr(e.failOn)
            ig2 = "(%s)" % " ".join(self.expr(x) for x in e.ignorer.ignoreExprs)
            return "(K %s %s %s %d %s %s)" % (A, I, self.expr(e.expr), int(e.includeMatch), ig2, fo)
        ek = None
        if t is pp.Group: ek = "(group %d)" % int(e._asPythonList)
        elif t is pp.Suppress: ek = "suppress"
        elif t is pp.Combine: ek = "(combine %s)" % chars_sx(e.joinString)
        elif t is pp.Opt:
            ek = "(opt N)" if e.defaultValue is _NOT_MATCHED else "(opt %s)" % _tok_sx(e.defaultValue)
        elif t is pp.NotAny: ek = "not"
        elif t is pp.FollowedBy: ek = "fb"
        elif t.__name__ == "FollowedBy>" and issubclass(t, pp.FollowedBy): ek = "lookahead"   # infix_notation's _FB
        elif t is pp.Located: ek = "located"
        elif t is pp.AtStringStart: ek = "atstringstart"
        elif t is pp.AtLineStart: ek = "atlinestart"
        elif t is pp.PrecededBy:
            if not e.exact:
                raise Unsupported("PrecededBy non-exact")
            ek = "(pb 1 %d)" % e.retreat
        elif t in (pp.DelimitedList, pp.TokenConverter): ek = "pass"
        if ek is not None:
            if e.expr is None:
                raise Unsupported("enhance without expr")
            return "(E %s %s %s %s)" % (A, I, ek, self.expr(e.expr))
        raise Unsupported("class " + t.__name__)

    # ---- Each: what parseImpl reads from its children beyond their dumped structure
    @staticmethod
    def _plain_rename(b, t):
        """is the copy t (made by set_results_name) of b the same grammar up to the name?  copy() resets the whitespace
        characters of elements with copyDefaultWhiteChars, deep-copies the children of And/Or/MatchFirst/Each and gives
        a Forward a new identity (the key of the left-recursion memo): those copies are outside the model"""
        if type(b) is not type(t) or set(b.whiteChars) != set(t.whiteChars) or isinstance(b, pp.Forward):
            return False
        if isinstance(b, pp.ParseExpression):
            return len(b.exprs) == len(t.exprs) and all(Dumper._plain_rename(x, y) for x, y in zip(b.exprs, t.exprs))
        return True

    def each_info(self, e):
        """per child: (mayReturnEmpty, class of the child under ParserElement.__eq__, class of its operand), where the
        operand is what initExprGroups puts into self.required / optionals / multioptionals for the child.  Classes are
        numbered by the first member; `==` is the real `vars(self) == vars(other)` evaluated on the real objects."""
        reps = (pp.OneOrMore, pp.ZeroOrMore)
        objs = []
        for c in e.exprs:
            if isinstance(c, pp.Opt):
                op = c.expr
            elif isinstance(c, reps):
                if c.resultsName is None:
                    op = c.expr
                else:
                    if c.expr is None:
                        raise Unsupported("Each: repetition without expr")
                    op = c.expr.set_results_name(c.resultsName, list_all_matches=True)    # the copy initExprGroups makes
                    if op is c.expr or not self._plain_rename(c.expr, op):
                        raise Unsupported("Each: named repetition whose copy is not a plain rename")
                    # F-01c: initExprGroups makes TWO copies of a named repetition's body (one for `required`, one for the repeatable
                    # operands) and later tests `e in tmpReqd` with ParserElement.__eq__ = vars(self) == vars(other).  An Each inside
                    # that body grows attributes (its own lazily computed groups) the first time it is parsed, so the two copies stop
                    # being equal DURING the parse; the model's equality classes are those at dump time.
                    if any(isinstance(x, pp.Each) for x in c.expr.visit_all()):
                        raise Unsupported("Each: named repetition operand containing an Each (equality of its copies changes during the parse: F-01c)")
            else:
                op = c
            objs += [c, op]
        if not e.initExprGroups:
            self._each_check_groups(e)
        try:
            eq = [[(x is y) or bool(x == y) for y in objs] for x in objs]
        except RecursionError:
            raise Unsupported("Each: == on operands recurses")
        cls = [min(j for j in range(len(objs)) if eq[j][i]) for i in range(len(objs))]
        if any(eq[i][j] != (cls[i] == cls[j]) for i in range(len(objs)) for j in range(len(objs))):
            raise Unsupported("Each: == on operands is not an equivalence")
        return " ".join("(%d %d %d)" % (int(bool(c.mayReturnEmpty)), cls[2 * i], cls[2 * i + 1]) for i, c in enumerate(e.exprs))

    @staticmethod
    def _each_check_groups(e):
        """initExprGroups already ran (an earlier parse): the stored groups must be what the model recomputes"""
        reps = (pp.OneOrMore, pp.ZeroOrMore)

        def same_multi(stored, children):
            if len(stored) != len(children):
                return False
            for r, c in zip(stored, children):
                if c.resultsName is None:
                    if r is not c.expr:
                        return False
                elif r is c.expr or type(r) is not type(c.expr) or r.resultsName != c.resultsName or r.modalResults:
                    return False
            return True
        plain = [c for c in e.exprs if not isinstance(c, (pp.Opt,) + reps)]
        plus = [c for c in e.exprs if isinstance(c, pp.OneOrMore)]
        opts = [c.expr for c in e.exprs if isinstance(c, pp.Opt)] + \
               [c for c in e.exprs if c.mayReturnEmpty and not isinstance(c, (pp.Opt, pp.Regex, pp.ZeroOrMore))]
        ok = (len(e.required) == len(plain) + len(plus) and all(x is y for x, y in zip(e.required, plain))
              and same_multi(e.required[len(plain):], plus)
              and len(e.optionals) == len(opts) and all(x is y for x, y in zip(e.optionals, opts))
              and same_multi(e.multioptionals, [c for c in e.exprs if isinstance(c, reps)]))
        if not ok:
            raise Unsupported("Each: stale expression groups")

    def dump(self, root):
        """returns (root_sx, env_sx).  Forward bodies are dumped after the root; bodies may reference further forwards."""
        r = self.expr(root)
        env = []
        i = 0
        while i < len(self.fwd_bodies):
            env.append(self.expr(self.fwd_bodies[i]))
            i += 1
        return r, "(env %s)" % " ".join(env)

    def render_msg(self, m):
        """model message reference (parsed s-expr) -> text"""
        if isinstance(m, list):
            if m[0] == "node":
                return self.errmsg.get(int(m[1]), "?node%s" % m[1]) + KW_SUFFIX[int(m[2])]
            if m[0] == "user":
                return "user%s" % m[1]
            if m[0] == "missing":
                # Each: f"Missing one or more required elements ({', '.join(str(e) for e in tmpReqd)})"; a copy made by
                # initExprGroups carries the node id (hence the str()) of the element it was copied from
                return "Missing one or more required elements (%s)" % ", ".join(
                    str(self.objs[int(i) - 1]) if 0 < int(i) <= len(self.objs) else "?node%s" % i for i in m[1:])
        return FIXED_MSG.get(m, "?" + str(m))
