"""Generators of surface grammars and inputs (all randomness from the rng passed in)."""
import itertools

A, B, AB = ("lit", "a"), ("lit", "b"), ("lit", "ab")
LEAVES = [A, AB, ("word", "ab"), ("kw", "a"), ("notin", ","), ("empty",), ("nomatch",), ("fwd", 0)]
LEAVES_EXTRA = [B, ("lit", ","), ("clit", "aB"), ("ckw", "b"), ("word", "a", "b"), ("char", "ab"), ("word", "ab", None, 1, 2, 0, False),
                ("white", " "), ("lineend",), ("stringend",), ("stringstart",), ("linestart",), ("wordstart", "ab"), ("wordend", "ab")]
UNARY = ["opt", "star", "plus", "not", "fb", "group", "suppress", "combine", "located", "skipto"]
BINARY = ["and", "mf", "or"]
ENV0 = {0: ("mf", ("and", ("lit", "("), ("fwd", 0), ("lit", ")")), ("word", "ab"))}
ENV_EXPR = {0: ("mf", ("group", ("and", ("lit", "("), ("star", ("fwd", 0)), ("lit", ")"))), ("word", "ab"))}


def enum_depth(d, leaves=LEAVES, unary=UNARY, binary=BINARY):
    """all grammars of depth <= d (depth 1 = a leaf)"""
    level = list(leaves)
    allg = list(level)
    for _ in range(d - 1):
        nxt = []
        for u in unary:
            for g in level:
                nxt.append((u, g))
        for b in binary:
            for g1 in allg:
                for g2 in level:
                    nxt.append((b, g1, g2))
            for g1 in level:
                for g2 in allg:
                    if g2 not in level:
                        nxt.append((b, g1, g2))
        level = nxt
        allg = allg + nxt
    return allg


def enum_inputs(n, alphabet="ab, "):
    out = []
    for k in range(n + 1):
        for t in itertools.product(alphabet, repeat=k):
            out.append("".join(t))
    return out


# ---- random deep grammars -------------------------------------------------------------------------------
NAMES = ["x", "y", "n"]


def rand_grammar(rng, depth, opts=None):
    """opts: dict(names=bool, actions=bool, stops=bool, fwd=bool, extra=bool, ws=bool, each=bool)
    each=True also produces Each ('&') nodes over 2..4 pairwise distinct operands: plain / Opt / ZeroOrMore / OneOrMore /
    Group operands (repetition bodies non-nullable)"""
    o = dict(names=True, actions=False, stops=False, fwd=True, extra=True, ws=False, fatal=False, each=False)
    o.update(opts or {})

    def each_node(d):
        ops = []
        for _ in range(rng.choice([2, 2, 3, 3, 4])):
            for _try in range(6):
                body = go(max(1, d - 1))
                shape = rng.choice(["plain", "plain", "opt", "star", "plus", "group", "optd"])
                if shape in ("star", "plus") and nullable(body, ENV0):
                    body = ("and", rng.choice([A, B, ("word", "ab"), ("lit", "x")]), body)
                op = body if shape == "plain" else (("optd", "D", body) if shape == "optd" else (shape, body))
                if o["names"] and rng.random() < 0.3:
                    op = (rng.choice(["name", "namestar"]), rng.choice(NAMES), op)
                if op not in ops:
                    ops.append(op)
                    break
        if len(ops) < 2:
            ops = [A, ("opt", B)]
        return ("each",) + tuple(ops)

    def leaf():
        pool = list(LEAVES if o["fwd"] else LEAVES[:-1])
        if o["extra"]:
            pool += LEAVES_EXTRA
        return rng.choice(pool)

    def go(d):
        if d <= 1 or rng.random() < 0.15:
            g = leaf()
        elif o["each"] and rng.random() < 0.3:
            g = each_node(d)
        else:
            r = rng.random()
            if r < 0.35:
                n = rng.choice([2, 2, 3])
                g = ("and",) + tuple(go(d - 1) for _ in range(n))
                if o["stops"] and rng.random() < 0.4:
                    g = ("andstop", rng.randint(1, n - 1)) + g[1:]
            elif r < 0.5:
                g = ("mf",) + tuple(go(d - 1) for _ in range(rng.choice([2, 2, 3])))
            elif r < 0.58:
                g = ("or",) + tuple(go(d - 1) for _ in range(rng.choice([2, 2, 3])))
            else:
                u = rng.choice(UNARY + ["opt", "star", "plus", "group"] + (["dlist"] if o["extra"] else []))
                if u == "dlist":
                    g = ("dlist", go(d - 1), ",")
                elif u in ("star", "plus"):
                    body = go(d - 1)
                    if nullable(body, ENV0) and rng.random() < 0.97:     # the property excludes nullable repetition bodies
                        body = ("and", rng.choice([A, B, ("word", "ab")]), body)
                    g = (u + "stop", body, go(1)) if rng.random() < 0.2 else (u, body)
                else:
                    g = (u, go(d - 1))
        if o["names"] and rng.random() < 0.25:
            g = (rng.choice(["name", "namestar"]), rng.choice(NAMES), g)
        if o["actions"] and rng.random() < 0.15:
            acts = [("keep",), ("upper",), ("const", ("K",)), ("loc",), ("join",), ("raise", "parse", 1), ("append", "Z"), ("conststr", "S")]
            if o["fatal"]:
                acts += [("raise", "fatal", 2), ("cond", 2, True, 3), ("cond", 2, False, 4)]
            g = ("act", rng.choice(acts), g)
        if o["ws"] and rng.random() < 0.08:
            g = ("leavews", g)
        return g
    return go(depth)


def nullable(g, env=None, depth=4):
    """syntactic approximation of "can match the empty string" (used to keep repetition bodies non-nullable)"""
    k = g[0]
    if k in ("empty", "opt", "optd", "star", "starstop", "not", "fb", "pb", "stringend", "stringstart", "linestart", "lineend",
             "wordstart", "wordend", "skipto", "skiptoi", "skiptof"):
        return True
    if k in ("and", "each"):
        return all(nullable(x, env, depth) for x in g[1:])
    if k == "andstop":
        return all(nullable(x, env, depth) for x in g[2:])
    if k in ("mf", "or"):
        return any(nullable(x, env, depth) for x in g[1:])
    if k in ("group", "grouplist", "suppress", "combine", "located", "dict", "copy", "plus", "atss", "atls", "leavews", "keeptabs"):
        return nullable(g[1], env, depth)
    if k in ("plusstop", "dlist", "ignore"):
        return nullable(g[1], env, depth)
    if k in ("name", "namestar", "act", "setws", "setname"):
        return nullable(g[2], env, depth)
    if k == "combinej":
        return nullable(g[3], env, depth)
    if k == "fwd":
        if env and g[1] in env and depth > 0:
            return nullable(env[g[1]], env, depth - 1)
        return False
    return False


def sample_input(rng, g, env, depth=6):
    """a string that probably matches g"""
    k = g[0]
    sp = lambda: rng.choice(["", " ", " ", "  ", "\n", "\t"])
    S = lambda x: sample_input(rng, x, env, depth - 1)
    if depth <= 0:
        return "a"
    if k in ("lit", "kw"): return g[1]
    if k in ("clit", "ckw"): return "".join(rng.choice([c.lower(), c.upper()]) for c in g[1])
    if k == "word":
        body = g[2] if len(g) > 2 and g[2] else g[1]
        return rng.choice(g[1]) + "".join(rng.choice(body) for _ in range(rng.randint(0, 2)))
    if k == "char": return rng.choice(g[1])
    if k == "notin": return rng.choice(["x", "ab", "a b"])
    if k == "white": return g[1][0]
    if k in ("empty", "stringend", "stringstart", "linestart", "wordstart", "wordend", "nomatch"): return ""
    if k == "lineend": return rng.choice(["\n", ""])
    if k == "and": return "".join(sp() + S(x) for x in g[1:])
    if k == "andstop": return "".join(sp() + S(x) for x in g[2:])
    if k in ("mf", "or"): return S(rng.choice(g[1:]))
    if k == "each":
        # the operands in a random order, now and then one of them repeated or left out
        ops = list(g[1:])
        rng.shuffle(ops)
        r = rng.random()
        if r < 0.25:
            ops.insert(rng.randint(0, len(ops)), rng.choice(ops))
        elif r < 0.35:
            ops.pop(rng.randrange(len(ops)))
        return "".join(sp() + S(x) for x in ops)
    if k in ("opt",): return S(g[1]) if rng.random() < 0.6 else ""
    if k == "optd": return S(g[2]) if rng.random() < 0.6 else ""
    if k in ("star", "starstop"): return "".join(sp() + S(g[1]) for _ in range(rng.randint(0, 3)))
    if k in ("plus", "plusstop"): return "".join(sp() + S(g[1]) for _ in range(rng.randint(1, 3)))
    if k in ("not", "fb", "pb"): return ""
    if k in ("group", "grouplist", "suppress", "combine", "located", "dict", "copy", "atss", "atls"): return S(g[1])
    if k == "combinej": return S(g[3])
    if k in ("skipto", "skiptoi", "skiptof"): return rng.choice(["", "x ", "zz"]) + S(g[1])
    if k == "dlist": return (" " + g[2] + " ").join(S(g[1]) for _ in range(rng.randint(1, 3)))
    if k == "fwd": return S(env[g[1]]) if g[1] in env else "a"
    if k in ("name", "namestar", "act", "setws", "setname"): return S(g[2])
    if k in ("leavews", "keeptabs", "ignore"): return S(g[1])
    return "a"


def mutate_input(rng, s, alphabet="ab, (\n\t)"):
    if not s or rng.random() < 0.3:
        return s + rng.choice(alphabet)
    i = rng.randrange(len(s))
    r = rng.random()
    if r < 0.4:
        return s[:i] + s[i + 1:]
    if r < 0.7:
        return s[:i] + rng.choice(alphabet) + s[i:]
    return s[:i] + rng.choice(alphabet) + s[i + 1:]


def size(g):
    return 1 + sum(size(x) for x in g[1:] if isinstance(x, tuple))
