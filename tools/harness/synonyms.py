"""The pre-PEP8 synonyms (`leaveWhitespace`, `setParseAction`, ...) are built by util.replaced_by_pep8 around one function.
A class that overrides the PEP8 method has to re-declare the synonym, or the camelCase spelling silently runs the base
class's method.  check(): for every class of the package and every synonym it exposes, the function the synonym wraps is the
function the PEP8 name resolves to ON THAT CLASS.  Implementation-side, structural."""
import inspect


def check(ctx, names, tag):
    import pyparsing as pp
    classes = set(c for c in vars(pp).values() if isinstance(c, type)) | set(c for c in vars(pp.core).values() if isinstance(c, type))
    classes |= set(c for c in vars(pp.results).values() if isinstance(c, type)) | set(c for c in vars(pp.testing).values() if isinstance(c, type))
    n = 0
    for C in sorted(classes, key=lambda c: c.__qualname__):
        if not C.__module__.startswith("pyparsing"):
            continue
        for S in dir(C):
            if names is not None and S not in names:
                continue
            try:
                f = inspect.getattr_static(C, S)
            except AttributeError:
                continue
            f = getattr(f, "__func__", f)
            w = getattr(f, "__wrapped__", None)
            if w is None or getattr(w, "__name__", S) == S:
                continue
            T = w.__name__
            try:
                t = inspect.getattr_static(C, T)
            except AttributeError:
                continue
            t = getattr(t, "__func__", t)
            n += 1
            ctx.case("synonym|%s|%s" % (C.__qualname__, S), True, True)
            if t is not w:
                ctx.violation("synonym:%s:%s.%s" % (tag, C.__qualname__, S),
                              "%s.%s runs %s but %s.%s is %s: the camelCase spelling does not do what the PEP8 method of this class does" % (
                                  C.__qualname__, S, getattr(w, "__qualname__", w), C.__qualname__, T, getattr(t, "__qualname__", t)),
                              {"kind": "synonym", "class": C.__qualname__, "name": S})
    ctx.stat("synonym_checks", n)
    return n
