"""Projections of canonical observations."""


def as_list_tok(t):
    """as_list view of a canonical token"""
    if isinstance(t, tuple) and t[0] == "p":
        return ("l", [as_list_tok(x) for x in t[1][1]])
    if isinstance(t, tuple) and t[0] == "l":
        return ("l", [as_list_tok(x) for x in t[1]])
    return t


def as_list(pres):
    return [as_list_tok(x) for x in pres[1]]


def peg_view(o):
    """real/model parse outcome -> the PEG-level observation: ('ok', tokens) | ('fail',) | ('div',) | ('other', class)"""
    if o[0] == "ok":
        return ("ok", as_list(o[1]))
    if o[0] == "err":
        return ("fail",) if o[1] == "ParseException" else ("other", o[1])
    return ("div",)


def name_view(pres):
    """as_dict-shaped view: [(name, value)] with list-all names giving lists"""
    out = []
    for k, occ in pres[2]:
        if k in pres[3]:
            out.append((k, [as_list_tok(v) for v, _ in occ]))
        else:
            out.append((k, as_list_tok(occ[-1][0])))
    return out
