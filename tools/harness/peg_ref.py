"""An independent transcription of the PEG reading of C01 over SURFACE grammars (no pyparsing objects, no Coq model):
which elements skip leading whitespace is decided structurally, as the property states it
(tokens skip, CharsNotIn does not; a sequence behaves as its first element; alternations and wrappers as their contents;
negative lookahead does not skip; Combine skips once and then not at all inside; a repetition with stop_on tests the stop
expression (a lookahead that skips like the stop expression itself) before every round; SkipTo skips like its target and then
tries the target at every position WITHOUT leading whitespace skip (a sequence / wrapper / Forward hands that on to its first
element / content; alternations, lookaheads and repetitions do not); a Forward as its body - but an element
constructed around a Forward that is still empty sees the default "skips", because these flags are copied at construction).
Used as the implementation-side oracle of tools/props/c01.py: it does not look at the flags of the real objects, so a
change that breaks the constructors' flag inheritance shows up as a disagreement with a concrete input."""

WS = " \n\t\r"


class Unsupported(Exception):
    pass


class Spin(Exception):
    pass


def _before(env, k):
    """the Forwards already assigned when the body of Forward k is constructed (the harness assigns them in env order, after
    the root expression has been constructed with all of them still empty)"""
    ks = list(env)
    return frozenset(ks[:ks.index(k)]) if k in ks else frozenset()


def ctime_flag(g, env, defd):
    """skipWhitespace as a composite SEES it when it is constructed: an empty Forward still has the default True.  Enclosing
    elements copy this value (And from its first element, wrappers from their content) and never refresh it."""
    k = g[0]
    if k in ("lit", "clit", "kw", "ckw", "word", "char", "empty", "nomatch", "stringend", "combine", "each"):
        return True
    if k in ("notin", "not"):
        return False
    if k in ("and", "dlist", "opt", "star", "plus", "group", "suppress", "fb", "starstop", "plusstop", "skipto", "skiptoi", "skiptof"):
        return ctime_flag(g[1], env, defd)
    if k in ("mf", "or"):
        return all(ctime_flag(x, env, defd) for x in g[1:])
    if k == "fwd":
        if g[1] in defd and g[1] in env:
            return ctime_flag(env[g[1]], env, _before(env, g[1]))       # what `<<=` copied from the body
        return True
    raise Unsupported(k)


def skipws_flag(g, env, defd=frozenset()):
    """skipWhitespace of the object at parse time (after streamline): MatchFirst / Or recompute it from their alternatives'
    current values, a Forward has what `<<=` copied, everything else keeps its construction-time value"""
    k = g[0]
    if k in ("mf", "or"):
        return all(skipws_flag(x, env, defd) for x in g[1:])
    if k == "fwd":
        return ctime_flag(env[g[1]], env, _before(env, g[1])) if g[1] in env else True
    return ctime_flag(g, env, defd)


def callpre_flag(g, env, seen=()):
    k = g[0]
    if k in ("mf", "or", "each"):
        return False
    if k in ("opt", "star", "plus", "group", "suppress", "fb", "not", "starstop", "plusstop", "skipto", "skiptoi", "skiptof"):
        return callpre_flag(g[1], env, seen)
    if k == "dlist":
        return True          # wraps an And
    return True              # tokens, And, Combine, Forward


def skip(s, loc):
    while loc < len(s) and s[loc] in WS:
        loc += 1
    return loc


def peg(g, env, s, loc, nows=False, depth=0, defd=frozenset(), np=False):
    """returns (end, tokens) or None; nows = inside Combine(adjacent=True): nothing skips;
    np = tried by SkipTo at this very position: no leading whitespace skip of its own"""
    if depth > 150:
        raise Spin()
    k = g[0]
    pre = (not nows) and (not np) and callpre_flag(g, env) and skipws_flag(g, env, defd)
    l0 = skip(s, loc) if pre else loc
    P = lambda x, l: peg(x, env, s, l, nows, depth + 1, defd)
    PN = lambda x, l: peg(x, env, s, l, nows, depth + 1, defd, np)      # the component that inherits "no skip here"
    if k == "lit":
        return (l0 + len(g[1]), [g[1]]) if s.startswith(g[1], l0) and l0 < len(s) + (1 if not g[1] else 0) else None
    if k == "clit":
        return (l0 + len(g[1]), [g[1]]) if s[l0:l0 + len(g[1])].upper() == g[1].upper() else None
    if k in ("kw", "ckw"):
        m = g[1]
        idc = "abcdefghijklmnopqrstuvwxyzABCDEFGHIJKLMNOPQRSTUVWXYZ0123456789_$"
        seg = s[l0:l0 + len(m)]
        ok = (seg.upper() == m.upper()) if k == "ckw" else (seg == m)
        if not ok:
            return None
        up = (lambda c: c.upper()) if k == "ckw" else (lambda c: c)
        idset = idc.upper() if k == "ckw" else idc
        if l0 > 0 and up(s[l0 - 1]) in idset:
            return None
        if l0 + len(m) < len(s) and up(s[l0 + len(m)]) in idset:
            return None
        return (l0 + len(m), [m])
    if k in ("word", "char"):
        init = g[1]
        body = (g[2] if len(g) > 2 and g[2] else init) if k == "word" else init
        mn, mx = 1, None
        if k == "char":
            mx = 1
        elif len(g) > 3:
            mn, mx, ex, askw = g[3], (g[4] or None), g[5], g[6]
            if ex:
                mn = mx = ex
            if askw:
                raise Unsupported("as_keyword")
        if l0 >= len(s) or s[l0] not in init:
            return None
        e = l0 + 1
        while e < len(s) and s[e] in body and (mx is None or e - l0 < mx):
            e += 1
        return (e, [s[l0:e]]) if e - l0 >= mn else None
    if k == "notin":
        if len(g) > 2:
            raise Unsupported("notin min/max")
        if l0 >= len(s) or s[l0] in g[1]:
            return None
        e = l0 + 1
        while e < len(s) and s[e] not in g[1]:
            e += 1
        return (e, [s[l0:e]])
    if k == "empty":
        return (l0, [])
    if k == "nomatch":
        return None
    if k == "stringend":
        return (l0 + 1, []) if l0 == len(s) else ((l0, []) if l0 > len(s) else None)
    if k == "and":
        l, toks = l0, []
        first = True
        for x in g[1:]:
            r = peg(x, env, s, l, nows, depth + 1, defd, np and first)
            first = False
            if r is None:
                return None
            l, t = r
            toks += t
        return (l, toks)
    if k == "mf":
        for x in g[1:]:
            r = P(x, l0)
            if r is not None:
                return r
        return None
    if k == "or":
        l1 = l0
        if (not nows) and all(callpre_flag(x, env) for x in g[1:]) and skipws_flag(g, env, defd):
            l1 = skip(s, l0)
        best = None
        for x in g[1:]:
            r = P(x, l1)
            if r is not None and (best is None or r[0] > best[0]):
                best = r
        return best
    if k == "each":
        # '&': operands in any order; a plain operand exactly once, Opt(x) at most once, ZeroOrMore(x) any number of times,
        # OneOrMore(x) at least once.  At each point the first operand (required ones first, then optional ones, then
        # repeatable ones; each in the order written) that matches here is taken; stop when none matches.
        ops = list(g[1:])
        if len(set(ops)) != len(ops):
            raise Unsupported("duplicate operands")
        req = [e for e in ops if e[0] not in ("opt", "star", "plus")] + [e[1] for e in ops if e[0] == "plus"]
        opt = [e[1] for e in ops if e[0] == "opt"]
        multi = [e[1] for e in ops if e[0] in ("star", "plus")]
        l, toks, rounds = l0, [], 0
        while True:
            rounds += 1
            if rounds > len(s) + len(ops) + 3:
                raise Spin()
            cands = req + opt + multi
            nfail = 0
            for e in cands:
                r = P(e, l)
                if r is None:
                    nfail += 1
                    continue
                l, toks = r[0], toks + r[1]
                if e in req:
                    req.remove(e)
                elif e in opt:
                    opt.remove(e)
            if nfail == len(cands):
                break
        if req:
            return None
        for e in ops:
            if e[0] == "opt" and e[1] in opt:      # an unmatched optional operand still skips the whitespace in front of it
                l = P(e, l)[0]
        return (l, toks)
    if k == "opt":
        r = PN(g[1], l0)
        return r if r is not None else (l0, [])
    if k in ("star", "plus", "starstop", "plusstop"):
        # with stop_on: before every round "the stop expression does not match here" (a negative lookahead) is required
        stop = ("not", g[2]) if k.endswith("stop") else None
        # (Combine's leave_whitespace() copies its content recursively but never reaches the stop expression: it keeps skipping)
        ended = lambda l: stop is not None and peg(stop, env, s, l, False, depth + 1, defd) is None
        zero = k.startswith("star")
        r = None if ended(l0) else P(g[1], l0)
        if r is None:
            return (l0, []) if zero else None
        l, toks = r
        n = 0
        while True:
            n += 1
            if n > len(s) + 3:
                raise Spin()
            if ended(l):
                return (l, toks)
            r = P(g[1], l)
            if r is None:
                return (l, toks)
            if r[0] == l:
                raise Spin()
            l, toks = r[0], toks + r[1]
    if k == "not":
        return (l0, []) if P(g[1], l0) is None else None
    if k == "fb":
        return (l0, []) if P(g[1], l0) is not None else None
    if k == "group":
        r = PN(g[1], l0)
        return None if r is None else (r[0], [r[1]])
    if k == "suppress":
        r = PN(g[1], l0)
        return None if r is None else (r[0], [])
    if k in ("skipto", "skiptoi"):
        # from here, one character at a time up to and including the end of the text: the first position at which the target
        # matches, tried exactly there; the token is the skipped text (+ the target's tokens with include=True)
        tl = l0
        while tl <= len(s):
            r = peg(g[1], env, s, tl, nows, depth + 1, defd, True)
            if r is not None:
                return (tl, [s[l0:tl]]) if k == "skipto" else (r[0], [s[l0:tl]] + r[1])
            tl += 1
        return None
    if k == "skiptof":
        # SkipTo(target, fail_on=f): at every position f is asked FIRST (with its own pre-parse, as a lookahead); if it matches
        # the SkipTo is not a match; otherwise the target is tried exactly there
        tl = l0
        while tl <= len(s):
            if peg(g[2], env, s, tl, nows, depth + 1, defd) is not None:
                return None
            r = peg(g[1], env, s, tl, nows, depth + 1, defd, True)
            if r is not None:
                return (tl, [s[l0:tl]])
            tl += 1
        return None
    if k == "combine":
        r = peg(g[1], env, s, l0, True, depth + 1, defd)
        if r is None:
            return None
        flat = []

        def fl(t):
            for x in t:
                fl(x) if isinstance(x, list) else flat.append(x)
        fl(r[1])
        return (r[0], ["".join(flat)])
    if k == "dlist":
        d = ("lit", g[2])
        return PN(("and", g[1], ("star", ("and", ("suppress", d), g[1]))), l0)
    if k == "fwd":
        if g[1] not in env:
            return None
        if nows and g[1] not in defd:
            # Combine / leave_whitespace() around a Forward that is still empty only reaches a wrapper copy: the body assigned later
            # keeps skipping whitespace.  Which calls then pre-parse depends on the wrapper chain; outside this transcription.
            raise Unsupported("leave_whitespace over an unassigned Forward")
        return peg(env[g[1]], env, s, l0, nows, depth + 1, _before(env, g[1]), np)
    raise Unsupported(k)


def reading(g, env, s):
    """('ok', tokens) | ('fail',) | ('div',) | None when the grammar is outside the transcription"""
    try:
        r = peg(g, env, s.expandtabs(), 0)
    except Unsupported:
        return None
    except (Spin, RecursionError):
        return ("div",)
    return ("fail",) if r is None else ("ok", [_tag(t) for t in r[1]])


def _tag(t):
    return ("l", [_tag(x) for x in t]) if isinstance(t, list) else ("s", t)
