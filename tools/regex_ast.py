"""Python regex -> Coq term of type PP.Model.Regex.re  (via re._parser, a.k.a. sre_parse).

    to_coq(pattern, flags=0) -> str      Coq term text (needs `Import ListNotations` and Model.Regex in scope)
    to_tree(pattern, flags=0) -> tuple   the same AST as nested Python tuples (for structural comparison)
    tree_to_coq(tree) -> str

Fail-closed: any opcode outside the modelled fragment raises Unsupported (GROUPREF, look-behind, possessive
repeats, atomic groups, conditional groups, unicode categories, LOCALE/ASCII-dependent features ...).
Flags are *resolved into the AST*: IGNORECASE -> the `ic` bit of each set, DOTALL -> RAny true, MULTILINE -> anchor kind;
inline global flags (?i) and scoped flags (?i:...) / (?-i:...) are honoured.

Tree shapes (mirroring the Coq constructors):
    ('REps',) ('RSet', ic, neg, [items]) ('RAny', dotall) ('RSeq', a, b) ('RAlt', a, b)
    ('RRep', 'Greedy'|'Lazy', lo, hi|None, a) ('RGroup', idx|None, a) ('RLook', positive, a) ('RAt', kind)
    items: ('CI_char', c) ('CI_range', lo, hi) ('CI_cat', neg, 'CatDigit'|'CatWord'|'CatSpace')
"""
import re

try:
    import re._parser as sre_parse
    import re._constants as sre_c
except ImportError:  # < 3.11
    import sre_parse
    import sre_constants as sre_c


class Unsupported(Exception):
    pass


_CATS = {
    sre_c.CATEGORY_DIGIT: (False, "CatDigit"), sre_c.CATEGORY_NOT_DIGIT: (True, "CatDigit"),
    sre_c.CATEGORY_WORD: (False, "CatWord"), sre_c.CATEGORY_NOT_WORD: (True, "CatWord"),
    sre_c.CATEGORY_SPACE: (False, "CatSpace"), sre_c.CATEGORY_NOT_SPACE: (True, "CatSpace"),
}


def _seq(items):
    if not items:
        return ("REps",)
    if len(items) == 1:
        return items[0]
    return ("RSeq", items[0], _seq(items[1:]))


def _alt(items):
    if len(items) == 1:
        return items[0]
    return ("RAlt", items[0], _alt(items[1:]))


def _conv_seq(sub, fl):
    return _seq([_conv(op, av, fl) for op, av in sub])


def _conv(op, av, fl):
    ic = bool(fl & re.IGNORECASE)
    if op is sre_c.LITERAL:
        return ("RSet", ic, False, [("CI_char", av)])
    if op is sre_c.NOT_LITERAL:
        return ("RSet", ic, True, [("CI_char", av)])
    if op is sre_c.IN:
        neg = False
        items = []
        for iop, iav in av:
            if iop is sre_c.NEGATE:
                neg = True
            elif iop is sre_c.LITERAL:
                items.append(("CI_char", iav))
            elif iop is sre_c.RANGE:
                items.append(("CI_range", iav[0], iav[1]))
            elif iop is sre_c.CATEGORY:
                if iav not in _CATS:
                    raise Unsupported("category %r" % (iav,))
                items.append(("CI_cat",) + _CATS[iav])
            else:
                raise Unsupported("set item %r" % (iop,))
        return ("RSet", ic, neg, items)
    if op is sre_c.ANY:
        return ("RAny", bool(fl & re.DOTALL))
    if op is sre_c.BRANCH:
        return _alt([_conv_seq(b, fl) for b in av[1]])
    if op is sre_c.SUBPATTERN:
        group, add, dele, p = av
        bad = (add | dele) & ~(re.IGNORECASE | re.DOTALL | re.MULTILINE)
        if bad:
            raise Unsupported("scoped flags %r" % (bad,))
        return ("RGroup", group, _conv_seq(p, (fl | add) & ~dele))
    if op in (sre_c.MAX_REPEAT, sre_c.MIN_REPEAT):
        lo, hi, p = av
        return ("RRep", "Greedy" if op is sre_c.MAX_REPEAT else "Lazy", int(lo),
                None if hi == sre_c.MAXREPEAT else int(hi), _conv_seq(p, fl))
    if op in (sre_c.ASSERT, sre_c.ASSERT_NOT):
        direction, p = av
        if direction != 1:
            raise Unsupported("look-behind")
        return ("RLook", op is sre_c.ASSERT, _conv_seq(p, fl))
    if op is sre_c.AT:
        ml = bool(fl & re.MULTILINE)
        if av is sre_c.AT_BEGINNING:
            return ("RAt", "AtBeginLine" if ml else "AtBegin")
        if av is sre_c.AT_BEGINNING_STRING:
            return ("RAt", "AtBegin")
        if av is sre_c.AT_END:
            return ("RAt", "AtEndLine" if ml else "AtEnd")
        if av is sre_c.AT_END_STRING:
            return ("RAt", "AtEndString")
        if av is sre_c.AT_BOUNDARY:
            return ("RAt", "AtBoundary")
        if av is sre_c.AT_NON_BOUNDARY:
            return ("RAt", "AtNonBoundary")
        raise Unsupported("anchor %r" % (av,))
    raise Unsupported("opcode %r" % (op,))


def to_tree(pattern, flags=0):
    if isinstance(pattern, bytes):
        raise Unsupported("bytes pattern")
    p = sre_parse.parse(pattern, flags)
    fl = p.state.flags
    bad = fl & ~(re.IGNORECASE | re.DOTALL | re.MULTILINE | re.UNICODE | re.VERBOSE)
    if bad:
        raise Unsupported("flags %r" % (bad,))
    return _conv_seq(p, fl)


def _b(x):
    return "true" if x else "false"


def _item_to_coq(it):
    if it[0] == "CI_char":
        return "CI_char %d%%N" % it[1]
    if it[0] == "CI_range":
        return "CI_range %d%%N %d%%N" % (it[1], it[2])
    return "CI_cat %s %s" % (_b(it[1]), it[2])


def tree_to_coq(t):
    k = t[0]
    if k == "REps":
        return "REps"
    if k == "RSet":
        return "(RSet %s %s [%s])" % (_b(t[1]), _b(t[2]), "; ".join(_item_to_coq(i) for i in t[3]))
    if k == "RAny":
        return "(RAny %s)" % _b(t[1])
    if k in ("RSeq", "RAlt"):
        return "(%s %s %s)" % (k, tree_to_coq(t[1]), tree_to_coq(t[2]))
    if k == "RRep":
        return "(RRep %s %d %s %s)" % (t[1], t[2], "None" if t[3] is None else "(Some %d)" % t[3], tree_to_coq(t[4]))
    if k == "RGroup":
        return "(RGroup %s %s)" % ("None" if t[1] is None else "(Some %d)" % t[1], tree_to_coq(t[2]))
    if k == "RLook":
        return "(RLook %s %s)" % (_b(t[1]), tree_to_coq(t[2]))
    if k == "RAt":
        return "(RAt %s)" % t[1]
    raise ValueError(t)


def to_coq(pattern, flags=0):
    return tree_to_coq(to_tree(pattern, flags))


# ------------------------------------------------------------------------------------------------
# A Python transcription of the Coq matcher (Model/Regex.v `rm`), used by harnesses that need volume
# beyond what vm_compute sessions give.  It is NOT the model: every harness that uses it also
# cross-checks it against the Coq matcher on a sample (tools/props/c17.py does).
# ------------------------------------------------------------------------------------------------
def _lower(c):
    return c + 32 if 65 <= c <= 90 else c


def _upper(c):
    return c - 32 if 97 <= c <= 122 else c


def _is_word(c):
    return 48 <= c <= 57 or 65 <= c <= 90 or 97 <= c <= 122 or c == 95


def _cat(k, c):
    if k == "CatDigit":
        return 48 <= c <= 57
    if k == "CatWord":
        return _is_word(c)
    return 9 <= c <= 13 or 28 <= c <= 32


def _items_mem(items, c):
    for it in items:
        if it[0] == "CI_char":
            if c == it[1]:
                return True
        elif it[0] == "CI_range":
            if it[1] <= c <= it[2]:
                return True
        else:
            if bool(it[1]) != _cat(it[2], c):
                return True
    return False


def _cset_mem(ic, neg, items, c):
    r = _items_mem(items, c) or (ic and (_items_mem(items, _lower(c)) or _items_mem(items, _upper(c))))
    return bool(neg) != bool(r)


def _at_ok(kind, s, i):
    n = len(s)
    wa = lambda j: 0 <= j < n and _is_word(s[j])
    if kind == "AtBegin":
        return i == 0
    if kind == "AtBeginLine":
        return i == 0 or s[i - 1] == 10
    if kind == "AtEnd":
        return i == n or (i + 1 == n and s[i] == 10)
    if kind == "AtEndLine":
        return i == n or (i < n and s[i] == 10)
    if kind == "AtEndString":
        return i == n
    b = (i > 0 and wa(i - 1)) != wa(i)
    return b if kind == "AtBoundary" else not b


def py_rm(t, s, i, k):
    """s: list of code points; returns end position or None"""
    kd = t[0]
    if kd == "REps":
        return k(i)
    if kd == "RSet":
        if i < len(s) and _cset_mem(t[1], t[2], t[3], s[i]):
            return k(i + 1)
        return None
    if kd == "RAny":
        if i < len(s) and (t[1] or s[i] != 10):
            return k(i + 1)
        return None
    if kd == "RSeq":
        return py_rm(t[1], s, i, lambda j: py_rm(t[2], s, j, k))
    if kd == "RAlt":
        r = py_rm(t[1], s, i, k)
        return r if r is not None else py_rm(t[2], s, i, k)
    if kd == "RGroup":
        return py_rm(t[2], s, i, k)
    if kd == "RLook":
        r = py_rm(t[2], s, i, lambda j: j)
        if (r is not None) == bool(t[1]):
            return k(i)
        return None
    if kd == "RAt":
        return k(i) if _at_ok(t[1], s, i) else None
    if kd == "RRep":
        _, g, lo, hi, a = t
        extra = (hi - lo if hi >= lo else 0) if hi is not None else len(s) + 1

        def rmin(c, i, kk):
            if c == 0:
                return kk(i)
            return py_rm(a, s, i, lambda j: rmin(c - 1, j, kk))

        def rmax(n, i):
            if n == 0:
                return k(i)
            r = py_rm(a, s, i, lambda j: k(j) if j == i else rmax(n - 1, j))
            return r if r is not None else k(i)

        def rlazy(n, last, i):
            r = k(i)
            if r is not None:
                return r
            if n == 0 or last == i:
                return None
            return py_rm(a, s, i, lambda j: rlazy(n - 1, i, j))

        return rmin(lo, i, (lambda j: rmax(extra, j)) if g == "Greedy" else (lambda j: rlazy(extra, None, j)))
    raise ValueError(t)


def py_match(tree, text, loc=0):
    return py_rm(tree, [ord(c) for c in text], loc, lambda j: j)


def py_fullmatch(tree, text):
    s = [ord(c) for c in text]
    return py_rm(tree, s, 0, lambda j: j if j == len(s) else None) is not None
