"""C02 — packrat memoization never changes a parse outcome."""
from tools import vlib
from tools.harness import history
from tools.harness import gen, corr, pcommon, shrink as shr, build, dump, observe

PROP = "C02"
GEN = ["gen_keys"]
RULE = ("seeded random grammars (shared sub-expressions, backtracking alternatives with common prefixes, names, pure actions, "
        "error stops, Forwards; shared elements with leave_whitespace()/ignore() reached with and without pre-parse) x sampled/mutated inputs x cache sizes {off,0,1,2,3,16,128,unbounded} x {parse_string, "
        "parse_all, scan_string}; model vs implementation in every mode AND implementation-only oracle 'every mode equals "
        "memoization off'; non-trivial = packrat run with >= 1 cache hit and a derivation of >= 3 grammar nodes; "
        "plus aliasing scenarios (actions mutating handed-out results)")
TRUSTED = pcommon.TRUSTED_PARSE + [
    "the cache key's `self` component (object identity) is modelled by structural equality of the dumped node (which carries the object's id)",
    "value level: ParseResults.copy() on store/hit is the identity on values; aliasing of nested groups is covered by the "
    "aliasing scenarios of this check (F-02b recorded), not by the value-level theorem",
]
MODES = [("none",), ("packrat", 0), ("packrat", 1), ("packrat", 2), ("packrat", 3), ("packrat", 16), ("packrat", 128), ("packrat", None)]
ENTRIES = [("parse", False), ("parse", True), ("scan", None, False, True)]


def prefix_grammar(rng):
    """alternatives sharing a prefix, so that the second alternative re-parses cached elements"""
    X = gen.rand_grammar(rng, 2, dict(names=True, actions=False, fwd=True))
    Y = gen.rand_grammar(rng, 2, dict(names=True, actions=True, fwd=True))
    if rng.random() < 0.35:
        # ONE results name on the shared leading term and on a later term of the alternative that fails: what the cache holds for
        # the leading term must not pick up what the failed alternative accumulated under that name
        n, kind = rng.choice(gen.NAMES), rng.choice(["name", "namestar"])
        X = (kind, n, rng.choice([("word", "ab"), ("lit", "a"), ("group", ("word", "ab")), ("plus", ("lit", "a"))]))
        Y = (rng.choice(["name", "namestar", kind]), n, rng.choice([("word", "ab"), ("lit", ","), ("word", "12")]))
    t1, t2 = rng.choice([("lit", "a"), ("lit", ","), ("word", "ab")]), rng.choice([("lit", "b"), ("lit", ")"), ("empty",)])
    shape = rng.choice(["mf", "or", "opt"])
    if shape == "opt":
        return ("and", ("opt", ("and", ("empty",), X, Y, t1)), ("and", ("empty",), X, t2))
    return (shape, ("and", X, Y, t1), ("and", X, Y, t2), ("group", ("and", X, t2)))


ENV_WS = {0: gen.ENV0[0], 1: ("ignore", ("leavews", ("word", "ab")), ("lit", ",")), 2: ("leavews", ("word", "ab")),
          3: ("ignore", ("word", "ab"), ("lit", ","))}


def wsign_grammar(rng):
    """one shared element that leaves whitespace and/or ignores ',' reached with and without pre-parse at the same location"""
    F = ("fwd", rng.choice([1, 1, 2, 3]))
    t1, t2 = rng.choice([("lit", "!"), ("lit", "("), ("word", "ab")]), rng.choice([("lit", "?"), ("empty",), ("lit", ")")])
    shape = rng.choice(["mf", "or", "opt", "grp"])
    if shape == "opt":
        return ("and", ("opt", ("and", F, t1)), F, t2)
    if shape == "grp":
        return ("mf", ("group", ("and", F, t1)), ("and", ("opt", ("lit", "(")), F, t2))
    return (shape, ("and", F, t1), F, ("and", ("empty",), F, t2))


WS_INPUTS = [",ab", ", ab", ",ab!", " ,ab ?", "ab", " ab", ",,ab(", "ab!", ", ,ab)", "(,ab"]


def aliasing_scenarios():
    """(name, builder, input): grammars whose actions mutate the results they are handed"""
    import pyparsing as pp
    out = []

    def top():
        w = pp.Word("ab")
        inner = (w + pp.Literal("1")).add_parse_action(lambda t: t.append("MUT"))
        return (inner + "!") | (inner + "?")
    out.append(("top-level-append", top, "ab 1 ?"))

    def topdel():
        w = pp.Word("ab")
        inner = (w + pp.Literal("1")).add_parse_action(lambda t: t.__delitem__(0))
        return (inner + "!") | (inner + "?")
    out.append(("top-level-del", topdel, "ab 1 ?"))

    def nested():
        w = pp.Word("ab")
        G = pp.Group(w)
        alt1 = (G + "1").add_parse_action(lambda t: t[0].append("MUT")) + "!"
        alt2 = G + "1" + "?"
        return alt1 | alt2
    out.append(("nested-append", nested, "ab 1 ?"))

    def caller():
        w = pp.Word("ab")
        return pp.Group(w)[1, ...]
    out.append(("caller-mutates", caller, "ab ba"))
    return out


def run_alias(ctx):
    import pyparsing as pp
    for name, mk, inp in aliasing_scenarios():
        outs = {}
        for mode in [("none",), ("packrat", 128), ("packrat", None), ("packrat", 1)]:
            observe.set_mode(mode)
            try:
                g = mk()
                r = g.parse_string(inp)
                first = r.as_list()
                if name == "caller-mutates":
                    r[0].append("X")
                    r.append("Y")
                    second = g.parse_string(inp).as_list()   # a fresh parse must not see the caller's mutation
                    outs[mode] = (first, second)
                else:
                    outs[mode] = (first,)
            except Exception as e:
                outs[mode] = ("exc", type(e).__name__)
            finally:
                pp.ParserElement.disable_memoization()
        base = outs[("none",)]
        ctx.case("alias:" + name, True, True)
        for mode, o in outs.items():
            if o != base:
                ctx.violation("alias:%s" % name,
                              "aliasing scenario %s on %r: %r gives %r, memoization off gives %r" % (name, inp, mode, o, base),
                              {"kind": "alias", "scenario": name, "input": inp})
                break


def correspond(ctx):
    # entry points are independent of what the same grammar object was asked before (tools/harness/history.py)
    history.run(ctx, 'C02', ["none", "packrat128", "packratU", "packrat2"], 250 if not ctx.thorough else 2500, mode_switches=True, seed_salt=2)
    corr.ensure_driver()
    rng = ctx.rng
    n = 600 if not ctx.thorough else 4000
    groups = []
    for i in range(n):
        g = prefix_grammar(rng) if i % 2 == 0 else gen.rand_grammar(rng, rng.randint(3, 5), dict(actions=True, stops=True, fatal=(i % 5 == 0)))
        env = rng.choice([gen.ENV0, gen.ENV_EXPR])
        inputs = set()
        for _ in range(3):
            s = gen.sample_input(rng, g, env)
            inputs.add(s)
            inputs.add(gen.mutate_input(rng, s))
        groups.append((g, env, sorted(inputs)[:5], MODES, ENTRIES if i % 3 == 0 else ENTRIES[:1]))
    for i in range(40 if not ctx.thorough else 300):
        inputs = sorted({rng.choice(WS_INPUTS) for _ in range(4)} | {gen.mutate_input(rng, rng.choice(WS_INPUTS), "ab,! ") for _ in range(2)})
        groups.append((wsign_grammar(rng), ENV_WS, inputs, MODES, ENTRIES if i % 3 == 0 else ENTRIES[:1]))
    # the recorded witness of the repaired defect F-02a always runs
    X = ("mf", ("lit", "a"), ("lit", "b"))
    groups.append((("and", ("opt", ("and", ("empty",), X, ("lit", "c"))), ("and", ("empty",), X)), {}, ["z", "a", "ac"], MODES, ENTRIES))
    stats = {}
    recs = corr.run_groups(groups, stats=stats)
    ctx.coverage_extra["class_histogram"] = stats.get("classes", {})
    ctx.stats["unsupported_grammars"] = stats.get("unsupported", 0)
    pcommon.outcome_hist(ctx, recs)
    # (1) model vs implementation, every mode
    pcommon.model_agreement(ctx, recs, "packrat-outcomes")
    # (2) the property on the implementation: every mode == memoization off
    byk = {}
    for r in recs:
        byk.setdefault((repr(r["g"]), repr(r["env"]), r["inp"], r["entry"]), {})[r["mode"]] = r
    nhits = 0
    for k, d in byk.items():
        base = d.get(("none",))
        if base is None:
            continue
        for mode, r in d.items():
            if mode == ("none",):
                continue
            hit = r["hits"] > 0
            nhits += hit
            same = corr.proj_all(r["real"]) == corr.proj_all(base["real"])
            ctx.case(pcommon.key_of(r), nontrivial=hit and gen.size(r["g"]) >= 3, agreed=r.get("agree", True))
            if not same:
                def fails(g, env, inp, mode=mode, entry=r["entry"]):
                    a = pcommon.single(g, env, inp, ("none",), entry)
                    b = pcommon.single(g, env, inp, mode, entry)
                    return a is not None and b is not None and corr.proj_all(a["real"]) != corr.proj_all(b["real"])
                try:
                    g, env, inp = shr.shrink(r["g"], r["env"], r["inp"], fails, budget=80)
                except Exception:
                    g, env, inp = r["g"], r["env"], r["inp"]
                a = pcommon.single(g, env, inp, ("none",), r["entry"])
                b = pcommon.single(g, env, inp, mode, r["entry"])
                ctx.violation("outcome:%r|%r|%r|%r" % (g, inp, mode, r["entry"]),
                              "packrat %r changes the outcome of %r on %r (%r): off=%r on=%r" % (
                                  mode, g, inp, r["entry"], corr.proj_all(a["real"]), corr.proj_all(b["real"])),
                              {"kind": "outcome", "grammar": g, "env": env, "input": inp, "mode": mode, "entry": r["entry"]})
    ctx.stat("packrat_runs_with_hits", nhits)
    # (3) aliasing
    run_alias(ctx)
    for r in recs[:3]:
        ctx.sample({"grammar": r["g"], "input": r["inp"], "mode": r["mode"], "entry": r["entry"], "impl": corr.proj_all(r["real"])[:2], "cache_hits": r["hits"]})


def search(ctx, reasons):
    history.run(ctx, 'C02', ["none", "packrat128", "packratU", "packrat2"], 400 if not ctx.thorough else 4000, mode_switches=True, seed_salt=102)
    # widen: more seeds, only the implementation oracle (mode off vs packrat 128 / 1)
    import random
    for seed in range(1, 6 if not ctx.thorough else 40):
        rng = random.Random(ctx.seed * 1000 + seed)
        groups = []
        for i in range(120):
            g = prefix_grammar(rng) if i % 2 == 0 else gen.rand_grammar(rng, rng.randint(3, 5), dict(actions=True, stops=True, fatal=True))
            env = rng.choice([gen.ENV0, gen.ENV_EXPR])
            inputs = {gen.sample_input(rng, g, env) for _ in range(3)}
            inputs |= {gen.mutate_input(rng, s) for s in list(inputs)}
            groups.append((g, env, sorted(inputs)[:5], [("none",), ("packrat", 128), ("packrat", 1)], ENTRIES[:2]))
        for i in range(30):
            groups.append((wsign_grammar(rng), ENV_WS, WS_INPUTS, [("none",), ("packrat", 128), ("packrat", 2)], ENTRIES[:1]))
        recs = corr.run_groups(groups, model=False)
        byk = {}
        for r in recs:
            byk.setdefault((repr(r["g"]), repr(r["env"]), r["inp"], r["entry"]), {})[r["mode"]] = r
        for k, d in byk.items():
            base = d[("none",)]
            for mode, r in d.items():
                ctx.stat("search_cases")
                if corr.proj_all(r["real"]) != corr.proj_all(base["real"]):
                    ctx.violation("outcome:%r|%r|%r|%r" % (r["g"], r["inp"], mode, r["entry"]),
                                  "packrat %r changes the outcome of %r on %r: off=%r on=%r" % (
                                      mode, r["g"], r["inp"], corr.proj_all(base["real"]), corr.proj_all(r["real"])),
                                  {"kind": "outcome", "grammar": r["g"], "env": r["env"], "input": r["inp"], "mode": mode, "entry": r["entry"]})
                    return


def _tuplify(x):
    return tuple(_tuplify(y) for y in x) if isinstance(x, list) else x


def replay(ctx, obj):
    r = obj["replay"]
    if r.get("kind") == "history":
        return history.replay(r)
    if r.get("kind") == "outcome":
        g, env = _tuplify(r["grammar"]), {int(k): _tuplify(v) for k, v in (r.get("env") or {}).items()}
        mode, entry = _tuplify(r["mode"]), _tuplify(r["entry"])
        a = pcommon.single(g, env, r["input"], ("none",), entry)
        b = pcommon.single(g, env, r["input"], mode, entry)
        print("off:", corr.proj_all(a["real"]))
        print("on :", corr.proj_all(b["real"]))
        return corr.proj_all(a["real"]) == corr.proj_all(b["real"])
    if r.get("kind") == "alias":
        c2 = vlib.Ctx(PROP, "quick", 0)
        c2.known = {}
        run_alias(c2)
        bad = [v for v in c2.violations if v["replay"].get("scenario") == r["scenario"]]
        for v in bad:
            print(v["what"])
        return not bad
    print("replay names a broken proof/correspondence obligation: %r" % (r,))
    return False
