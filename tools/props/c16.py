"""C16 — infix_notation honours precedence, associativity and arity."""
import json
from tools import vlib
from tools.harness import dump, observe, corr, views

PROP = "C16"
GEN = []

# ---------------------------------------------------------------------------------------------------------------
# tables: a table spec is a JSON-able dict
#   {"base": "int" | "var" | "intvar", "levels": [[kind, ops...], ...], "lpar": ["sup"|"lit", "("], "rpar": [...]}
#   kind in postfix prefix binl binr juxl juxr ternl ternr ; an op is ["lit", s] | ["kw", s] | ["mf", s1, s2, ...]
# ---------------------------------------------------------------------------------------------------------------
KINDS = {"postfix": (1, "L"), "prefix": (1, "R"), "binl": (2, "L"), "binr": (2, "R"), "juxl": (2, "L"), "juxr": (2, "R"),
         "ternl": (3, "L"), "ternr": (3, "R")}
COQ_LEVEL = {"postfix": "LPostfix", "prefix": "LPrefix", "binl": "LBinL", "binr": "LBinR", "juxl": "LJuxL", "juxr": "LJuxR",
             "ternl": "LTernL", "ternr": "LTernR"}


def build_op(spec):
    import pyparsing as pp
    k = spec[0]
    if k == "lit":
        return pp.Literal(spec[1])
    if k == "kw":
        return pp.Keyword(spec[1])
    if k == "mf":
        return pp.MatchFirst([pp.Literal(s) for s in spec[1:]])
    raise ValueError(spec)


def build_base(name):
    import pyparsing as pp
    if name == "int":
        return pp.Word(pp.nums)
    if name == "var":
        return pp.Word("xyz", exact=1)
    if name == "intvar":
        return pp.Word(pp.nums) | pp.Word("xyz", exact=1)
    raise ValueError(name)


def build_par(spec):
    import pyparsing as pp
    return pp.Suppress(spec[1]) if spec[0] == "sup" else pp.Literal(spec[1])


class Real:
    """the real infix_notation(...) for a table spec, streamlined and dumped"""

    def __init__(self, spec):
        import pyparsing as pp
        self.spec = spec
        self.base = build_base(spec["base"])
        self.ops = []
        table = []
        for lv in spec["levels"]:
            arity, assoc = KINDS[lv[0]]
            ops = [build_op(o) for o in lv[1:]]
            self.ops.append(ops)
            opx = None if not ops else (ops[0] if arity < 3 else (ops[0], ops[1]))
            table.append((opx, arity, pp.OpAssoc.LEFT if assoc == "L" else pp.OpAssoc.RIGHT))
        self.lpar, self.rpar = build_par(spec["lpar"]), build_par(spec["rpar"])
        self.expr = pp.infix_notation(self.base, table, lpar=self.lpar, rpar=self.rpar)
        self.expr.streamline()
        self.dumper = dump.Dumper()
        self.root_sx, self.env_sx = self.dumper.dump(self.expr)

    def piece_sx(self, obj):
        return self.dumper.expr(obj)      # already visited: same ids


# ---------------------------------------------------------------------------------------------------------------
# dumped S-expression -> Gallina term (user-supplied pieces), Coq value -> S-expression (elaboration result)
# ---------------------------------------------------------------------------------------------------------------
COQ_PREAMBLE = """From Coq Require Import List ZArith NArith Bool String.
From PP Require Import Model.Str Model.Results Model.Prog Model.Core Model.Peg Model.Infix.
Import ListNotations.
Definition A_ (n : nat) (asl sk : bool) (wh : list char) (cp mi cu hm : bool) (sl : nat) : attrs :=
  {| nid := n; rsname := None; modalr := true; aslist := asl; skipws := sk; white := wh; callpre := cp; mayidx := mi;
     custom := cu; hasmsg := hm; acts := []; calltry := false; slen := sl |}.
Definition ids_ (c : nat) : nat * nat := (1000000 + c, 0).
"""


class NotExpressible(Exception):
    pass


def _b(x):
    return "true" if x == "1" else "false"


def _chars(l):
    return "[" + ";".join(l) + "]%N"


def _onat(x):
    return "None" if x == "N" else "(Some %s)" % x


def attrs_coq(A):
    assert A[0] == "A"
    if A[2] != "N" or A[3] != "1" or A[11] != [] or A[12] != "0":
        raise NotExpressible("named / non-modal / actions")
    return "(A_ %s %s %s %s %s %s %s %s %s)" % (A[1], _b(A[4]), _b(A[5]), _chars(A[6]), _b(A[7]), _b(A[8]), _b(A[9]), _b(A[10]), A[13])


def sx_to_coq(sx):
    k = sx[0]
    if sx[2] != []:
        raise NotExpressible("ignore expressions")
    A = attrs_coq(sx[1])
    if k == "T":
        t = sx[3]
        if t == "empty": tk = "KEmpty"
        elif t == "nomatch": tk = "KNoMatch"
        elif t[0] == "lit": tk = "(KLit %s)" % _chars(t[1])
        elif t[0] == "clit": tk = "(KCaselessLit %s %s)" % (_chars(t[1]), _chars(t[2]))
        elif t[0] == "kw": tk = "(KKeyword %s %s %s %s)" % (_chars(t[1]), _chars(t[2]), _b(t[3]), _chars(t[4]))
        elif t[0] == "word": tk = "(KWord %s %s %s %s %s %s %s)" % (_chars(t[1]), _chars(t[2]), t[3], _onat(t[4]), _b(t[5]), _b(t[6]), _b(t[7]))
        elif t[0] == "notin": tk = "(KNotIn %s %s %s)" % (_chars(t[1]), t[2], _onat(t[3]))
        elif t[0] == "white": tk = "(KWhite %s %s %s)" % (_chars(t[1]), t[2], _onat(t[3]))
        else:
            raise NotExpressible("token %r" % (t,))
        return "(Tok %s [] %s)" % (A, tk)
    if k == "N":
        kind = {"and": "NAnd", "mf": "NMatchFirst", "or": "NOr"}[sx[3]]
        return "(Nary %s [] %s [%s])" % (A, kind, "; ".join(sx_to_coq(x) for x in sx[4]))
    if k == "E":
        ek = sx[3]
        if ek == "suppress": e = "ESuppress"
        elif ek == "not": e = "ENot"
        elif ek == "fb": e = "EFollowedBy"
        elif ek == "pass": e = "EPass"
        elif ek[0] == "group": e = "(EGroup %s)" % _b(ek[1])
        elif ek[0] == "opt" and ek[1] == "N": e = "(EOpt None)"
        else:
            raise NotExpressible("enhance %r" % (ek,))
        return "(Enh %s [] %s %s)" % (A, e, sx_to_coq(sx[4]))
    if k == "R" and sx[5] == "N":
        return "(Rep %s [] %s %s None)" % (A, _b(sx[3]), sx_to_coq(sx[4]))
    raise NotExpressible("node %r" % (k,))


def coq_table_term(real, which="infix_elab"):
    """Gallina term `infix_elab dw ids base table lpar rpar` for the pieces of a Real"""
    P = lambda o: sx_to_coq(observe.parse_sx(real.piece_sx(o)))
    lvls = []
    for lv, ops in zip(real.spec["levels"], real.ops):
        lvls.append("%s %s []" % (COQ_LEVEL[lv[0]], " ".join(P(o) for o in ops)))
    import pyparsing as pp
    dw = _chars([str(ord(c)) for c in sorted(pp.ParserElement.DEFAULT_WHITE_CHARS)])
    return "%s %s ids_ %s [%s] %s %s" % (which, dw, P(real.base), "; ".join(lvls), P(real.lpar), P(real.rpar))


def coqval_to_sx(v):
    """parsed `sx` value (vlib.parse_coq_term) -> the nested-list form of observe.parse_sx"""
    if v[0] == "SN":
        return str(v[1])
    if v[0] == "SY":
        return v[1]
    if v[0] == "SL":
        return [coqval_to_sx(x) for x in v[1]]
    raise ValueError(v)


def sx_text(sx):
    return sx if isinstance(sx, str) else "(" + " ".join(sx_text(x) for x in sx) + ")"


def match_structure(elab, dumped, m_fwd=None):
    """compare the elaborated grammar with the dumped one; node identities / len(str) of the nodes infix_notation creates
    are unified (elab ids >= 1000000 are symbolic): returns None or a description of the first difference"""
    code2id, id2code = {}, {}

    def go(a, b, path):
        if isinstance(a, str) or isinstance(b, str):
            return None if a == b else "%s: elab %r != real %r" % (path, a, b)
        if a and a[0] == "A" and b and b[0] == "A":
            ea, eb = list(a), list(b)
            if int(ea[1]) >= 1000000:
                c, real = ea[1], (eb[1], eb[13])
                if code2id.setdefault(c, real) != real or id2code.setdefault(real[0], c) != c:
                    return "%s: sharing differs (code %s bound to %r, real %r)" % (path, c, code2id[c], real)
                ea[1], ea[13] = eb[1], eb[13]
            for i, (x, y) in enumerate(zip(ea, eb)):
                r = go(x, y, "%s.A%d" % (path, i))
                if r:
                    return r
            return None
        if len(a) != len(b):
            return "%s: arity %d != %d (elab %s / real %s)" % (path, len(a), len(b), sx_text(a)[:120], sx_text(b)[:120])
        for i, (x, y) in enumerate(zip(a, b)):
            r = go(x, y, "%s/%s" % (path, x if isinstance(x, str) and i == 0 else i))
            if r:
                return r
        return None
    return go(elab, dumped, "")


def dumped_grammar_sx(real):
    return [observe.parse_sx(real.root_sx), observe.parse_sx(real.env_sx)]


def elab_check(reals, which="infix_elab"):
    """evaluate the Coq elaboration for every Real; returns list of sx (nested lists)"""
    exprs = ["sx_grammar (%s)" % coq_table_term(r, which) for r in reals]
    vals = vlib.coq_eval_terms("c16_elab", COQ_PREAMBLE, exprs, timeout=900)
    return [coqval_to_sx(v) for v in vals]
