"""C16 — infix_notation honours precedence, associativity and arity."""
import json
from tools import vlib
from tools.harness import dump, observe, corr, views

PROP = "C16"
GEN = ["gen_infix"]

# ---------------------------------------------------------------------------------------------------------------
# tables: a table spec is a JSON-able dict
#   {"base": "int" | "var" | "intvar", "levels": [[kind, ops...], ...], "lpar": ["sup"|"lit", "("], "rpar": [...]}
#   kind in postfix prefix binl binr juxl juxr ternl ternr ; an op is ["lit", s] | ["kw", s] | ["mf", s1, s2, ...]
# ---------------------------------------------------------------------------------------------------------------
KINDS = {"postfix": (1, "L"), "prefix": (1, "R"), "binl": (2, "L"), "binr": (2, "R"), "juxl": (2, "L"), "juxr": (2, "R"),
         "ternl": (3, "L"), "ternr": (3, "R")}
COQ_LEVEL = {"postfix": "LPostfix", "prefix": "LPrefix", "binl": "LBinL", "binr": "LBinR", "juxl": "LJuxL", "juxr": "LJuxR",
             "ternl": "LTernL", "ternr": "LTernR"}


def build_op(spec):
    import pyparsing as pp
    k = spec[0]
    if k == "lit":
        return pp.Literal(spec[1])
    if k == "kw":
        return pp.Keyword(spec[1])
    if k == "mf":
        return pp.MatchFirst([pp.Literal(s) for s in spec[1:]])
    raise ValueError(spec)


def build_base(name):
    import pyparsing as pp
    if name == "int":
        return pp.Word(pp.nums)
    if name == "var":
        return pp.Word("xyz", exact=1)
    if name == "intvar":
        return pp.Word(pp.nums) | pp.Word("xyz", exact=1)
    raise ValueError(name)


def build_par(spec):
    import pyparsing as pp
    return pp.Suppress(spec[1]) if spec[0] == "sup" else pp.Literal(spec[1])


class Real:
    """the real infix_notation(...) for a table spec, streamlined and dumped"""

    def __init__(self, spec):
        import pyparsing as pp
        self.spec = spec
        self.base = build_base(spec["base"])
        self.ops = []
        table = []
        for lv in spec["levels"]:
            arity, assoc = KINDS[lv[0]]
            ops = [build_op(o) for o in lv[1:]]
            self.ops.append(ops)
            opx = None if not ops else (ops[0] if arity < 3 else (ops[0], ops[1]))
            table.append((opx, arity, pp.OpAssoc.LEFT if assoc == "L" else pp.OpAssoc.RIGHT))
        self.lpar, self.rpar = build_par(spec["lpar"]), build_par(spec["rpar"])
        self.expr = pp.infix_notation(self.base, table, lpar=self.lpar, rpar=self.rpar)
        self.expr.streamline()
        self.dumper = dump.Dumper()
        self.root_sx, self.env_sx = self.dumper.dump(self.expr)

    def piece_sx(self, obj):
        return self.dumper.expr(obj)      # already visited: same ids


# ---------------------------------------------------------------------------------------------------------------
# dumped S-expression -> Gallina term (user-supplied pieces), Coq value -> S-expression (elaboration result)
# ---------------------------------------------------------------------------------------------------------------
COQ_PREAMBLE = """From Coq Require Import List ZArith NArith Bool String.
From PP Require Import Model.Str Model.Results Model.Prog Model.Core Model.Peg Model.Infix.
Import ListNotations.
Definition A_ (n : nat) (asl sk : bool) (wh : list char) (cp mi cu hm : bool) (sl : nat) : attrs :=
  {| nid := n; rsname := None; modalr := true; aslist := asl; skipws := sk; white := wh; callpre := cp; mayidx := mi;
     custom := cu; hasmsg := hm; acts := []; calltry := false; slen := sl |}.
Definition ids_ (c : nat) : nat * nat := (5000 + c, 0).
"""


class NotExpressible(Exception):
    pass


def _b(x):
    return "true" if x == "1" else "false"


def _chars(l):
    return "[" + ";".join(l) + "]%N"


def _onat(x):
    return "None" if x == "N" else "(Some %s)" % x


def attrs_coq(A):
    assert A[0] == "A"
    if A[2] != "N" or A[3] != "1" or A[11] != [] or A[12] != "0":
        raise NotExpressible("named / non-modal / actions")
    return "(A_ %s %s %s %s %s %s %s %s %s)" % (A[1], _b(A[4]), _b(A[5]), _chars(A[6]), _b(A[7]), _b(A[8]), _b(A[9]), _b(A[10]), A[13])


def sx_to_coq(sx):
    k = sx[0]
    if sx[2] != []:
        raise NotExpressible("ignore expressions")
    A = attrs_coq(sx[1])
    if k == "T":
        t = sx[3]
        if t == "empty": tk = "KEmpty"
        elif t == "nomatch": tk = "KNoMatch"
        elif t[0] == "lit": tk = "(KLit %s)" % _chars(t[1])
        elif t[0] == "clit": tk = "(KCaselessLit %s %s)" % (_chars(t[1]), _chars(t[2]))
        elif t[0] == "kw": tk = "(KKeyword %s %s %s %s)" % (_chars(t[1]), _chars(t[2]), _b(t[3]), _chars(t[4]))
        elif t[0] == "word": tk = "(KWord %s %s %s %s %s %s %s)" % (_chars(t[1]), _chars(t[2]), t[3], _onat(t[4]), _b(t[5]), _b(t[6]), _b(t[7]))
        elif t[0] == "notin": tk = "(KNotIn %s %s %s)" % (_chars(t[1]), t[2], _onat(t[3]))
        elif t[0] == "white": tk = "(KWhite %s %s %s)" % (_chars(t[1]), t[2], _onat(t[3]))
        else:
            raise NotExpressible("token %r" % (t,))
        return "(Tok %s [] %s)" % (A, tk)
    if k == "N":
        kind = {"and": "NAnd", "mf": "NMatchFirst", "or": "NOr"}[sx[3]]
        return "(Nary %s [] %s [%s])" % (A, kind, "; ".join(sx_to_coq(x) for x in sx[4]))
    if k == "E":
        ek = sx[3]
        if ek == "suppress": e = "ESuppress"
        elif ek == "not": e = "ENot"
        elif ek == "fb": e = "EFollowedBy"
        elif ek == "pass": e = "EPass"
        elif ek[0] == "group": e = "(EGroup %s)" % _b(ek[1])
        elif ek[0] == "opt" and ek[1] == "N": e = "(EOpt None)"
        else:
            raise NotExpressible("enhance %r" % (ek,))
        return "(Enh %s [] %s %s)" % (A, e, sx_to_coq(sx[4]))
    if k == "R" and sx[5] == "N":
        return "(Rep %s [] %s %s None)" % (A, _b(sx[3]), sx_to_coq(sx[4]))
    raise NotExpressible("node %r" % (k,))


def coq_table_term(real, which="infix_elab"):
    """Gallina term `infix_elab dw ids base table lpar rpar` for the pieces of a Real"""
    P = lambda o: sx_to_coq(observe.parse_sx(real.piece_sx(o)))
    lvls = []
    for lv, ops in zip(real.spec["levels"], real.ops):
        lvls.append("%s %s []" % (COQ_LEVEL[lv[0]], " ".join(P(o) for o in ops)))
    import pyparsing as pp
    dw = _chars([str(ord(c)) for c in sorted(pp.ParserElement.DEFAULT_WHITE_CHARS)])
    return "%s %s ids_ %s [%s] %s %s" % (which, dw, P(real.base), "; ".join(lvls), P(real.lpar), P(real.rpar))


def coqval_to_sx(v):
    """parsed `sx` value (vlib.parse_coq_term) -> the nested-list form of observe.parse_sx"""
    if v[0] == "SN":
        return str(v[1])
    if v[0] == "SY":
        return v[1]
    if v[0] == "SL":
        return [coqval_to_sx(x) for x in v[1]]
    raise ValueError(v)


def sx_text(sx):
    return sx if isinstance(sx, str) else "(" + " ".join(sx_text(x) for x in sx) + ")"


def match_structure(elab, dumped, m_fwd=None):
    """compare the elaborated grammar with the dumped one; node identities / len(str) of the nodes infix_notation creates
    are unified (elab ids >= 5000 are symbolic): returns None or a description of the first difference"""
    code2id, id2code = {}, {}

    def go(a, b, path):
        if isinstance(a, str) or isinstance(b, str):
            return None if a == b else "%s: elab %r != real %r" % (path, a, b)
        if a and a[0] == "A" and b and b[0] == "A":
            ea, eb = list(a), list(b)
            if int(ea[1]) >= 5000:
                c, real = ea[1], (eb[1], eb[13])
                if code2id.setdefault(c, real) != real or id2code.setdefault(real[0], c) != c:
                    return "%s: sharing differs (code %s bound to %r, real %r)" % (path, c, code2id[c], real)
                ea[1], ea[13] = eb[1], eb[13]
            for i, (x, y) in enumerate(zip(ea, eb)):
                r = go(x, y, "%s.A%d" % (path, i))
                if r:
                    return r
            return None
        if len(a) != len(b):
            return "%s: arity %d != %d (elab %s / real %s)" % (path, len(a), len(b), sx_text(a)[:120], sx_text(b)[:120])
        for i, (x, y) in enumerate(zip(a, b)):
            r = go(x, y, "%s/%s" % (path, x if isinstance(x, str) and i == 0 else i))
            if r:
                return r
        return None
    return go(elab, dumped, "")


def dumped_grammar_sx(real):
    return [observe.parse_sx(real.root_sx), observe.parse_sx(real.env_sx)]


def elab_check(reals, which="infix_elab"):
    """evaluate the Coq elaboration for every Real; returns list of sx (nested lists)"""
    exprs = ["sx_grammar (%s)" % coq_table_term(r, which) for r in reals]
    vals = vlib.coq_eval_terms("c16_elab", COQ_PREAMBLE, exprs, timeout=900)
    return [coqval_to_sx(v) for v in vals]


def elab_both(reals):
    """ONE coqc call: (infix_elab sx list, infix_ref sx list) for the given Reals"""
    exprs = ["sx_grammar (%s)" % coq_table_term(r, "infix_elab") for r in reals]
    exprs += ["sx_grammar (%s)" % coq_table_term(r, "infix_ref") for r in reals]
    import os
    vals = vlib.coq_eval_terms("c16_elab_%d" % os.getpid(), COQ_PREAMBLE, exprs, timeout=900)
    sxs = [coqval_to_sx(v) for v in vals]
    return sxs[:len(reals)], sxs[len(reals):]


# ---------------------------------------------------------------------------------------------------------------
# the property's oracle: a tokenizer (maximal munch) + a precedence parser over TOKENS for the stratified grammar
# that infix_notation documents, + an evaluator giving every operator a fixed non-commutative, non-associative meaning
# ---------------------------------------------------------------------------------------------------------------
RULE = ("hand-written operator tables (4-function arithmetic with unary minus and right-associative **, boolean not/and/or, "
        "ternary, overlapping spellings) + seeded random tables (1-6 levels, arities 1-3, both associativities, literal / keyword "
        "/ MatchFirst operators, overlapping spellings on different levels, at most one juxtaposition level, suppressed or kept "
        "parentheses, bases int/var/intvar) x well-formed strings generated FROM the table's stratified grammar (random "
        "whitespace, redundant parentheses) and ill-formed mutations x memoization {off, packrat 128, packrat 1}; per table: "
        "(a) Coq `infix_elab` == dump of the real object graph (nodes, flags, sharing); per input: (b) extracted model on the "
        "dumped graph vs implementation (parse_all), Coq reference PEG reading of the elaborated grammar and (b') of `infix_ref` "
        "(same grammar without look-aheads) vs implementation; (c) implementation vs an independent tokenizing precedence "
        "parser + evaluator (tree shape, value, acceptance, identical outcome in every memoization mode); "
        "non-trivial = expression using >= 2 levels or >= 3 operators")
TRUSTED = [
    "extraction: ExtrOcamlBasic only; ocaml/driver.ml (S-expression reader/printer, no logic)",
    "tools/harness/dump.py reads the attributes of the real streamlined objects; the user-supplied pieces (base, operators, "
    "parentheses) are passed to the Coq elaboration as dumped, the nodes infix_notation creates are compared field by field",
    "the Python oracle of this plugin (maximal-munch tokenizer over the table's spellings + recursive precedence parser over "
    "tokens for the documented stratified grammar) is the executable statement of 'honours precedence, associativity, arity'",
    "tables outside the generator's well-formedness rule (a spelling used twice in non-prefix roles, juxtaposition together "
    "with a prefix operator that is also an infix operator) are token-level ambiguous and are not generated",
]
MODES = [("none",), ("packrat", 128), ("packrat", 1)]
WS = " \t\n\r"
IDENT = set("abcdefghijklmnopqrstuvwxyzABCDEFGHIJKLMNOPQRSTUVWXYZ0123456789_$")
VARS = "xyz"


def S(levels, base="int", lpar=("sup", "("), rpar=("sup", ")")):
    return {"base": base, "levels": [list(l) for l in levels], "lpar": list(lpar), "rpar": list(rpar)}


def op_spellings(op):
    return list(op[1:])


class Table:
    """token-level view of a table spec"""

    def __init__(self, spec):
        self.spec = spec
        self.base = spec["base"]
        self.lp, self.rp = spec["lpar"][1], spec["rpar"][1]
        self.lp_lit, self.rp_lit = spec["lpar"][0] == "lit", spec["rpar"][0] == "lit"
        self.levels = []            # (kind, [set(spellings) per operator position])
        self.lits, self.kws = set(), set()
        self.roles = {}             # spelling -> list of (role, level)
        for k, lv in enumerate(spec["levels"], 1):
            kind = lv[0]
            sets = []
            for j, op in enumerate(lv[1:]):
                sp = op_spellings(op)
                sets.append(set(sp))
                (self.kws if op[0] == "kw" else self.lits).update(sp)
                role = {"postfix": "postfix", "prefix": "prefix", "binl": "binary", "binr": "binary",
                        "ternl": "ternary%d" % (j + 1), "ternr": "ternary%d" % (j + 1)}[kind]
                for s in sp:
                    self.roles.setdefault(s, []).append((role, k))
            self.levels.append((kind, sets))
        self.syms = sorted(self.lits | {self.lp, self.rp}, key=lambda s: (-len(s), s))
        self.kwl = sorted(self.kws, key=lambda s: (-len(s), s))
        self.n = len(self.levels)

    # ---- tokens
    def scan(self, s):
        """maximal munch: ([(token, start, end)], complete) ; complete = False on a lexical error (tokens up to it)"""
        out, i, n = [], 0, len(s)
        while i < n:
            c = s[i]
            if c in WS:
                i += 1
                continue
            if c.isdigit() and c.isascii():
                j = i
                while j < n and s[j].isdigit() and s[j].isascii():
                    j += 1
                out.append((s[i:j], i, j))
                i = j
                continue
            for kw in self.kwl:
                if s.startswith(kw, i) and (i == 0 or s[i - 1] not in IDENT) and (i + len(kw) >= n or s[i + len(kw)] not in IDENT):
                    out.append((kw, i, i + len(kw)))
                    i += len(kw)
                    break
            else:
                if c in VARS:
                    out.append((c, i, i + 1))
                    i += 1
                    continue
                for sym in self.syms:
                    if s.startswith(sym, i):
                        out.append((sym, i, i + len(sym)))
                        i += len(sym)
                        break
                else:
                    return out, False
        return out, True

    def tokenize(self, s):
        """maximal munch; None on a lexical error"""
        toks, ok = self.scan(s)
        return [t for t, _, _ in toks] if ok else None

    def is_base(self, t):
        if t is None:
            return False
        if t.isdigit():
            return self.base in ("int", "intvar")
        if len(t) == 1 and t in VARS:
            return self.base in ("var", "intvar")
        return False

    def prefix_levels(self, t):
        return [k for (r, k) in self.roles.get(t, []) if r == "prefix"]

    # ---- well-formedness of the table itself (token-level unambiguous, deterministic for the oracle)
    def problems(self):
        out = []
        nonpre = {}
        pre = {}
        for s, rl in self.roles.items():
            for r, k in rl:
                d = pre if r == "prefix" else nonpre
                d.setdefault(s, []).append(k)
        for s, ks in list(nonpre.items()) + list(pre.items()):
            if len(ks) > 1:
                out.append("spelling %r used twice in the same kind of position" % s)
        jux = [k for k, (kind, _) in enumerate(self.levels, 1) if kind in ("juxl", "juxr")]
        if len(jux) > 1:
            out.append("two juxtaposition levels")
        if jux and set(pre) & set(nonpre):
            out.append("juxtaposition with a spelling that is both prefix and infix")
        if jux and self.base == "intvar":
            out.append("juxtaposition with base intvar")
        for s in list(self.roles) + [self.lp, self.rp]:
            if self.is_base(s) or s == "" or any(c in WS for c in s):
                out.append("spelling %r collides with operands/whitespace" % s)
        if self.lp == self.rp or self.lp in self.roles or self.rp in self.roles:
            out.append("parentheses collide")
        for s in self.kws:
            if not all(c in IDENT for c in s) or s in self.lits:
                out.append("keyword %r" % s)
        for s in self.lits | {self.lp, self.rp}:
            if any(c in IDENT for c in s):
                out.append("literal %r contains identifier characters" % s)
        return out

    def overlaps(self):
        """[(short, long)] : short a proper prefix of long, both spellings of the table (operators or parentheses)"""
        sp = sorted(set(self.roles) | {self.lp, self.rp})
        out = [(a, b) for a in sp for b in sp if a != b and b.startswith(a)]
        if self.base in ("var", "intvar"):       # an operand that is a proper prefix of a keyword operator
            out += [(kw[0], kw) for kw in sorted(self.kws) if kw[0] in VARS]
        return out


class Reject(Exception):
    pass


def oracle_parse(T, toks):
    """tokens -> (tree, info) for the stratified grammar; raises Reject.  tree: str | list (pyparsing's as_list shape)"""
    pos = [0]
    info = {"ops": 0, "levels": set()}
    ntok = len(toks)

    def peek():
        return toks[pos[0]] if pos[0] < ntok else None

    def take():
        t = toks[pos[0]]
        pos[0] += 1
        return t

    def expect(opset):
        if peek() in opset:
            return take()
        raise Reject("expected one of %s at token %d" % (sorted(opset), pos[0]))

    def starts(k):
        t = peek()
        return t is not None and (T.is_base(t) or t == T.lp or any(j <= k for j in T.prefix_levels(t)))

    def used(k, nops=1):
        info["ops"] += nops
        info["levels"].add(k)

    def atom():
        t = peek()
        if T.is_base(t):
            return take()
        if t == T.lp:
            take()
            x = level(T.n)
            expect({T.rp})
            if not T.lp_lit and not T.rp_lit:
                return x
            return ([T.lp] if T.lp_lit else []) + [x] + ([T.rp] if T.rp_lit else [])
        raise Reject("operand expected at token %d" % pos[0])

    def level(k):
        if k == 0:
            return atom()
        kind, sets = T.levels[k - 1]
        if kind == "prefix":
            if peek() in sets[0]:
                op = take()
                used(k)
                return [op, level(k)]
            return level(k - 1)
        x = level(k - 1)
        if kind == "postfix":
            if peek() in sets[0]:
                g = [x]
                while peek() in sets[0]:
                    g.append(take())
                    used(k)
                return g
        elif kind == "binl":
            if peek() in sets[0]:
                g = [x]
                while peek() in sets[0]:
                    g.append(take())
                    g.append(level(k - 1))
                    used(k)
                return g
        elif kind == "binr":
            if peek() in sets[0]:
                op = take()
                used(k)
                return [x, op, level(k)]
        elif kind == "juxl":
            if starts(k - 1):
                g = [x]
                while starts(k - 1):
                    g.append(level(k - 1))
                    used(k)
                return g
        elif kind == "juxr":
            if starts(k):
                used(k)
                return [x, level(k)]
        elif kind == "ternl":
            if peek() in sets[0]:
                g = [x]
                while peek() in sets[0]:
                    g.append(take())
                    g.append(level(k - 1))
                    g.append(expect(sets[1]))
                    g.append(level(k - 1))
                    used(k)
                return g
        elif kind == "ternr":
            if peek() in sets[0]:
                o1 = take()
                a = level(k)
                o2 = expect(sets[1])
                used(k)
                return [x, o1, a, o2, level(k)]
        return x

    tree = level(T.n)
    if pos[0] != ntok:
        raise Reject("trailing tokens from %d" % pos[0])
    return tree, info


def oracle(T, s):
    """('ok', tree, info) | ('rej', why)"""
    toks = T.tokenize(s)
    if toks is None:
        return ("rej", "lexical error")
    if not toks:
        return ("rej", "empty")
    try:
        tree, info = oracle_parse(T, toks)
    except Reject as e:
        return ("rej", str(e))
    except RecursionError:
        return ("rej", "too deep")
    return ("ok", tree, info)


PRIME = 1000003


def _h(s):
    import hashlib
    return int(hashlib.md5(s.encode()).hexdigest()[:8], 16) % PRIME


def evaluate(T, t):
    """fixed arbitrary meaning for every operator (non-commutative, non-associative), on a tree in pyparsing's shape;
    None when the tree does not have the shape of any form of the table"""
    try:
        return _eval(T, t)
    except (ValueError, IndexError, TypeError, KeyError):
        return None


def _bin(op, a, b):
    return (_h("b1" + op) * a + _h("b2" + op) * b * b + _h("b3" + op)) % PRIME


def _eval(T, t):
    if isinstance(t, str):
        return int(t) % PRIME if t.isdigit() else _h("var" + t)
    if not isinstance(t, list) or not t:
        raise ValueError
    if (T.lp_lit or T.rp_lit) and ((T.lp_lit and t[0] == T.lp) or (T.rp_lit and t[-1] == T.rp)):
        inner = t[1 if T.lp_lit else 0: len(t) - 1 if T.rp_lit else len(t)]
        if len(inner) != 1 or (T.lp_lit and t[0] != T.lp) or (T.rp_lit and t[-1] != T.rp):
            raise ValueError
        return (_eval(T, inner[0]) + 1) % PRIME
    isop = lambda x, role: isinstance(x, str) and any(r == role for r, _ in T.roles.get(x, []))
    if len(t) == 2 and isop(t[0], "prefix") and not T.is_base(t[0]):
        return (_h("pre" + t[0]) * _eval(T, t[1]) + 3) % PRIME
    if len(t) >= 2 and all(isop(x, "postfix") for x in t[1:]):
        v = _eval(T, t[0])
        for op in t[1:]:
            v = (v * v + _h("post" + op)) % PRIME
        return v
    if len(t) >= 3 and isop(t[1], "binary"):
        k = [k for r, k in T.roles[t[1]] if r == "binary"][0]
        kind, sets = T.levels[k - 1]
        if len(t) % 2 == 0 or (kind == "binr" and len(t) != 3):
            raise ValueError
        v = _eval(T, t[0])
        for i in range(1, len(t), 2):
            if t[i] not in sets[0]:
                raise ValueError
            v = _bin(t[i], v, _eval(T, t[i + 1]))
        return v
    if len(t) >= 5 and isop(t[1], "ternary1"):
        k = [k for r, k in T.roles[t[1]] if r == "ternary1"][0]
        kind, sets = T.levels[k - 1]
        if len(t) % 4 != 1 or (kind == "ternr" and len(t) != 5):
            raise ValueError
        v = _eval(T, t[0])
        for i in range(1, len(t), 4):
            if t[i] not in sets[0] or t[i + 2] not in sets[1]:
                raise ValueError
            v = (_h("t1" + t[i]) * v + _h("t2" + t[i + 2]) * _eval(T, t[i + 1]) ** 2 + _eval(T, t[i + 3]) ** 3) % PRIME
        return v
    jk = [kind for kind, _ in T.levels if kind in ("juxl", "juxr")]
    if jk and len(t) >= 2 and not any(isinstance(x, str) and x in T.roles for x in t):
        if jk[0] == "juxr" and len(t) != 2:
            raise ValueError
        v = _eval(T, t[0])
        for x in t[1:]:
            v = _bin("", v, _eval(T, x))
        return v
    raise ValueError


# ---------------------------------------------------------------------------------------------------------------
# generators
# ---------------------------------------------------------------------------------------------------------------
SYMBOL_POOL = ["+", "-", "*", "/", "%", "^", "&", "|", "~", "!", "<", ">", "=", "@", "#", "**", "//", "<<", ">>", "==", "!=", "<=", ">=",
               "&&", "||", "++", "--", "<-", "->", "=>", "<=>", "<<=", "**=", "+=", "^^"]
OVERLAP_SETS = [["*", "**"], ["<", "<="], ["!", "!="], ["+", "++"], ["-", "--"], ["<", "<-"], ["=", "=="], ["<", "<<", "<<="],
                [">", ">>"], ["&", "&&"], ["|", "||"], ["/", "//"], ["<", "<=", "<=>"], ["*", "**", "**="], ["-", "->"], ["^", "^^"]]
KEYWORDS = ["not", "and", "or", "xor", "in", "mod"]
NONPREFIX_KINDS = ["postfix", "binl", "binr", "ternl", "ternr"]


def rand_table(rng, max_levels=6, overlap=None):
    """a random well-formed table spec"""
    for _ in range(200):
        spec = _rand_table(rng, max_levels, overlap)
        if not Table(spec).problems():
            return spec
    return S([["binl", ["lit", "+"]]])


def _rand_table(rng, max_levels, overlap):
    nlev = rng.choice([1, 2, 2, 3, 3, 3, 4, 4, 5, 6][:4 + max_levels] if max_levels <= 6 else list(range(1, max_levels + 1)))
    base = rng.choice(["int", "int", "var", "intvar"])
    brackets = rng.choice([("(", ")")] * 4 + [("[", "]"), ("{", "}")])
    lk, rk = rng.choice([("sup", "sup")] * 3 + [("lit", "lit"), ("lit", "sup"), ("sup", "lit")])
    use_kw = base != "int" and rng.random() < 0.45
    if overlap is None:
        overlap = rng.random() < 0.5
    pool = [s for s in SYMBOL_POOL if brackets[0] not in s and brackets[1] not in s]
    if overlap:
        pool = [s for grp in rng.sample(OVERLAP_SETS, 3) for s in grp] + rng.sample(pool, 4)
    else:                                 # prefix-free selection
        rng.shuffle(pool)
        sel = []
        for s in pool:
            if not any(a.startswith(s) or s.startswith(a) for a in sel):
                sel.append(s)
        pool = sel
    pool = list(dict.fromkeys(pool))
    kws = list(KEYWORDS)
    rng.shuffle(kws)
    used_nonpre, used_pre = set(), set()
    jux_at = rng.randrange(nlev) if (base != "intvar" and rng.random() < 0.15) else None

    def pick(role_prefix):
        used = used_pre if role_prefix else used_nonpre
        if use_kw and kws and rng.random() < 0.5:
            return ["kw", kws.pop()]
        cands = [s for s in pool if s not in used and (jux_at is None or s not in (used_pre | used_nonpre))]
        if not cands:
            raise IndexError
        s = rng.choice(cands)
        used.add(s)
        return ["lit", s]

    def pick_mf():
        k = rng.choice([2, 2, 3])
        sp = []
        for _ in range(k):
            o = pick(False)
            if o[0] == "kw":
                kws.append(o[1])
                continue
            sp.append(o[1])
        if len(sp) < 2:
            return ["lit", sp[0]] if sp else pick(False)
        sp.sort(key=lambda s: (-len(s), s))          # longer spellings first inside one MatchFirst
        return ["mf"] + sp

    levels = []
    try:
        for i in range(nlev):
            if i == jux_at:
                levels.append([rng.choice(["juxl", "juxr"])])
                continue
            kind = rng.choice(["prefix", "postfix", "binl", "binl", "binl", "binr", "binr", "ternl", "ternr"])
            if kind == "prefix":
                levels.append([kind, pick(True)])
            elif kind in ("ternl", "ternr"):
                levels.append([kind, pick(False), pick(False)])
            elif kind in ("binl", "binr") and rng.random() < 0.3:
                levels.append([kind, pick_mf()])
            else:
                levels.append([kind, pick(False)])
    except IndexError:
        return S([["binl", ["lit", "+"]], ["binl", ["lit", "+"]]])       # ill-formed on purpose: retried
    return S(levels, base=base, lpar=(lk, brackets[0]), rpar=(rk, brackets[1]))


def fixed_tables():
    L = lambda s: ["lit", s]
    K = lambda s: ["kw", s]
    out = [
        # four-function arithmetic, unary minus, right-associative ** (two placements of the unary minus)
        S([["binr", L("**")], ["prefix", L("-")], ["binl", ["mf", "*", "/"]], ["binl", ["mf", "+", "-"]]]),
        S([["prefix", L("-")], ["binr", L("**")], ["binl", ["mf", "*", "/"]], ["binl", ["mf", "+", "-"]]], base="intvar"),
        S([["prefix", ["mf", "+", "-"]], ["binl", ["mf", "*", "/"]], ["binl", ["mf", "+", "-"]]], lpar=("lit", "("), rpar=("lit", ")")),
        # boolean
        S([["prefix", K("not")], ["binl", K("and")], ["binl", K("or")]], base="var"),
        S([["prefix", K("not")], ["binr", K("and")], ["binr", K("or")], ["ternr", L("?"), L(":")]], base="intvar"),
        # ternary
        S([["binl", ["mf", "<=", "<"]], ["ternr", L("?"), L(":")]]),
        S([["binl", L("+")], ["ternl", L("?"), L(":")]], base="var"),
        S([["ternr", L("?"), L(":")], ["binl", L("+")]], lpar=("lit", "["), rpar=("sup", "]")),
        # ternary tables inside the class of C16_climb_partial (Word(nums) operands, Literal / MatchFirst-of-Literal operators)
        S([["binl", L("+")], ["ternr", L("?"), L(":")]]),
        S([["ternl", L("?"), L(":")], ["binl", L("+")]]),
        S([["prefix", L("-")], ["binl", ["mf", "*", "/"]], ["ternl", L("?"), L(":")], ["ternr", L("@"), L("!")]]),
        S([["ternr", ["mf", "?", "%"], L(":")], ["binr", L("^")], ["ternl", L("<"), L(">")]]),
        # postfix / juxtaposition
        S([["postfix", L("!")], ["juxl"], ["binl", L("+")]]),
        S([["prefix", L("-")], ["juxr"], ["binr", L("^")]], base="var"),
        S([["postfix", L("'")], ["prefix", L("~")], ["binl", L("&")], ["binl", L("|")], ["binr", L("=>")], ["ternr", L("?"), L(":")]], base="var"),
        # overlapping spellings on different levels
        S([["binl", L("*")], ["binl", L("**")]]),
        S([["binl", L("**")], ["binl", L("*")]]),
        S([["binr", L("**")], ["binl", L("*")], ["prefix", L("-")]]),
        S([["binl", L("<")], ["binl", L("<=")]]),
        S([["binl", L("<=")], ["binl", L("<")]]),
        S([["postfix", L("!")], ["binl", L("!=")]]),
        S([["binl", L("!=")], ["postfix", L("!")]]),
        S([["postfix", L("+")], ["binl", L("++")]]),
        S([["binl", L("++")], ["postfix", L("+")]]),
        S([["postfix", L("++")], ["binl", L("+")]]),
        S([["prefix", L("-")], ["binl", L("<")], ["binl", L("<-")]]),
        S([["prefix", L("-")], ["binl", L("<-")], ["binl", L("<")]]),
        S([["prefix", L("-")], ["prefix", L("--")], ["binl", L("-")]]),
        S([["prefix", L("--")], ["prefix", L("-")], ["binl", L("+")]]),
        S([["binl", L("-")], ["postfix", L("--")]]),
        S([["ternr", L("?"), L(":")], ["binl", L("?:")]]),
        S([["binl", L("?:")], ["ternl", L("?"), L(":")]]),
        S([["prefix", L(":")], ["ternr", L("?"), L(":")], ["binl", L("::")]], base="var"),
    ]
    return out


ATOMS_INT = ["0", "1", "2", "3", "7", "10", "42", "007"]


def gen_expr(rng, T, size, pdepth):
    """random well-formed expression of the table: returns (tree, tokens, cost).  size ~ number of operators wanted,
    pdepth = remaining allowed nesting of parentheses; cost = estimate of the number of operand parses the generated
    (unmemoized) parser performs: every level parses its operand once in the look-ahead and once more afterwards"""
    def atom_tok():
        if T.base == "int" or (T.base == "intvar" and rng.random() < 0.5):
            return rng.choice(ATOMS_INT)
        return rng.choice(VARS)

    def split(n, parts):
        cuts = [0] * parts
        for _ in range(max(0, n)):
            cuts[rng.randrange(parts)] += 1
        return cuts

    def atom(size, pd):
        if pd > 0 and (size > 0 and rng.random() < 0.8 or rng.random() < 0.12):
            x, toks, c = level(T.n, size, pd - 1)
            toks = [T.lp] + toks + [T.rp]
            if not T.lp_lit and not T.rp_lit:
                return x, toks, c + 2
            return ([T.lp] if T.lp_lit else []) + [x] + ([T.rp] if T.rp_lit else []), toks, c + 2
        a = atom_tok()
        return a, [a], 1

    def level(k, size, pd):
        if k == 0:
            return atom(size, pd)
        kind, sets = T.levels[k - 1]
        # use this level's operator?
        if size <= 0 or rng.random() < (0.45 if k > 1 else 0.25):
            x, toks, c = level(k - 1, size, pd)
            return x, toks, (c + 1 if kind == "prefix" else 2 * c + 1)
        op = lambda i=0: rng.choice(sorted(sets[i]))
        if kind == "prefix":
            o = op()
            y, ty, c = level(k, size - 1, pd)
            return [o, y], [o] + ty, 2 * c + 1
        if kind == "postfix":
            cnt = rng.choice([1, 1, 2, 3])
            x, tx, c = level(k - 1, size - cnt, pd)
            ops = [op() for _ in range(cnt)]
            return [x] + ops, tx + ops, 2 * c + 1
        if kind in ("binl", "juxl"):
            cnt = rng.choice([1, 1, 2, 3])
            sizes = split(size - cnt, cnt + 1)
            g, toks, cost = [], [], 0
            for i, sz in enumerate(sizes):
                if i and kind == "binl":
                    o = op()
                    g.append(o)
                    toks.append(o)
                x, tx, c = level(k - 1, sz, pd)
                g.append(x)
                toks += tx
                cost += c * (2 if i < 2 else 1)
            return g, toks, cost + 1
        if kind in ("binr", "juxr"):
            sa, sb = split(size - 1, 2)
            x, tx, ca = level(k - 1, sa, pd)
            y, ty, cb = level(k, sb, pd)
            if kind == "juxr":
                return [x, y], tx + ty, 2 * (ca + cb) + 1
            o = op()
            return [x, o, y], tx + [o] + ty, 2 * (ca + cb) + 1
        if kind == "ternl":
            cnt = rng.choice([1, 1, 2])
            sizes = split(size - cnt, 2 * cnt + 1)
            x, toks, cost = level(k - 1, sizes[0], pd)
            cost *= 2
            g = [x]
            for i in range(cnt):
                o1, o2 = op(0), op(1)
                a, ta, ca = level(k - 1, sizes[2 * i + 1], pd)
                b, tb, cb = level(k - 1, sizes[2 * i + 2], pd)
                g += [o1, a, o2, b]
                toks = toks + [o1] + ta + [o2] + tb
                cost += (ca + cb) * (2 if i == 0 else 1)
            return g, toks, cost + 1
        if kind == "ternr":
            s0, s1, s2 = split(size - 1, 3)
            x, tx, c0 = level(k - 1, s0, pd)
            o1, o2 = op(0), op(1)
            a, ta, c1 = level(k, s1, pd)
            b, tb, c2 = level(k, s2, pd)
            return [x, o1, a, o2, b], tx + [o1] + ta + [o2] + tb, 2 * (c0 + c1 + c2) + 1
        raise ValueError(kind)

    return level(T.n, size, pdepth)


SEPS = ["", "", "", " ", " ", " ", "  ", "\t", "\n", " \n ", "\r\n"]


def render(rng, T, toks, style=None):
    """token list -> string with random whitespace; the string tokenizes back to toks"""
    style = style or rng.choice(["mixed", "mixed", "tight", "spaces"])
    parts = []
    for i, t in enumerate(toks):
        if i:
            sep = " " if style == "spaces" else ("" if style == "tight" else rng.choice(SEPS))
            if sep == "" and T.tokenize(toks[i - 1] + t) != [toks[i - 1], t]:
                sep = " "
            parts.append(sep)
        parts.append(t)
    s = rng.choice(["", "", "", " ", "\n", "\t "]) + "".join(parts) + rng.choice(["", "", "", " ", "\n", " \t"])
    if T.tokenize(s) != toks:
        s = " ".join(toks)
    return s


def mutate(rng, T, toks, s):
    """an (often ill-formed) variant of a well-formed string"""
    alltoks = sorted(set(T.roles) | {T.lp, T.rp}) + ["1", "x" if T.base != "int" else "2"]
    kind = rng.choice(["deltok", "duptok", "instok", "swaptok", "delchar", "dupchar", "inschar", "unbalance", "trailing", "joinws"])
    toks = list(toks)
    if kind == "deltok" and len(toks) > 1:
        del toks[rng.randrange(len(toks))]
        return render(rng, T, toks) if rng.random() < 0.7 else " ".join(toks)
    if kind == "duptok":
        i = rng.randrange(len(toks))
        toks.insert(i, toks[i])
        return " ".join(toks) if rng.random() < 0.6 else "".join(toks)
    if kind == "instok":
        toks.insert(rng.randrange(len(toks) + 1), rng.choice(alltoks))
        return " ".join(toks) if rng.random() < 0.6 else "".join(toks)
    if kind == "swaptok" and len(toks) > 1:
        i = rng.randrange(len(toks) - 1)
        toks[i], toks[i + 1] = toks[i + 1], toks[i]
        return " ".join(toks)
    if kind == "delchar" and len(s) > 1:
        i = rng.randrange(len(s))
        return s[:i] + s[i + 1:]
    if kind == "dupchar" and s:
        i = rng.randrange(len(s))
        return s[:i] + s[i] + s[i:]
    if kind == "inschar":
        alphabet = sorted(set("".join(alltoks)) | set(" 1x"))
        i = rng.randrange(len(s) + 1)
        return s[:i] + rng.choice(alphabet) + s[i:]
    if kind == "unbalance":
        p = rng.choice([T.lp, T.rp])
        i = rng.randrange(len(toks) + 1)
        if rng.random() < 0.5 and p in toks:
            toks.remove(p)
        else:
            toks.insert(i, p)
        return " ".join(toks)
    if kind == "trailing":
        ops = sorted(T.roles) or ["+"]
        return s + rng.choice(["", " "]) + rng.choice(ops)
    # joinws: remove all whitespace (glues tokens: exercises overlapping spellings and keywords)
    return "".join(c for c in s if c not in WS)


COST_BUDGET = 600


def gen_good(rng, T, budget=COST_BUDGET):
    """one well-formed expression within the cost budget: (tree, tokens, cost)"""
    best = None
    for attempt in range(12):
        size = rng.choice([0, 1, 2, 3, 3, 4, 5, 6, 8]) if T.n else rng.choice([0, 1])
        if attempt >= 6:
            size = min(size, 2)
        tree, toks, cost = gen_expr(rng, T, size, rng.choice([0, 1, 2, 3]))
        if cost <= budget and len(toks) <= 40:
            return tree, toks, cost
        if best is None or cost < best[2]:
            best = (tree, toks, cost)
    tree, toks, cost = gen_expr(rng, T, 0, 0)
    return (tree, toks, cost) if cost <= best[2] else best


def gen_inputs(rng, T, n_good, n_bad, budget=COST_BUDGET):
    """[(string, generating tree | None)]"""
    out, seen = [], set()
    goods = []
    for i in range(n_good):
        tree, toks, cost = gen_good(rng, T, budget)
        s = render(rng, T, toks)
        goods.append((toks, s))
        if s not in seen:
            seen.add(s)
            out.append((s, tree))
    for i in range(n_bad):
        toks, s = goods[rng.randrange(len(goods))]
        m = mutate(rng, T, toks, s)
        if m not in seen and len(m) <= 120:
            seen.add(m)
            out.append((m, None))
    return out


# ---------------------------------------------------------------------------------------------------------------
# the checks
# ---------------------------------------------------------------------------------------------------------------
def canon_to_py(t):
    if isinstance(t, tuple) and t[0] == "s":
        return t[1]
    if isinstance(t, tuple) and t[0] == "l":
        return [canon_to_py(x) for x in t[1]]
    if isinstance(t, tuple) and t[0] == "p":
        return [canon_to_py(x) for x in t[1][1]]
    return repr(t)


def real_view(o):
    """canonical implementation outcome -> ('ok', as_list) | ('fail', loc, msg) | ('div',) | ('other', class)"""
    if o[0] == "ok":
        return ("ok", [canon_to_py(views.as_list_tok(x)) for x in o[1][1]])
    if o[0] == "err":
        return ("fail", o[2], o[3]) if o[1] == "ParseException" else ("other", o[1])
    return ("div",)


def peg_of_real(o):
    if o[0] == "ok":
        return ("ok", views.as_list(o[1]))
    if o[0] == "err":
        return ("fail",) if o[1] == "ParseException" else ("other", o[1])
    return ("div",)


def peg_of_ref(res):
    if res[0] == "ok":
        return ("ok", [views.as_list_tok(t) for t in res[2]])
    if res[0] == "fail":
        return ("fail",)
    return ("div",)


def leaves(t):
    if isinstance(t, str):
        return [t]
    out = []
    for x in t:
        out += leaves(x)
    return out


def spec_id(spec):
    lv = ",".join(l[0] + "".join(":" + "/".join(o[1:]) if o[0] != "kw" else ":kw/" + o[1] for o in l[1:]) for l in spec["levels"])
    return "%s[%s]%s%s%s%s" % (spec["base"], lv, spec["lpar"][0][0], spec["lpar"][1], spec["rpar"][0][0], spec["rpar"][1])


ROLE_ORDER = ["postfix", "binary", "ternary1", "ternary2", "prefix"]


FRESH = ["\u00a7", "\u00b6", "\u00a4", "\u00ac", "\u00b0", "\u00b1", "\u00d7", "\u00f7", "\u00a6", "\u00a9", "\u00ae", "\u00b5"]


def rename_long(spec, inp, longs):
    """the table and the input with the spelling(s) `longs` replaced by fresh, non-overlapping ones"""
    T = Table(spec)
    longs = [longs] if isinstance(longs, str) else list(longs)
    fr = dict(zip(longs, FRESH))
    ren = lambda o: [o[0]] + [fr.get(x, x) for x in o[1:]]
    spec2 = dict(spec, levels=[[lv[0]] + [ren(o) for o in lv[1:]] for lv in spec["levels"]])
    toks, _ = T.scan(inp)
    out, last = [], 0
    for t, a, b in toks:
        out.append(inp[last:a])
        out.append(fr.get(t, t))
        last = b
    out.append(inp[last:])
    return spec2, "".join(out)


def classify(T, inp, orc, rv, rv_prefix, cure=None):
    """mechanism of a disagreement between the implementation and the token-level oracle when it is explained by
    overlapping spellings: at the first token where the two readings part, the implementation has consumed the operator
    `short` where the maximal-munch token is `long` (short a proper prefix of long).  When the implementation left no
    partial result to align, `cure(long)` (re-run with `long` renamed to a fresh spelling; True when the disagreement
    disappears) finds the pair.  Returns (class_key, description) or None.
    rv = implementation under parse_all=True, rv_prefix = under parse_all=False (what the parser consumed)"""
    ov = T.overlaps()
    if not ov or rv[0] not in ("ok", "fail"):
        return None
    if orc[0] == "ok" and rv[0] != "ok":
        beh = "rejects-valid"
    elif orc[0] != "ok" and rv[0] == "ok":
        beh = "accepts-invalid"
    elif orc[0] == "ok":
        beh = "misgroups"
    else:
        return None
    toks = [t for t, _, _ in T.scan(inp)[0]]
    got = rv if rv[0] == "ok" else rv_prefix
    real_leaves = leaves(got[1]) if got[0] == "ok" else []
    drop = set(([] if T.lp_lit else [T.lp]) + ([] if T.rp_lit else [T.rp]))
    otoks = [t for t in toks if t not in drop]
    short = long_ = idx = None
    seen = []
    for i, t in enumerate(otoks):
        if i >= len(real_leaves):
            break
        if real_leaves[i] != t:
            if (real_leaves[i], t) in ov:
                short, long_, idx = real_leaves[i], t, i
            break
    if short is None and cure is not None:
        for i, t in enumerate(otoks):
            if t in seen or not any(b == t for a, b in ov):
                continue
            seen.append(t)
            if cure(t):
                long_, idx = t, i
                short = max((a for a, b in ov if b == t), key=len)
                break
    if short is None and cure is not None and len(seen) >= 2 and cure(seen):
        return ("overlap-class:several-overlapping-spellings",
                "the table has several overlapping spellings (%s); with all of %s renamed the implementation and the oracle agree" % (
                    ", ".join("%r<%r" % p for p in ov), seen))
    if short is None:
        return None
    prev = otoks[idx - 1] if idx else None
    after_operand = prev is not None and (T.is_base(prev) or prev == T.rp or
                                          any(r == "postfix" for r, _ in T.roles.get(prev, [])))

    def role_at(sp):
        rls = T.roles.get(sp) or [("operand" if T.is_base(sp) else "paren", 0)]
        pref = [rk for rk in rls if (rk[0] != "prefix") == after_operand]
        return (pref or rls)[0]
    (rs, ks), (rl, kl) = role_at(short), role_at(long_)
    rel = "same-level" if ks == kl else ("looser" if kl > ks else "tighter")
    key = ("overlap-class:operand-prefix-of-keyword-op:%s" % beh) if rs == "operand" else \
        ("overlap-class:%s-op-prefix-of-longer-op:%s" % (rs, beh))
    return key, "the implementation reads %r (%s%s) where the maximal-munch token is %r (%s operator of the %s level %d)" % (
        short, rs, " operator of level %d" % ks if rs != "operand" else "", long_, rl, rel, kl)


class TableRun:
    def __init__(self, spec):
        self.spec = spec
        self.T = Table(spec)
        self.real = Real(spec)


def describe_rv(rv):
    if rv[0] == "ok":
        return "parses as %r" % (rv[1],)
    if rv[0] == "fail":
        return "raises ParseException at %s (%s)" % (rv[1], rv[2])
    return "%s" % (rv,)


def report_problems(ctx, tr, inp, res, ref_agrees=None, witness_key=None, shrink=False):
    """turn the problems of one input into ctx.violation calls; returns the keys used"""
    T = tr.T
    keys = []
    for p in res["problems"]:
        if p[0] == "memo":
            key = "memo:%s:%r:%r" % (spec_id(tr.spec), inp, p[1])
            ctx.violation(key, "infix_notation table %s on %r: memoization %r changes the outcome: off=%r on=%r" % (
                spec_id(tr.spec), inp, p[1], p[2], p[3]), {"kind": "memo", "spec": tr.spec, "input": inp, "mode": list(p[1])})
            keys.append(key)
            continue
        rv, orc = p[1], p[2]
        want = ("the tokenizing precedence parser gives %r (value %s)" % ([orc[1]], evaluate(T, orc[1]))) if orc[0] == "ok" else \
            "the tokenizing precedence parser rejects it (%s)" % orc[1]
        got = describe_rv(rv) + (" (value %s)" % evaluate(T, rv[1][0]) if rv[0] == "ok" and len(rv[1]) == 1 else "")
        key = witness_key
        extra = ""
        if key is None:
            def cure(long_, spec=tr.spec, inp=inp):
                sp2, inp2 = rename_long(spec, inp, long_)
                return not any(p[0] == "oracle" for p in check_input(TableRun(sp2), inp2, modes=MODES[:1])["problems"])
            cl = classify(T, inp, orc, rv, real_view(res["prefix"]), cure) if rv[0] in ("ok", "fail") else None
            if cl is not None and ref_agrees is not False:
                key, extra = cl[0], " [" + cl[1] + "; the scannerless PEG reading of the table agrees with the implementation]"
            else:
                spec2, inp2 = tr.spec, inp
                if shrink:
                    beh = behaviour(res)

                    def pred(sp, s):
                        tr2 = TableRun(sp)
                        r2 = check_input(tr2, s, modes=MODES[:1])
                        if behaviour(r2) != beh:
                            return False
                        return classify(tr2.T, s, r2["oracle"], r2["rv"], real_view(r2["prefix"]), None) is None
                    try:
                        spec2, inp2 = shrink_case(tr.spec, inp, pred)
                    except Exception:
                        spec2, inp2 = tr.spec, inp
                    if (spec2, inp2) != (tr.spec, inp):
                        tr2 = TableRun(spec2)
                        r2 = check_input(tr2, inp2, modes=MODES[:1])
                        return keys + report_problems(ctx, tr2, inp2, r2, ref_agrees=False)
                key = "oracle:%s:%r" % (spec_id(spec2), inp2)
        ctx.violation(key, "infix_notation table %s on %r: implementation %s, %s%s" % (spec_id(tr.spec), inp, got, want, extra),
                      {"kind": "oracle", "spec": tr.spec, "input": inp, "mode": ["none"]})
        keys.append(key)
    return keys


# hand-written witnesses of the defects seen on the unchanged tree: (key, table, input); keys contain no whitespace
def witnesses():
    L = lambda s: ["lit", s]
    K = lambda s: ["kw", s]
    return [
        ("overlap:postfix-prefix-of-looser-op:!|!=:1_!=_2", S([["postfix", L("!")], ["binl", L("!=")]]), "1 != 2"),
        ("overlap:postfix-prefix-of-looser-op:!|!=:1!_!=_2", S([["postfix", L("!")], ["binl", L("!=")]]), "1! != 2"),
        ("overlap:postfix-prefix-of-looser-op:+|++:1_++_2", S([["postfix", L("+")], ["binl", L("++")]]), "1 ++ 2"),
        ("overlap:binary-prefix-of-looser-op-rest-is-prefix-op:-|<|<-:1_<-_2",
         S([["prefix", L("-")], ["binl", L("<")], ["binl", L("<-")]]), "1 <- 2"),
        ("overlap:postfix-prefix-of-tighter-op:++|+:3++", S([["binl", L("++")], ["postfix", L("+")]]), "3++"),
        ("overlap:prefix-prefix-of-tighter-prefix-op:--|-:--1", S([["prefix", L("--")], ["prefix", L("-")], ["binl", L("+")]]), "--1"),
        ("overlap:ternary-op2-prefix-of-looser-op:?|:|:::x?y::z", S([["prefix", L(":")], ["ternr", L("?"), L(":")], ["binl", L("::")]], base="var"), "x?y::z"),
        ("overlap:operand-prefix-of-keyword-op:juxtaposition|xor:y_xor", S([["juxl"], ["postfix", K("xor")]], base="var"), "y xor"),
    ]


# ---------------------------------------------------------------------------------------------------------------
# shrinking of a failing (table, input) towards a readable witness
# ---------------------------------------------------------------------------------------------------------------
def behaviour(res):
    for p in res["problems"]:
        if p[0] == "oracle":
            rv, orc = p[1], p[2]
            if rv[0] not in ("ok", "fail"):
                return rv[0]
            return "rejects-valid" if orc[0] == "ok" and rv[0] != "ok" else ("accepts-invalid" if orc[0] != "ok" else "misgroups")
    return None


def shrink_case(spec, inp, pred, budget=80):
    """pred(spec, inp) -> bool (still failing the same way)"""
    n = [0]

    def ok(sp, s):
        n[0] += 1
        if n[0] > budget:
            return False
        try:
            if Table(sp).problems():
                return False
            return pred(sp, s)
        except Exception:
            return False
    changed = True
    while changed and n[0] <= budget:
        changed = False
        for i in range(len(spec["levels"])):
            cand = dict(spec, levels=spec["levels"][:i] + spec["levels"][i + 1:])
            if ok(cand, inp):
                spec, changed = cand, True
                break
        if changed:
            continue
        toks = Table(spec).tokenize(inp)
        cands = []
        if toks:
            for i in range(len(toks)):
                cands.append(" ".join(toks[:i] + toks[i + 1:]))
            cands.append(" ".join(toks))
        else:
            cands = [inp[:i] + inp[i + 1:] for i in range(len(inp))]
        for c in cands:
            if c != inp and len(c) <= len(inp) and ok(spec, c) and (len(c) < len(inp) or c < inp):
                inp, changed = c, True
                break
    return spec, inp


# ---------------------------------------------------------------------------------------------------------------
# correspond
# ---------------------------------------------------------------------------------------------------------------
def make_tables(ctx, rng, n_random, max_levels=6):
    specs = fixed_tables() + [w[1] for w in witnesses()]
    seen, out = set(), []
    for sp in specs + [rand_table(rng, max_levels) for _ in range(n_random)]:
        sid = spec_id(sp)
        if sid in seen:
            continue
        seen.add(sid)
        pr = Table(sp).problems()
        if pr:
            raise RuntimeError("ill-formed table %s: %s" % (sid, pr))
        out.append(sp)
    return out


def build_runs(ctx, specs):
    runs = []
    for sp in specs:
        try:
            runs.append(TableRun(sp))
        except dump.Unsupported as e:
            ctx.broken("correspondence:dump of infix_notation(%s) unsupported: %s" % (spec_id(sp), e))
        except RecursionError:
            ctx.violation("construct:%s" % spec_id(sp), "infix_notation(%s) / streamline raises RecursionError" % spec_id(sp),
                          {"kind": "construct", "spec": sp})
        except Exception as e:
            ctx.violation("construct:%s" % spec_id(sp), "infix_notation(%s) raises %s: %s" % (spec_id(sp), type(e).__name__, e),
                          {"kind": "construct", "spec": sp})
    return runs


REAL_TIMEOUT = 4.0
MAX_SHRUNK, MAX_REPORTED = 5, 40


def check_input(tr, inp, modes=MODES):
    """runs the implementation on one input in every mode; returns dict with the oracle, the real views, verdict"""
    T, real = tr.T, tr.real
    orc = oracle(T, inp)
    outs = [observe.run_real(real.expr, real.dumper, inp, m, ("parse", True), timeout=REAL_TIMEOUT) for m in modes]
    prefix = observe.run_real(real.expr, real.dumper, inp, ("none",), ("parse", False), timeout=REAL_TIMEOUT)
    rv = real_view(outs[0])
    problems = []
    for m, o in zip(modes[1:], outs[1:]):
        if corr.proj_all(o) != corr.proj_all(outs[0]):
            problems.append(("memo", m, corr.proj_all(outs[0]), corr.proj_all(o)))
    if orc[0] == "ok":
        if rv != ("ok", [orc[1]]):
            problems.append(("oracle", rv, orc))
    else:
        if rv[0] != "fail":
            problems.append(("oracle", rv, orc))
    return {"oracle": orc, "outs": outs, "prefix": prefix, "rv": rv, "problems": problems}


def run_driver_for(runs, refs, plan):
    """plan: [(ti, ii, inp)] ; returns {(ti, ii): {"parse": [outcome per mode], "peg": outcome, "pegref": outcome|None}}"""
    lines = []
    for ti, ii, inp in plan:
        real = runs[ti].real
        for mi, m in enumerate(MODES):
            lines.append(observe.case_line("t%d_%d_m%d" % (ti, ii, mi), real.env_sx, real.root_sx, real.expr.keepTabs, inp, m, ("parse", True)))
        lines.append(observe.case_line("t%d_%d_pg" % (ti, ii), real.env_sx, real.root_sx, real.expr.keepTabs, inp, ("none",), ("peg",)))
        if refs is not None and refs[ti] is not None:
            lines.append(observe.case_line("t%d_%d_pr" % (ti, ii), sx_text(refs[ti][1]), sx_text(refs[ti][0]), real.expr.keepTabs, inp,
                                           ("none",), ("peg",)))
    out = observe.run_model(lines)
    res = {}
    for ti, ii, inp in plan:
        d = runs[ti].real.dumper
        get = lambda suffix: (observe.outcome_from_model(out["t%d_%d_%s" % (ti, ii, suffix)], d)
                              if "t%d_%d_%s" % (ti, ii, suffix) in out else ("missing",))
        res[(ti, ii)] = {"parse": [get("m%d" % mi) for mi in range(len(MODES))], "peg": get("pg"),
                         "pegref": get("pr") if refs is not None and refs[ti] is not None else None}
    return res


def run_tables(ctx, specs, n_good, n_bad, with_model=True, budget=COST_BUDGET):
    """the whole check on a list of table specs; returns number of fresh (not known) violations reported"""
    rng = ctx.rng
    before = len(ctx.violations)
    runs = build_runs(ctx, specs)
    ctx.stat("tables", len(runs))
    # (a) structure
    refs = None
    if with_model and runs:
        try:
            elabs, refs = [], []
            CH = 120
            for i in range(0, len(runs), CH):
                e, r = elab_both([tr.real for tr in runs[i:i + CH]])
                elabs += e
                refs += r
        except Exception as e:
            ctx.broken("correspondence:infix_elab evaluation failed (%s: %s)" % (type(e).__name__, str(e)[-300:].replace("\n", " ")))
            elabs = refs = None
        if elabs is not None:
            nbad = 0
            for tr, el in zip(runs, elabs):
                d = match_structure(el, dumped_grammar_sx(tr.real))
                ctx.stat("structure_compared")
                if d is not None:
                    nbad += 1
                    if nbad <= 3:
                        ctx.broken("correspondence:infix_elab structure differs from the dumped infix_notation(%s): %s" % (spec_id(tr.spec), d[:300]))
            ctx.stat("structure_mismatches", nbad)
    # inputs + implementation
    plan, cases = [], {}
    for ti, tr in enumerate(runs):
        for ii, (inp, tree) in enumerate(gen_inputs(rng, tr.T, n_good, n_bad, budget)):
            res = check_input(tr, inp)
            res["gen_tree"] = tree
            if tree is not None and (res["oracle"][0] != "ok" or res["oracle"][1] != tree):
                raise RuntimeError("generator and oracle disagree on table %s input %r: %r / %r" % (spec_id(tr.spec), inp, tree, res["oracle"]))
            cases[(ti, ii)] = (inp, res)
            plan.append((ti, ii, inp))
    # (b), (b') model / reference readings
    mres = run_driver_for(runs, refs, plan) if with_model else {}
    nb = {"parse": 0, "peg": 0, "pegref": 0}
    in_class = {}
    for (ti, ii, inp) in plan:
        tr = runs[ti]
        inp, res = cases[(ti, ii)]
        m = mres.get((ti, ii))
        agreed = [True] * len(MODES)
        ref_agrees = None
        if m is not None:
            for mi, mode in enumerate(MODES):
                ctx.stat("model_parse_compared")
                if corr.proj_all(m["parse"][mi]) != corr.proj_all(res["outs"][mi]):
                    agreed[mi] = False
                    nb["parse"] += 1
                    if nb["parse"] <= 3:
                        ctx.broken("correspondence:parse-outcome model!=impl table=%s input=%r mode=%r impl=%r model=%r" % (
                            spec_id(tr.spec), inp, mode, corr.proj_all(res["outs"][mi]), corr.proj_all(m["parse"][mi])))
            want_real = peg_of_real(res["prefix"])
            pg = m["peg"]
            if pg[0] == "peg":
                in_class.setdefault(ti, (pg[1], pg[2]))
                ctx.stat("peg_elab_compared")
                if peg_of_ref(pg[3]) != want_real:
                    nb["peg"] += 1
                    if nb["peg"] <= 3:
                        ctx.broken("correspondence:peg-reading of the dumped grammar != impl table=%s input=%r impl=%r peg=%r" % (
                            spec_id(tr.spec), inp, want_real, peg_of_ref(pg[3])))
            else:
                ctx.broken("correspondence:peg entry failed on table %s: %r" % (spec_id(tr.spec), pg))
            pr = m["pegref"]
            if pr is not None:
                if pr[0] == "peg":
                    ctx.stat("peg_infix_ref_compared")
                    ref_agrees = peg_of_ref(pr[3]) == want_real
                    if not ref_agrees:
                        nb["pegref"] += 1
                        if nb["pegref"] <= 3:
                            ctx.broken("correspondence:infix_ref reading (no look-aheads) != impl table=%s input=%r impl=%r infix_ref=%r" % (
                                spec_id(tr.spec), inp, want_real, peg_of_ref(pr[3])))
                else:
                    ctx.broken("correspondence:peg entry failed on infix_ref of table %s: %r" % (spec_id(tr.spec), pr))
        # (c) the property on the implementation
        orc = res["oracle"]
        nontriv = orc[0] == "ok" and (len(orc[2]["levels"]) >= 2 or orc[2]["ops"] >= 3)
        for mi, mode in enumerate(MODES):
            ctx.case(json.dumps([spec_id(tr.spec), inp, list(mode)]), nontriv, agreed[mi])
        ctx.stat("oracle_" + ("accepts" if orc[0] == "ok" else "rejects"))
        ctx.stat("impl_" + res["rv"][0])
        if res["problems"]:
            ctx.stat("impl_vs_oracle_disagreements")
            fresh = len(ctx.violations) - before
            if fresh < MAX_REPORTED:
                report_problems(ctx, tr, inp, res, ref_agrees=ref_agrees, shrink=fresh < MAX_SHRUNK)
            else:
                ctx.stat("disagreements_not_reported_individually")
    for k, v in nb.items():
        ctx.stat("model_%s_disagreements" % k, v)
    if with_model:
        ctx.stat("tables_in_proved_class", sum(1 for v in in_class.values() if v[0]))
        ctx.stat("tables_in_reference_class", sum(1 for v in in_class.values() if v[1]))
        ctx.coverage_extra["tables_outside_proved_class"] = [spec_id(runs[ti].spec) for ti, v in sorted(in_class.items()) if not v[0]][:12]
    return len(ctx.violations) - before, runs, cases


def run_witnesses(ctx):
    for key, spec, inp in witnesses():
        tr = TableRun(spec)
        res = check_input(tr, inp)
        ctx.stat("witnesses_run")
        if res["problems"]:
            ctx.stat("witnesses_reproduced")
            report_problems(ctx, tr, inp, res, witness_key=key)


# ---------------------------------------------------------------------------------------------------------------
# (d) the Coq SPECIFICATION `Climb.climb` (Model/Climb.v, precedence climbing over tokens; C16_climb_partial proves it equal
#     to the reference reading for non-overlapping tables) evaluated on the generated tables / inputs, against the Python
#     precedence parser AND the implementation, on the rendering (tokens joined by single spaces) of the token list
# ---------------------------------------------------------------------------------------------------------------
CLIMB_PREAMBLE = """From Coq Require Import List NArith Bool.
From PP Require Import Model.Str Model.Results Model.Climb.
Import ListNotations.
"""
COQ_CLEVEL = {"postfix": "CPostfix", "prefix": "CPrefix", "binl": "CBinL", "binr": "CBinR", "juxl": "CJuxL", "juxr": "CJuxR",
              "ternl": "CTernL", "ternr": "CTernR"}
CLIMB_MAX_QUICK, CLIMB_MAX_THOROUGH = 700, 6000


def coq_ctable(spec):
    lv = []
    for l in spec["levels"]:
        ops = " ".join("[" + "; ".join(vlib.coq_str(s) for s in op_spellings(o)) + "]" for o in l[1:])
        lv.append(("%s %s" % (COQ_CLEVEL[l[0]], ops)).strip())
    return "[" + "; ".join(lv) + "]"


def coq_tokens(T, toks):
    return "[" + "; ".join(("TOperand %s" if T.is_base(t) else "TOp %s") % vlib.coq_str(t) for t in toks) + "]"


def coq_tree_to_py(v):
    if isinstance(v, tuple) and v[0] == "TStr":
        return vlib.from_coq_str(v[1])
    if isinstance(v, tuple) and v[0] == "TList":
        return [coq_tree_to_py(x) for x in v[1]]
    raise ValueError("unexpected tree %r" % (v,))


def flat_strings(t):
    if isinstance(t, str):
        return [t]
    return [s for x in t for s in flat_strings(x)]


def climb_in_theorem_scope(spec):
    """tables to which C16_climb_partial applies syntactically (ctable_of / base_chars / par_spelling defined)"""
    return (spec["base"] == "int" and all(l[0] in ("postfix", "prefix", "binl", "binr", "juxr", "ternl", "ternr") for l in spec["levels"])
            and all(o[0] in ("lit", "mf") for l in spec["levels"] for o in l[1:]))


def ternary_ops(spec):
    """the spellings of the FIRST operator position of every ternary level of the table"""
    return {s for l in spec["levels"] if l[0] in ("ternl", "ternr") for s in op_spellings(l[1])}


def climb_hypotheses_on_real(ctx, trs, dws, digits):
    """for tables in the syntactic scope: Coq `ctable_of` / `base_chars` / `par_spelling` / `not_plain_and` on the dumped real
    pieces; [bool per table] (False + tie broken when a hypothesis that the Python scope test promises does not hold)"""
    if not trs:
        return []
    exprs = []
    for tr in trs:
        real = tr.real
        P = lambda o, real=real: sx_to_coq(observe.parse_sx(real.piece_sx(o)))
        try:
            lvls = ["%s %s []" % (COQ_LEVEL[lv[0]], " ".join(P(o) for o in ops)) for lv, ops in zip(real.spec["levels"], real.ops)]
            exprs += ["ctable_of %s [%s]" % (dws, "; ".join(lvls)), "Some %s" % coq_ctable(tr.spec),
                      "base_chars %s %s" % (dws, P(real.base)), "Some %s" % digits,
                      "par_spelling %s %s" % (dws, P(real.lpar)), "Some %s" % vlib.coq_str(tr.T.lp),
                      "not_plain_and %s" % P(real.rpar), "true"]
        except NotExpressible as e:
            ctx.broken("correspondence:pieces of table %s not expressible in Coq: %s" % (spec_id(tr.spec), e))
            return None
    try:
        import os
        vals = vlib.coq_eval_terms("c16_climbhyp_%d" % os.getpid(), COQ_PREAMBLE + "From PP Require Import Model.Climb.\n", exprs, timeout=900)
    except Exception as e:
        ctx.broken("correspondence:evaluation of the hypotheses of C16_climb_partial failed (%s: %s)" % (
            type(e).__name__, str(e)[-300:].replace("\n", " ")))
        return None
    out = []
    names = ["ctable_of", "base_chars", "par_spelling", "not_plain_and"]
    for i, tr in enumerate(trs):
        v = vals[8 * i:8 * i + 8]
        bad = [names[j] for j in range(4) if v[2 * j] != v[2 * j + 1]]
        if bad:
            ctx.broken("correspondence:table %s is in the syntactic scope of C16_climb_partial but %s on the real pieces gives %r" % (
                spec_id(tr.spec), bad[0], v[2 * names.index(bad[0])]))
        else:
            ctx.stat("climb_tables_hypotheses_hold_on_real_pieces")
        out.append(not bad)
    return out


def run_climb_tie(ctx, runs, cases):
    limit = CLIMB_MAX_THOROUGH if ctx.thorough else CLIMB_MAX_QUICK
    sel, seen = [], set()
    for (ti, ii), (inp, res) in sorted(cases.items()):
        T = runs[ti].T
        toks = T.tokenize(inp)
        if not toks or T.lp in toks or T.rp in toks:
            continue
        rendered = " ".join(toks)
        if (ti, rendered) in seen or T.tokenize(rendered) != toks:
            continue
        seen.add((ti, rendered))
        sel.append((ti, toks, rendered))
        if len(sel) >= limit:
            break
    ctx.stat("climb_cases", len(sel))
    if not sel:
        return
    tabs = sorted({ti for ti, _, _ in sel})
    scope = [ti for ti in tabs if climb_in_theorem_scope(runs[ti].spec)]
    dws = "[9;10;13;32]%N"
    digits = vlib.coq_str("0123456789")
    exprs = ["Climb.climb_all %s %s" % (coq_ctable(runs[ti].spec), coq_tokens(runs[ti].T, toks)) for ti, toks, _ in sel]
    exprs += ["no_overlapb %s %s %s %s" % (dws, digits, vlib.coq_str(runs[ti].T.lp), coq_ctable(runs[ti].spec)) for ti in scope]
    try:
        import os
        vals = vlib.coq_eval_terms("c16_climb_%d" % os.getpid(), CLIMB_PREAMBLE, exprs, timeout=900)
    except Exception as e:
        ctx.broken("correspondence:Climb.climb evaluation failed (%s: %s)" % (type(e).__name__, str(e)[-300:].replace("\n", " ")))
        return
    coq_no_overlap = {ti: bool(v) for ti, v in zip(scope, vals[len(sel):])}
    # the remaining hypotheses of C16_climb_partial evaluated ON THE REAL PIECES (operators, base, parentheses as dumped from
    # the objects given to infix_notation): `ctable_of` must read the element table as exactly the token table used above
    hyp = climb_hypotheses_on_real(ctx, [runs[ti] for ti in scope], dws, digits)
    if hyp is None:
        return
    for ti, ok in zip(scope, hyp):
        if not ok:
            coq_no_overlap[ti] = False
    for ti in tabs:
        if ternary_ops(runs[ti].spec):
            ctx.stat("climb_tables_with_ternary_level")
    for ti in scope:
        ctx.stat("climb_tables_in_theorem_scope")
        if ternary_ops(runs[ti].spec):
            ctx.stat("climb_tables_in_theorem_scope_with_ternary_level")
        if coq_no_overlap[ti]:
            ctx.stat("climb_tables_no_overlapb_true")
            if ternary_ops(runs[ti].spec):
                ctx.stat("climb_tables_no_overlapb_true_with_ternary_level")
            if runs[ti].T.overlaps():
                ctx.broken("correspondence:no_overlapb holds in Coq for table %s but the Python table has overlapping spellings %r" % (
                    spec_id(runs[ti].spec), runs[ti].T.overlaps()[:3]))
    nbad_or, nbad_impl = 0, 0
    for (ti, toks, rendered), v in zip(sel, vals):
        tr = runs[ti]
        T = tr.T
        if v == "None" or v == ("None",):
            cl = None
        elif isinstance(v, tuple) and v[0] == "Some":
            cl = coq_tree_to_py(v[1])
        else:
            ctx.broken("correspondence:unexpected value of Climb.climb_all: %r" % (v,))
            return
        # Coq spec vs the Python precedence parser, on the same tokens
        try:
            py = oracle_parse(T, toks)[0]
        except Reject:
            py = None
        except RecursionError:
            continue
        ctx.stat("climb_vs_python_oracle_compared")
        if py != cl:
            nbad_or += 1
            if nbad_or <= 3:
                ctx.broken("correspondence:Climb.climb_all != python precedence parser table=%s tokens=%r coq=%r python=%r" % (
                    spec_id(tr.spec), toks, cl, py))
            continue
        # Coq spec vs the implementation, on the rendering
        res = check_input(tr, rendered, modes=MODES[:1])
        rv = res["rv"]
        ctx.stat("climb_vs_impl_compared")
        in_scope = coq_no_overlap.get(ti, False)
        tern = ternary_ops(tr.spec)
        # the table has a ternary level / a ternary operator is APPLIED in the tree climbing builds
        tern_used = cl is not None and any(isinstance(x, str) and x in tern for x in flat_strings(cl)) and \
            any(t in tern for t in toks)
        if tern:
            ctx.stat("climb_vs_impl_compared_ternary_table")
        if tern_used:
            ctx.stat("climb_vs_impl_compared_ternary_operator_applied")
        if in_scope:
            ctx.stat("climb_vs_impl_compared_under_theorem_hypotheses")
            if tern:
                ctx.stat("climb_vs_impl_compared_under_theorem_hypotheses_ternary_table")
            if tern_used:
                ctx.stat("climb_vs_impl_compared_under_theorem_hypotheses_ternary_operator_applied")
        agree = (rv == ("ok", [cl])) if cl is not None else rv[0] == "fail"
        ctx.case(json.dumps(["climb", spec_id(tr.spec), rendered]), cl is not None and len(leaves(cl)) >= 5, agree)
        if agree:
            continue
        nbad_impl += 1
        ctx.stat("climb_vs_impl_disagreements")
        if in_scope or not T.overlaps():
            # no overlapping spellings: the theorem's hypothesis (or its analogue outside the covered shapes) holds
            ctx.violation("climb:%s:%r" % (spec_id(tr.spec), rendered),
                          "infix_notation table %s (no overlapping spellings) on %r (tokens %r): implementation %s, precedence climbing "
                          "over the tokens (Coq Climb.climb_all) gives %r%s" % (
                              spec_id(tr.spec), rendered, toks, describe_rv(rv), cl,
                              " [the table meets the hypotheses of C16_climb_partial]" if in_scope else ""),
                          {"kind": "oracle", "spec": tr.spec, "input": rendered, "mode": ["none"]})
        elif res["problems"]:
            # overlapping spellings: must be explained by one of the F-16 keys (anything else gets a fresh key and alarms)
            report_problems(ctx, tr, rendered, res, ref_agrees=None, shrink=False)


def prewrapped_opt_tables(ctx):
    """infix_notation wraps a right-associative unary operator in Opt itself unless the caller already passed an Opt: a table
    written with Opt(op) must parse exactly like the same table written with op (implementation-side metamorphic check)"""
    import pyparsing as pp
    from tools.props.c04 import guarded

    def run(e, s):
        try:
            return ("ok", e.parse_string(s, parse_all=True).as_list())
        except pp.ParseBaseException as x:
            return (type(x).__name__, x.loc)
        except RecursionError:
            return ("RecursionError",)
    num = lambda: pp.Word("0123456789")
    tables = [("unary +/- over * over +", lambda wrap: [(wrap(pp.one_of("+ -")), 1, pp.OpAssoc.RIGHT), ("*", 2, pp.OpAssoc.LEFT), ("+", 2, pp.OpAssoc.LEFT)]),
              ("unary ! below **", lambda wrap: [("**", 2, pp.OpAssoc.RIGHT), (wrap(pp.Literal("!")), 1, pp.OpAssoc.RIGHT)]),
              ("only a unary level", lambda wrap: [(wrap(pp.Literal("-")), 1, pp.OpAssoc.RIGHT)])]
    for name, mk in tables:
        bare = pp.infix_notation(num(), mk(lambda o: o))
        wrapped = pp.infix_notation(num(), mk(lambda o: pp.Opt(o)))
        for inp in ("7", "- 7", "1 + 2 * 3", "- 1 + - 2", "2 ** ! 3", "- - 4", "1 +"):
            a = guarded(lambda: run(bare, inp), 3.0)
            b = guarded(lambda: run(wrapped, inp), 3.0)
            ctx.case("prewrapped-opt:%s|%r" % (name, inp), True, True)
            if a != b:
                ctx.violation("prewrapped-opt:%s|%r" % (name, inp),
                              "infix_notation table (%s): with the unary operator passed as Opt(op) %r gives %r, with the bare operator %r" % (name, inp, b, a),
                              {"kind": "prewrapped-opt"})


def correspond(ctx):
    corr.ensure_driver()
    prewrapped_opt_tables(ctx)
    rng = ctx.rng
    n_random = 44 if not ctx.thorough else 400
    specs = make_tables(ctx, rng, n_random)
    ng, nb = (7, 7) if not ctx.thorough else (10, 10)
    _, runs, cases = run_tables(ctx, specs, ng, nb, with_model=True)
    run_climb_tie(ctx, runs, cases)
    run_witnesses(ctx)
    shown = 0
    for (ti, ii), (inp, res) in sorted(cases.items()):
        if res["oracle"][0] == "ok" and res["rv"][0] == "ok" and len(res["oracle"][2]["levels"]) >= 2 and shown < 4 and ii == 1:
            shown += 1
            ctx.sample({"table": spec_id(runs[ti].spec), "input": inp, "impl": res["rv"][1], "value": evaluate(runs[ti].T, res["oracle"][1])})


def search(ctx, reasons):
    """widened search on the implementation only: other seeds, bigger tables, longer expressions"""
    import random
    for seed in range(1, 5 if not ctx.thorough else 25):
        sub = vlib.Ctx(PROP, ctx.tier, ctx.seed * 1000 + seed)
        sub.known = ctx.known
        specs = make_tables(sub, sub.rng, 60, max_levels=6)
        run_tables(sub, specs, 8, 8, with_model=False, budget=COST_BUDGET * 2)
        ctx.stat("search_cases", sub.evaluations)
        for v in sub.violations:
            ctx.violation(v["key"], v["what"], v["replay"])
        if sub.violations:
            return


def replay(ctx, obj):
    r = obj["replay"]
    if r.get("kind") == "prewrapped-opt":
        c2 = vlib.Ctx(PROP, "quick", 0)
        c2.known = {}
        prewrapped_opt_tables(c2)
        for v in c2.violations:
            print(v["what"])
        return not c2.violations
    if r.get("kind") in ("oracle", "memo"):
        tr = TableRun(r["spec"])
        res = check_input(tr, r["input"])
        print("table         :", spec_id(r["spec"]))
        print("input         :", repr(r["input"]))
        print("implementation:", describe_rv(res["rv"]))
        print("oracle        :", res["oracle"][:2])
        for p in res["problems"]:
            print("problem       :", p)
        return not res["problems"]
    if r.get("kind") == "construct":
        try:
            TableRun(r["spec"])
            return True
        except BaseException as e:
            print("infix_notation(%s) raises %s" % (spec_id(r["spec"]), type(e).__name__))
            return False
    print("replay names a broken proof/correspondence obligation: %r" % (r,))
    return False
