"""C12 — grammar objects have value semantics; operator sugar means what is documented."""
from tools import vlib
from tools.harness import gen, corr, pcommon, build, dump, observe

PROP = "C12"
GEN = ["gen_ops", "gen_sugar"]
RULE = ("construction programs: a pool of expressions shared between several composites; random sequences of + | ^ & ~ - * [] ... "
        "copy() expr() expr('name') set_results_name(), interleaved with parses of the composites (which streamline them); before and "
        "after every step each pool member's behaviour (outcome on 12 inputs) and its dumped structure must be unchanged; a copy must "
        "parse like its original; the sugar table (expr*n, expr[m,n], [...], [1,...], [n,...], [...:stop], expr|'', a+...+b, "
        "associativity of + | ^) is compared both as dumped object graphs after streamline and by parsing both sides; the Coq elaboration "
        "of every operator form (Model/Sugar.v: e*n, e[n], e[m,n], e*(m,n), e[...,n], e[...], e[n,...], e[...:stop], e|'', a|b, a+...+b, the three "
        "spellings of a 3-sequence / 3-alternation, and the documented expansions) x operands {Literal, Word, Keyword, Group, Opt, "
        "OneOrMore, named token, sequence, alternation, White, own whitespace set, leave_whitespace, ignore} is compared node by node "
        "(flags, children, sharing) with the dump of the real streamlined object; the closed counter-examples of Props/C12.v are "
        "replayed on the real code; the extracted "
        "model is compared with the implementation on the composites; non-trivial = a pool member used in >= 2 composites")
TRUSTED = pcommon.TRUSTED_PARSE

INPUTS = ["", "a", "ab", "a b", "ab ab", " a", "a,b", "aab", "ba", "a a a a", "(a)", "ab,ab ,a", ",a", "\na", ",ab ,a", "\nab a", "a\nb", "\tab,b", "\n ", " \nab", "/*c*/a", "a /*c*/ b", "#ab", "/* c */ ab,ab"]


def pool():
    import pyparsing as pp
    return [
        ("lit", lambda: pp.Literal("a")), ("word", lambda: pp.Word("ab")), ("kw", lambda: pp.Keyword("ab")), ("seq", lambda: pp.Literal("a") + pp.Literal("b")),
        ("alt", lambda: pp.Literal("ab") | pp.Literal("a")), ("rep", lambda: pp.OneOrMore(pp.Literal("a"))), ("grp", lambda: pp.Group(pp.Word("ab") + pp.Opt(","))),
        ("named", lambda: pp.Word("ab")("n")), ("notin", lambda: pp.CharsNotIn(", ")), ("white", lambda: pp.White(" ")), ("act", lambda: pp.Word("ab").add_parse_action(lambda t: t[0].upper())),
        ("fwd", lambda: _fwd()), ("comb", lambda: pp.Combine(pp.Literal("a") + pp.Literal("b"))), ("lws", lambda: (pp.Literal("a") + pp.Literal("b")).leave_whitespace()),
        ("or", lambda: pp.Literal("a") ^ pp.Literal("ab")), ("each", lambda: pp.Literal("a") & pp.Literal("b")), ("wsx", lambda: pp.Word("ab").set_whitespace_chars(" ,")),
        ("lineend", lambda: pp.LineEnd()), ("white", lambda: pp.White(" ")), ("linestart", lambda: pp.LineStart()),
        ("linestart-seq", lambda: pp.LineStart() + pp.Word("ab")), ("linestart-grp", lambda: pp.Group(pp.Combine(pp.LineStart() + pp.WordStart("ab")))),
    ]


def _fwd():
    import pyparsing as pp
    f = pp.Forward()
    f <<= pp.Group("(" + pp.ZeroOrMore(f) + ")") | pp.Word("ab")
    return f


def behaviour(e):
    import pyparsing as pp
    out = []
    spins = 0
    for s in INPUTS:
        if spins >= 2:
            out.append(("div",))        # an element that spins (repetition of something nullable) spins on every input: do not wait 24 times
            continue
        try:
            r = _one_parse(e, s)
            if r == "timeout":
                spins += 1
                out.append(("div",))
                continue
            out.append(("ok", r.as_list(), sorted(r.as_dict().items(), key=repr)))
        except pp.ParseBaseException as x:
            out.append(("err", type(x).__name__, x.loc))
        except RecursionError:
            out.append(("div",))
        except Exception as x:
            out.append(("other", type(x).__name__))
    return out


def _one_parse(e, s):
    """one parse under its own short alarm (the real parser loops forever on a repetition whose body matches empty)"""
    import signal

    def on(sig, frm):
        raise _T()
    old = signal.signal(signal.SIGPROF, on)
    try:
        try:
            signal.setitimer(signal.ITIMER_PROF, 0.4, 0.25)
            return e.parse_string(s)
        finally:
            signal.setitimer(signal.ITIMER_PROF, 0)
    except _T:
        return "timeout"
    finally:
        signal.signal(signal.SIGPROF, old)


def structure(e):
    """dump of the object graph (class, flags, children) — independent of whether e has been streamlined is NOT expected: the
    operand's own structure may be flattened by its own streamline(), which is why behaviour is the primary observation; the
    structure is compared only for attributes that streamline does not touch"""
    keys = ("resultsName", "skipWhitespace", "whiteChars", "keepTabs", "callDuringTry", "modalResults", "customName")
    return tuple((k, repr(getattr(e, k, None))) for k in keys) + (len(e.parseAction), len(e.ignoreExprs), type(e).__name__)


def apply_op(rng, pp, a, b):
    ops = ["add", "or", "xor", "and", "inv", "sub", "mul2", "get13", "ell", "get1", "call", "callname", "copy", "setname", "radd", "oremp", "skip", "stop",
           "copy.ignore", "call.ws", "callname.ignore", "copy.leavews", "copy.action"]
    op = rng.choice(ops)
    if op == "add": return op, a + b
    if op == "or": return op, a | b
    if op == "xor": return op, a ^ b
    if op == "and": return op, a & b
    if op == "inv": return op, ~a + b
    if op == "sub": return op, a - b
    if op == "mul2": return op, a * 2
    if op == "get13": return op, a[1, 3]
    if op == "ell": return op, a[...]
    if op == "get1": return op, a[1, ...]
    if op == "call": return op, a()
    if op == "callname": return op, a("z*")
    if op == "copy": return op, a.copy()
    if op == "setname": return op, a.set_results_name("q")
    if op == "radd": return op, "a" + a
    if op == "oremp": return op, a | ""
    if op == "skip": return op, a + ... + b
    if op == "stop": return op, a[...:b]
    # a copy is configured afterwards: the original (and every other composite holding it) must not notice
    if op == "copy.ignore": return op, a.copy().ignore(pp.c_style_comment)
    if op == "call.ws": return op, a().set_whitespace_chars(" ,")
    if op == "callname.ignore": return op, a("z*").ignore("#")
    if op == "copy.leavews": return op, a.copy().leave_whitespace()
    if op == "copy.action": return op, a.copy().add_parse_action(lambda t: ["X"])
    raise ValueError(op)


class _T(BaseException):
    pass


def guarded(f, t=3.0):
    import signal

    def on(sig, frm):
        raise _T()
    old = signal.signal(signal.SIGPROF, on)
    try:
        try:
            signal.setitimer(signal.ITIMER_PROF, t, 0.25)
            return f()
        finally:
            signal.setitimer(signal.ITIMER_PROF, 0)
    except _T:
        return "timeout"
    finally:
        signal.signal(signal.SIGPROF, old)


def program(ctx, rng, steps):
    """one construction program; returns violations [(key, what, replay)]"""
    import pyparsing as pp
    members = [(n, mk()) for n, mk in pool()]
    before = {n: (behaviour(e), structure(e)) for n, e in members}
    composites, trace, used = [], [], {}
    bad = []
    for i in range(steps):
        (na, a), (nb, b) = rng.choice(members), rng.choice(members)
        try:
            op, c = apply_op(rng, pp, a, b)
        except Exception as x:
            trace.append((na, nb, "raised " + type(x).__name__))
            continue
        trace.append((na, op, nb))
        used[na] = used.get(na, 0) + 1
        used[nb] = used.get(nb, 0) + 1
        composites.append(c)
        if rng.random() < 0.6:
            behaviour(c)            # use the composite: parse_string streamlines it and, recursively, its operands
        if rng.random() < 0.3 and len(composites) > 1:
            members.append(("c%d" % i, c))
            before["c%d" % i] = (behaviour(c), structure(c))
        for n, e in members:
            now = (behaviour(e), structure(e))
            if now != before[n]:
                what = "behaviour" if now[0] != before[n][0] else "attributes"
                # F-12c: ParserElement.copy() of a ParseElementEnhance / Forward is shallow (the copy shares `.expr`), and ignore()
                # recurses into `.expr` in place - so ignore() on the COPY of a wrapper reaches the original's content
                wrapper_ignore = trace[-1][1] in ("copy.ignore", "callname.ignore") and any(hasattr(x, "expr") and not hasattr(x, "exprs") for x in a.visit_all())
                bad.append(("operand-changed:ignore-on-copy-of-wrapper-reaches-shared-content" if wrapper_ignore else "operand-changed:%s:%s" % (n, what),
                            "after %r the pool member %r changed its %s: before %r, after %r" % (
                                trace[-3:], n, what, [x for x, y in zip(before[n][0], now[0]) if x != y][:2] or before[n][1],
                                [y for x, y in zip(before[n][0], now[0]) if x != y][:2] or now[1]),
                            {"kind": "program", "seed_trace": trace[-6:]}))
                before[n] = now
    return bad, sum(1 for v in used.values() if v >= 2)


def copy_checks(ctx):
    for n, mk in pool():
        e = mk()
        for how, c in (("copy()", e.copy()), ("expr()", e()), ("expr('k')", e("k"))):
            b0, b1 = behaviour(e), behaviour(c)
            # names differ for expr('k'): compare token lists and outcomes only
            strip = lambda bs: [x[:2] if x[0] == "ok" else x for x in bs]
            ctx.case("copy:%s:%s" % (n, how), True, True)
            if strip(b0) != strip(b1):
                diff = [(s, x, y) for s, x, y in zip(INPUTS, strip(b0), strip(b1)) if x != y][:2]
                ctx.violation("copy-differs:linestart-led-whitespace" if n.startswith("linestart") else "copy-differs:%s" % n, "%s of pool member %r parses differently: %r" % (how, n, diff),
                              {"kind": "copy", "member": n})


def composite_copy_checks(ctx):
    """a copy of a COMPOSITE parses identically to the composite: every pool member as first / second operand of every binary
    operator and wrapper (the composite inherits whitespace settings from its operands; copy() must not reset them)"""
    import pyparsing as pp
    strip = lambda bs: [x[:2] if x[0] == "ok" else x for x in bs]
    shapes = [("m + 'b'", lambda m: m + pp.Literal("b")), ("'a' + m", lambda m: pp.Literal("a") + m), ("m | 'b'", lambda m: m | pp.Literal("b")),
              ("m ^ 'b'", lambda m: m ^ pp.Literal("b")), ("m & 'b'", lambda m: m & pp.Literal("b")), ("m - 'b'", lambda m: m - pp.Literal("b")),
              ("Group(m + 'b')", lambda m: pp.Group(m + pp.Literal("b"))), ("Opt(m) + 'b'", lambda m: pp.Opt(m) + pp.Literal("b")),
              ("(m + 'b')[1, ...]", lambda m: (m + pp.Literal("b"))[1, ...]), ("(m + 'b') + 'a'", lambda m: (m + pp.Literal("b")) + pp.Literal("a")),
              ("m*2", lambda m: m * 2), ("Suppress(m) + 'b'", lambda m: pp.Suppress(m) + pp.Literal("b"))]
    for n, mk in pool():
        for sname, shape in shapes:
            for used_first in (False, True):
                try:
                    c = shape(mk())
                except Exception:
                    continue
                if used_first:
                    behaviour(c)          # streamlined before it is copied
                hows = (("copy()", lambda: c.copy()), ("expr()", lambda: c()), ("expr('k')", lambda: c("k")),
                        ("set_results_name('k')", lambda: c.set_results_name("k")), ("copy of enclosing Group", lambda: pp.Group(c).copy()))
                for how, cp in (hows[:1] if used_first else hows):
                    try:
                        d = cp()
                    except Exception as x:
                        ctx.violation("composite-copy-raises:%s:%s" % (n, sname), "%s of %s with m=%s raises %s" % (how, sname, n, type(x).__name__),
                                      {"kind": "composite-copy"})
                        continue
                    b0 = strip(behaviour(pp.Group(c) if how.startswith("copy of") else c))
                    b1 = strip(behaviour(d))
                    ctx.case("composite-copy:%s:%s:%s:%d" % (n, sname, how, used_first), True, True)
                    if b0 != b1 and "timeout" not in (b0, b1):
                        diff = [(s, x, y) for s, x, y in zip(INPUTS, b0, b1) if x != y][:2]
                        # F-12b: LineStart removes the newline from its whitespace set but keeps copyDefaultWhiteChars == True; enclosing
                        # elements inherit both, so their copies regain the newline (the suite relies on this: not repaired)
                        ctx.violation("copy-differs:linestart-led-whitespace" if n.startswith("linestart") else "composite-copy-differs:%s:%s" % (n, sname),
                                      "%s of the composite %s with m = pool member %r parses differently from the composite%s: (input, original, copy) %r" % (
                                          how, sname, n, " (after it was used)" if used_first else "", diff), {"kind": "composite-copy"})


def compose_before_after_use(ctx):
    """a composite must not depend on WHEN it was built: before or after its operand was used (and thereby streamlined).
    (F-12d, fixed in /repo 93bbef3: MatchFirst/Or computed skipWhitespace differently in __init__ and in streamline())"""
    import pyparsing as pp
    strip = lambda bs: [x[:2] if x[0] == "ok" else x for x in bs]
    extra = [("white-alt", lambda: pp.White(" ") | pp.Word("ab")), ("white-or", lambda: pp.White(" ") ^ pp.Word("ab")),
             ("lineend-alt", lambda: pp.LineEnd() | pp.Word("ab")), ("nested-alt", lambda: (pp.White(" ") | pp.Literal("a")) | pp.Word("ab")),
             ("notin-alt", lambda: pp.CharsNotIn(",") | pp.Literal("a")), ("seq-alt", lambda: (pp.Literal("a") + pp.Literal("b")) | pp.Literal("a"))]
    shapes = [("m + 'x'", lambda m: m + pp.Literal("x")), ("Group(m) + 'b'", lambda m: pp.Group(m) + pp.Literal("b")), ("Opt(m) + 'x'", lambda m: pp.Opt(m) + pp.Literal("x")),
              ("(m + 'x')[1, ...]", lambda m: (m + pp.Literal("x"))[1, ...]), ("m('k') + 'x'", lambda m: m("k") + pp.Literal("x")),
              ("F <<= m; F + 'x'", lambda m: pp.Forward(m) + pp.Literal("x")), ("m | 'x'", lambda m: m | pp.Literal("x"))]
    inputs_extra = [" x", " ab x", "a x", "\nx", " a b", "ab x", "  x"]
    global INPUTS
    saved = INPUTS
    INPUTS = list(saved) + inputs_extra
    try:
        for n, mk in list(pool()) + extra:
            for sname, shape in shapes:
                try:
                    m = mk()
                    c1 = shape(m)
                    behaviour(m)                  # parse_string streamlines m
                    c2 = shape(m)
                except Exception:
                    continue
                b1, b2 = strip(behaviour(c1)), strip(behaviour(c2))
                ctx.case("compose-before-after:%s:%s" % (n, sname), True, True)
                if b1 != b2:
                    diff = [(s_, x, y) for s_, x, y in zip(INPUTS, b1, b2) if x != y][:2]
                    ctx.violation("compose-before-after-use:%s:%s" % (n, sname),
                                  "%s with m = %r: built before m was first used it parses differently from the same composite built afterwards: "
                                  "(input, before, after) %r" % (sname, n, diff), {"kind": "compose-before-after"})
    finally:
        INPUTS = saved


def sugar_table():
    import pyparsing as pp
    A = lambda: pp.Literal("a")
    B = lambda: pp.Literal("b")
    W = lambda: pp.Word("ab")
    G = lambda: pp.Group(pp.Word("ab") + pp.Opt(","))
    return [
        ("expr*3", lambda: W() * 3, lambda: (lambda w: pp.And([w, w, w]))(W())),
        ("expr[2,4]", lambda: A()[2, 4], lambda: (lambda a: pp.And([a, a]) + pp.Opt(a + pp.Opt(a)))(A())),
        ("expr[...]", lambda: W()[...], lambda: pp.ZeroOrMore(W())),
        ("expr[0,...]", lambda: W()[0, ...], lambda: pp.ZeroOrMore(W())),
        ("expr[1,...]", lambda: W()[1, ...], lambda: pp.OneOrMore(W())),
        ("expr[2,...]", lambda: A()[2, ...], lambda: (lambda a: a * 2 + pp.ZeroOrMore(a))(A())),
        ("expr[...:stop]", lambda: W()[...: B()], lambda: pp.ZeroOrMore(W(), stop_on=B())),
        ("expr|''", lambda: A() | "", lambda: pp.Opt(A())),
        ("a+...+b", lambda: A() + ... + B(), lambda: (lambda b: A() + pp.SkipTo(b)("_skipped*") + b)(B())),
        ("(a+b)+c", lambda: (A() + B()) + W(), lambda: pp.And([A(), B(), W()])),
        ("a+(b+c)", lambda: A() + (B() + W()), lambda: pp.And([A(), B(), W()])),
        ("(a|b)|c", lambda: (A() | B()) | W(), lambda: pp.MatchFirst([A(), B(), W()])),
        ("(a^b)^c", lambda: (A() ^ B()) ^ W(), lambda: pp.Or([A(), B(), W()])),
        # the same equivalences where the sequence is an operand of another combinator that looks at its flags
        # (Each files an operand that may match empty as optional; Opt / alternation / repetition around it)
        ("((a?+b?)+c)&d", lambda: ((pp.Opt(A()) + pp.Opt(B())) + pp.Literal("c")) & pp.Literal("d"),
         lambda: pp.And([pp.Opt(A()), pp.Opt(B()), pp.Literal("c")]) & pp.Literal("d")),
        ("(a?+(b?+c))&d", lambda: (pp.Opt(A()) + (pp.Opt(B()) + pp.Literal("c"))) & pp.Literal("d"),
         lambda: pp.And([pp.Opt(A()), pp.Opt(B()), pp.Literal("c")]) & pp.Literal("d")),
        ("(a?*2+c)&d", lambda: (pp.Opt(A()) * 2 + pp.Literal("c")) & pp.Literal("d"),
         lambda: (lambda o: pp.And([o, o, pp.Literal("c")]))(pp.Opt(A())) & pp.Literal("d")),
        ("((a?+b?)+c)[...]", lambda: ((pp.Opt(A()) + pp.Opt(B())) + pp.Literal("c"))[...], lambda: pp.ZeroOrMore(pp.And([pp.Opt(A()), pp.Opt(B()), pp.Literal("c")]))),
        ("((a?+b?)+c)|a", lambda: ((pp.Opt(A()) + pp.Opt(B())) + pp.Literal("c")) | A(), lambda: pp.MatchFirst([pp.And([pp.Opt(A()), pp.Opt(B()), pp.Literal("c")]), A()])),
        ("((a|b)|c)&d", lambda: ((A() | B()) | pp.Literal("c")) & pp.Literal("d"), lambda: pp.MatchFirst([A(), B(), pp.Literal("c")]) & pp.Literal("d")),
        # other counts / operands; the right-hand sides are the documented meanings spelled with `+`, Opt, ZeroOrMore
        # ("n-fold sequence", "m copies plus up to n-m optional ones" as a FLAT sequence of Opt)
        ("expr*1", lambda: W() * 1, lambda: W()),
        ("expr*2==e+e", lambda: W() * 2, lambda: (lambda w: w + w)(W())),
        ("expr*3==e+e+e", lambda: W() * 3, lambda: (lambda w: w + w + w)(W())),
        ("expr[3]", lambda: A()[3], lambda: (lambda a: a + a + a)(A())),
        ("group*2", lambda: G() * 2, lambda: (lambda g: g + g)(G())),
        ("named*2", lambda: W()("n") * 2, lambda: (lambda w: w + w)(W()("n"))),
        ("expr[0,2]", lambda: A()[0, 2], lambda: (lambda a: pp.Opt(a) + pp.Opt(a))(A())),
        ("expr[...,2]", lambda: A()[..., 2], lambda: (lambda a: pp.Opt(a) + pp.Opt(a))(A())),
        ("expr[1,3]", lambda: W()[1, 3], lambda: (lambda w: w + pp.Opt(w) + pp.Opt(w))(W())),
        ("expr[2,4]flat", lambda: A()[2, 4], lambda: (lambda a: pp.And([a, a, pp.Opt(a), pp.Opt(a)]))(A())),
        ("group[1,2]", lambda: G()[1, 2], lambda: (lambda g: g + pp.Opt(g))(G())),
        ("expr[3,...]", lambda: A()[3, ...], lambda: (lambda a: a + a + a + pp.ZeroOrMore(a))(A())),
        ("opt[1,...]", lambda: (pp.Opt(A()) + B())[1, ...], lambda: pp.OneOrMore(pp.Opt(A()) + B())),
        ("expr[1,...:stop]", lambda: W()[1, ...: B()], lambda: pp.OneOrMore(W(), stop_on=B())),
        ("group|''", lambda: G() | "", lambda: pp.Opt(G())),
        ("w+...+b", lambda: W() + ... + B(), lambda: (lambda b: W() + pp.SkipTo(b)("_skipped*") + b)(B())),
    ]


SUGAR_INPUTS = INPUTS + ["a a", "a a a", "a a a a a", "ab ab b", "a xx b", "ab", "b", "a b ab", "aaa", "abab ab",
                         "c d", "c c d", "c d c", "a c d b c", "d a b c", "a b c d", "c", "a c b c", "d c c"]


def sugar_checks(ctx):
    import pyparsing as pp
    for name, lhs, rhs in sugar_table():
        l, r = lhs(), rhs()
        outs = []
        for s in SUGAR_INPUTS:
            a = observe.run_real(l, dump.Dumper(), s, ("none",), ("parse", False))
            b = observe.run_real(r, dump.Dumper(), s, ("none",), ("parse", False))
            outs.append((s, corr.proj_all(a), corr.proj_all(b)))
        ctx.case("sugar:" + name, True, True)
        diff = [(s, a, b) for s, a, b in outs if (a[:3] if a[0] == "err" else a) != (b[:3] if b[0] == "err" else b)]
        if diff:
            ctx.violation("sugar:%s" % name, "%s differs from its documented expansion on %r: %r vs %r" % (name, diff[0][0], diff[0][1], diff[0][2]),
                          {"kind": "sugar", "name": name})
        # dumped object graphs after streamline (node ids are assigned in traversal order, so equal graphs dump equally)
        try:
            l2, r2 = lhs(), rhs()
            l2.streamline(); r2.streamline()
            dl, dr = dump.Dumper().dump(l2), dump.Dumper().dump(r2)
            import re
            norm = lambda t: re.sub(r"\(A (\d+) ", "(A 0 ", t[0])      # identities differ; slen (str length) may too
            norm2 = lambda t: re.sub(r" \d+\)$", ")", norm(t))
            ctx.stat("sugar_structures_compared")
            if re.sub(r"\) \d+ \d+\)", ")", norm(dl)) != re.sub(r"\) \d+ \d+\)", ")", norm(dr)):
                ctx.stat("sugar_structures_differ_" + name.replace(" ", ""))
        except dump.Unsupported:
            pass


# ---------------------------------------------------------------------------------------------------------------
# the operator sugar INSIDE the model: coq/Model/Sugar.v elaborates every operator form into a model `expr`; here the
# elaboration (evaluated by coqc, printed by Sugar.sgx_expr in the format of tools/harness/dump.py) is compared node by
# node - flags, children, sharing of operand objects - with the dump of the real object the operator builds, after
# streamline().  The operands are handed to the elaboration as dumped; the nodes the operator creates carry symbolic
# identities (>= 5000) that are unified with the real ones (the same matcher C16 uses for infix_elab).
# ---------------------------------------------------------------------------------------------------------------
SUGAR_PREAMBLE = """From Coq Require Import List ZArith NArith Bool String.
From PP Require Import Model.Str Model.Results Model.Prog Model.Core Model.Infix Model.Sugar.
Import ListNotations.
Definition ids_ (c : nat) : nat * nat := (5000 + c, 0).
Definition A_ (n : nat) (rs : option str) (mo asl sk : bool) (wh : list char) (cp mi cu hm ct : bool) (sl : nat) : attrs :=
  {| nid := n; rsname := rs; modalr := mo; aslist := asl; skipws := sk; white := wh; callpre := cp; mayidx := mi;
     custom := cu; hasmsg := hm; acts := []; calltry := ct; slen := sl |}.
"""


class _NotExpressible(Exception):
    pass


def _cb(x):
    return "true" if x == "1" else "false"


def _cchars(l):
    return "[" + ";".join(l) + "]%N"


def _conat(x):
    return "None" if x == "N" else "(Some %s)" % x


def _attrs_coq(A):
    if A[0] != "A" or A[11] != []:
        raise _NotExpressible("parse actions")
    rs = "None" if A[2] == "N" else "(Some %s)" % _cchars(A[2][1:])
    return "(A_ %s %s %s %s %s %s %s %s %s %s %s %s)" % (A[1], rs, _cb(A[3]), _cb(A[4]), _cb(A[5]), _cchars(A[6]), _cb(A[7]), _cb(A[8]),
                                                          _cb(A[9]), _cb(A[10]), _cb(A[12]), A[13])


def _sx_to_coq(sx):
    """dumped operand (parsed S-expression) -> Gallina term of type expr"""
    k = sx[0]
    A = _attrs_coq(sx[1])
    I = "[%s]" % "; ".join(_sx_to_coq(x) for x in sx[2])
    if k == "T":
        t = sx[3]
        if t == "empty": tk = "KEmpty"
        elif t == "nomatch": tk = "KNoMatch"
        elif t == "lineend": tk = "KLineEnd"
        elif t[0] == "lit": tk = "(KLit %s)" % _cchars(t[1])
        elif t[0] == "kw": tk = "(KKeyword %s %s %s %s)" % (_cchars(t[1]), _cchars(t[2]), _cb(t[3]), _cchars(t[4]))
        elif t[0] == "word": tk = "(KWord %s %s %s %s %s %s %s)" % (_cchars(t[1]), _cchars(t[2]), t[3], _conat(t[4]), _cb(t[5]), _cb(t[6]), _cb(t[7]))
        elif t[0] == "notin": tk = "(KNotIn %s %s %s)" % (_cchars(t[1]), t[2], _conat(t[3]))
        elif t[0] == "white": tk = "(KWhite %s %s %s)" % (_cchars(t[1]), t[2], _conat(t[3]))
        else:
            raise _NotExpressible("token %r" % (t,))
        return "(Tok %s %s %s)" % (A, I, tk)
    if k == "N" and sx[3] in ("and", "mf", "or"):
        kind = {"and": "NAnd", "mf": "NMatchFirst", "or": "NOr"}[sx[3]]
        return "(Nary %s %s %s [%s])" % (A, I, kind, "; ".join(_sx_to_coq(x) for x in sx[4]))
    if k == "E":
        ek = sx[3]
        if ek == "suppress": e = "ESuppress"
        elif ek == "not": e = "ENot"
        elif ek == "fb": e = "EFollowedBy"
        elif ek == "pass": e = "EPass"
        elif ek[0] == "group": e = "(EGroup %s)" % _cb(ek[1])
        elif ek[0] == "opt" and ek[1] == "N": e = "(EOpt None)"
        else:
            raise _NotExpressible("enhance %r" % (ek,))
        return "(Enh %s %s %s %s)" % (A, I, e, _sx_to_coq(sx[4]))
    if k == "R":
        return "(Rep %s %s %s %s %s)" % (A, I, _cb(sx[3]), _sx_to_coq(sx[4]), "None" if sx[5] == "N" else "(Some %s)" % _sx_to_coq(sx[5]))
    raise _NotExpressible("node %r" % (k,))


def sugar_operands():
    """(name, maker): Literal, Word, a Group, an Opt, a named token, a sequence and an alternation (streamline splices them),
    elements with their own whitespace settings (copied by And / Opt / repetition / SkipTo), White (special-cased by And and
    MatchFirst), an element with an ignore expression"""
    import pyparsing as pp
    return [("lit", lambda: pp.Literal("a")), ("word", lambda: pp.Word("ab")), ("group", lambda: pp.Group(pp.Word("ab") + pp.Opt(","))),
            ("opt", lambda: pp.Opt(pp.Literal("a"))), ("named", lambda: pp.Word("ab")("n")), ("seq", lambda: pp.Literal("a") + pp.Literal("b")),
            ("alt", lambda: pp.Literal("ab") | pp.Literal("a")), ("white", lambda: pp.White(" ")), ("wsx", lambda: pp.Word("ab").set_whitespace_chars(" ,")),
            ("lws", lambda: pp.Literal("a").leave_whitespace()), ("kw", lambda: pp.Keyword("ab")), ("rep", lambda: pp.OneOrMore(pp.Literal("a"))),
            ("ign", lambda: pp.Word("ab").ignore(pp.Literal("#")))]


def sugar_forms(thorough=False):
    """(name, arity, real construction, Gallina term of the elaboration with {0} {1} {2} = operands, {cdw} = copyDefaultWhiteChars of
    the SkipTo target).  Both the sugar forms and the documented expansions they are proved equivalent to are listed: each is tied
    to the real object it stands for."""
    import pyparsing as pp
    S = "DW_ ids_"
    F = []
    for n in (0, 1, 2, 3, 5):
        F.append(("e*%d" % n, 1, lambda e, n=n: e * n, "sg_mul %s %d {0}" % (S, n)))
        if thorough or n in (0, 2):
            F.append(("e[%d]" % n, 1, lambda e, n=n: e[n], "sg_item %s (KN %d) None {0}" % (S, n)))
    for m, n in ((2, 4), (0, 1), (0, 2), (0, 3), (1, 2), (1, 3), (2, 3), (3, 3), (1, 1), (0, 0), (3, 5)):
        F.append(("e[%d,%d]" % (m, n), 1, lambda e, m=m, n=n: e[m, n], "sg_range %s %d %d {0}" % (S, m, n)))
        if thorough or (m, n) in ((2, 4), (0, 2), (1, 1)):
            F.append(("e*(%d,%d)" % (m, n), 1, lambda e, m=m, n=n: e * (m, n), "sg_times %s %d (Some %d) {0}" % (S, m, n)))
    F.append(("e[...,2]", 1, lambda e: e[..., 2], "sg_item %s (KUpto 2) None {0}" % S))
    F.append(("e[...]", 1, lambda e: e[...], "sg_star %s {0}" % S))
    F.append(("e[0,...]", 1, lambda e: e[0, ...], "sg_star0 %s {0}" % S))
    F.append(("e[1,...]", 1, lambda e: e[1, ...], "sg_plus %s {0}" % S))
    for n in (2, 3, 4):
        F.append(("e[%d,...]" % n, 1, lambda e, n=n: e[n, ...], "sg_atleast %s %d {0}" % (S, n)))
        F.append(("e*%d+ZeroOrMore(e)" % n, 1, lambda e, n=n: e * n + pp.ZeroOrMore(e), "x_atleast %s %d {0}" % (S, n)))
        F.append(("e+..+e (%d)" % n, 1, lambda e, n=n: _chain(e, n), "x_chain %s %d {0}" % (S, n)))
    F.append(("e*(1,None)", 1, lambda e: e * (1, None), "sg_times %s 1 None {0}" % S))
    F.append(("ZeroOrMore(e)", 1, lambda e: pp.ZeroOrMore(e), "c_zom ids_ cREP {0}"))
    F.append(("OneOrMore(e)", 1, lambda e: pp.OneOrMore(e), "c_oom ids_ cREP {0}"))
    F.append(("Opt(e)", 1, lambda e: pp.Opt(e), "c_opt ids_ (cOPT 0) {0}"))
    F.append(("e|''", 1, lambda e: e | "", "sg_or_empty %s {0}" % S))
    F.append(("And([e]*2+[Opt(e)]*2)", 1, lambda e: pp.And([e, e, pp.Opt(e), pp.Opt(e)]), "x_range_flat %s 2 2 {0}" % S))
    F.append(("e[...:b]", 2, lambda e, b: e[...:b], "sg_until %s {0} {1}" % S))
    F.append(("e[0,...:b]", 2, lambda e, b: e[0, ...:b], "sg_item %s (KFrom 0) (Some {1}) {0}" % S))
    F.append(("e[1,...:b]", 2, lambda e, b: e[1, ...:b], "sg_item %s (KFrom 1) (Some {1}) {0}" % S))
    F.append(("ZeroOrMore(e,stop_on=b)", 2, lambda e, b: pp.ZeroOrMore(e, stop_on=b), "c_zom_stop ids_ cREP cNOT {0} {1}"))
    F.append(("OneOrMore(e,stop_on=b)", 2, lambda e, b: pp.OneOrMore(e, stop_on=b), "c_oom_stop ids_ cREP cNOT {0} {1}"))
    F.append(("a+...+b", 2, lambda a, b: a + ... + b, "sg_skip %s {cdw} {0} {1}" % S))
    F.append(("a+SkipTo(b)('_skipped*')+b", 2, lambda a, b: a + pp.SkipTo(b)("_skipped*") + b, "x_skip %s {cdw} {0} {1}" % S))
    F.append(("a|b", 2, lambda a, b: a | b, "sg_or %s (Some {1}) {0}" % S))
    F.append(("(a+b)+c", 3, lambda a, b, c: (a + b) + c, "sg_and_left %s {0} {1} {2}" % S))
    F.append(("a+(b+c)", 3, lambda a, b, c: a + (b + c), "sg_and_right %s {0} {1} {2}" % S))
    F.append(("And([a,b,c])", 3, lambda a, b, c: pp.And([a, b, c]), "sg_and_flat %s [{0}; {1}; {2}]" % S))
    F.append(("(a|b)|c", 3, lambda a, b, c: (a | b) | c, "sg_mf_left %s {0} {1} {2}" % S))
    F.append(("a|(b|c)", 3, lambda a, b, c: a | (b | c), "sg_mf_right %s {0} {1} {2}" % S))
    F.append(("MatchFirst([a,b,c])", 3, lambda a, b, c: pp.MatchFirst([a, b, c]), "sg_mf_flat %s [{0}; {1}; {2}]" % S))
    return F


def _chain(e, n):
    r = e
    for _ in range(n - 1):
        r = r + e
    return r


def sugar_elab_cases(ctx):
    """[(label, Gallina term, dumped real root (parsed))]"""
    import pyparsing as pp
    ops = sugar_operands()
    names = [n for n, _ in ops]
    mk = dict(ops)
    import random
    rng = random.Random(ctx.seed + 1207)          # its own stream: the construction programs keep theirs
    # operand tuples: every operand alone; pairs / triples: a fixed diagonal + seeded random ones
    nrand = 6 if not ctx.thorough else 40
    pairs = [(a, "lit") for a in names] + [("word", b) for b in names] + [tuple(rng.choice(names) for _ in range(2)) for _ in range(nrand)]
    triples = [(a, "word", "lit") for a in names] + [("lit", b, "word") for b in names] + [("lit", "word", c) for c in names] + \
              [tuple(rng.choice(names) for _ in range(3)) for _ in range(nrand)]
    out = []
    for fname, arity, real, term in sugar_forms(ctx.thorough):
        for tup in ([(n,) for n in names] if arity == 1 else (pairs if arity == 2 else triples)):
            operands = [mk[n]() for n in tup]
            label = "%s with %s" % (fname, ",".join(tup))
            try:
                obj = real(*operands)
            except Exception as x:
                ctx.stat("sugar_elab_construction_raises")
                continue
            try:
                obj.streamline()
                d = dump.Dumper()
                root_sx, env_sx = d.dump(obj)
                if d.fwd_bodies:
                    continue
                o_terms = [_sx_to_coq(observe.parse_sx(d.expr(o))) for o in operands]
            except (dump.Unsupported, _NotExpressible):
                ctx.stat("sugar_elab_not_expressible")
                continue
            cdw = "true" if operands[-1].copyDefaultWhiteChars else "false"
            out.append((label, "sgx_expr (%s)" % term.format(*o_terms, cdw=cdw), observe.parse_sx(root_sx)))
    return out


def sugar_elab_checks(ctx):
    import pyparsing as pp, os
    from tools.props import c16
    cases = sugar_elab_cases(ctx)
    dw = _cchars([str(ord(c)) for c in sorted(pp.ParserElement.DEFAULT_WHITE_CHARS)])
    pre = SUGAR_PREAMBLE + "Definition DW_ : list char := %s.\n" % dw
    try:
        from concurrent.futures import ThreadPoolExecutor
        CH = 120
        chunks = [cases[i:i + CH] for i in range(0, len(cases), CH)]
        with ThreadPoolExecutor(max_workers=6) as ex:          # independent coqc processes (scratch files named apart)
            parts = list(ex.map(lambda ic: vlib.coq_eval_terms("c12_sugar_%d_%d" % (os.getpid(), ic[0]), pre, [t for _, t, _ in ic[1]], timeout=900),
                                enumerate(chunks)))
        vals = [v for part in parts for v in part]
    except Exception as e:
        ctx.broken("correspondence:sugar_elab evaluation failed (%s: %s)" % (type(e).__name__, str(e)[-300:].replace("\n", " ")))
        return
    nbad = 0
    for (label, _, real), v in zip(cases, vals):
        d = c16.match_structure(c16.coqval_to_sx(v), real)
        ctx.stat("sugar_elab_compared")
        ctx.case("sugar_elab:" + label, True, d is None)
        if d is not None:
            nbad += 1
            if nbad <= 4:
                ctx.broken("correspondence:sugar_elab the elaboration of %s (coq/Model/Sugar.v) differs from the dumped real object: %s" % (label, d[:300]))
    ctx.stat("sugar_elab_mismatches", nbad)


def sugar_witness_checks(ctx):
    """the closed counter-examples of Props/C12.v (C12_sugar_mul_chain_refuted, C12_sugar_and_assoc_flat_refuted,
    C12_sugar_mul_zero_refuted), replayed: the READING (Coq `peg`) of the elaboration over the DUMPED real operand must be what
    the real objects answer - on both sides of each refuted equivalence.  (They are differences between two spellings that the
    documentation equates, on operands with whitespace settings of their own; they are recorded in notes/C12.md, not raised
    as violations: the sides are compared with each other only where the documentation's equivalence is proved.)"""
    import pyparsing as pp

    def mk_e():
        x = pp.Literal("x").set_whitespace_chars("")
        y = pp.Literal("y").set_whitespace_chars("")
        return (x | y) + pp.Literal("z")
    A = lambda: pp.Literal("a")
    S = "DW_ ids_"
    rows = [("e*3", lambda: [mk_e()], lambda e: e * 3, "sg_mul %s 3 {0}" % S, "xz xz xz"),
            ("e+e+e", lambda: [mk_e()], lambda e: e + e + e, "x_chain %s 3 {0}" % S, "xz xz xz"),
            ("e*2", lambda: [mk_e()], lambda e: e * 2, "sg_mul %s 2 {0}" % S, "xz xz"),
            ("And([a,a,e])", lambda: [A(), A(), mk_e()], lambda a, b, c: pp.And([a, b, c]), "sg_and_flat %s [{0}; {1}; {2}]" % S, "a a xz"),
            ("(a+a)+e", lambda: [A(), A(), mk_e()], lambda a, b, c: (a + b) + c, "sg_and_left %s {0} {1} {2}" % S, "a a xz"),
            ("a*0", lambda: [A()], lambda a: a * 0, "sg_mul %s 0 {0}" % S, ""),
            ("(a+a)+a*0", lambda: [A(), A()], lambda a, b: (a + b) + a * 0, "sg_and_left %s {0} {1} (sg_mul %s 0 {0})" % (S, S), "a a")]
    terms, reals = [], []
    for name, mkops, real, term, inp in rows:
        ops = mkops()
        obj = real(*ops)
        obj.streamline()
        d = dump.Dumper()
        d.dump(obj)
        o_terms = [_sx_to_coq(observe.parse_sx(d.expr(o))) for o in ops]
        t = term.format(*o_terms)
        s = vlib.coq_str(inp)
        # the reading, and the parser model (the two differ on And([]): the reading accepts, `_parse` raises)
        terms.append("(peg [] %s 12 (%s) 0, proj (parse (step []) 12 (mkargs (%s) %s 0 true true)))" % (s, t, t, s))
        try:
            r = obj.parse_string(inp)
            reals.append((name, inp, ("ok", _flat(r.as_list()))))
        except pp.ParseException:
            reals.append((name, inp, ("fail",)))
    dw = _cchars([str(ord(c)) for c in sorted(pp.ParserElement.DEFAULT_WHITE_CHARS)])
    pre = SUGAR_PREAMBLE.replace("Model.Infix Model.Sugar.", "Model.Infix Model.Sugar Model.Peg.") + "Definition DW_ : list char := %s.\n" % dw
    try:
        vals = vlib.coq_eval_terms("c12_sugar_witness", pre, terms, timeout=600)
    except Exception as e:
        ctx.broken("correspondence:sugar_witness evaluation failed (%s: %s)" % (type(e).__name__, str(e)[-300:].replace("\n", " ")))
        return
    got = {}
    for (name, inp, real), v in zip(reals, vals):
        rd, ps = v
        view = lambda x: ("ok", ["".join(chr(c) for c in t[1]) for t in x[2]]) if x[0] == "POk" else ("fail",) if x == "PFail" or x[0] == "PFail" else ("other", x)
        ps = ps[1] if isinstance(ps, (list, tuple)) and ps[0] == "Some" else ps
        got[name] = (view(rd), view(ps), real)
        ctx.case("sugar_witness:" + name, True, view(ps) == real)
        if view(ps) != real:
            ctx.broken("correspondence:sugar_witness the parser model of the elaboration of %s on %r answers %r, the real object %r" % (name, inp, view(ps), real))
        if view(rd) != real and name != "a*0":
            ctx.broken("correspondence:sugar_witness the reading of the elaboration of %s on %r is %r, the real object answers %r" % (name, inp, view(rd), real))
    # the refuted equivalences are refuted by the real code exactly as by the model
    expect = {"e*3": "ok", "e+e+e": "fail", "e*2": "fail", "And([a,a,e])": "ok", "(a+a)+e": "fail", "a*0": "fail", "(a+a)+a*0": "ok"}
    for name, want in expect.items():
        if name in got and got[name][2][0] != want:
            ctx.broken("correspondence:sugar_witness the real %s no longer %ss on the witness input (Props/C12.v *_refuted is stale): %r" % (name, want, got[name][2]))
    ctx.stat("sugar_witnesses_confirmed_on_real_code", len(got))


MEANING_INPUTS = ["", "a", "a a", "a a a", "a a a a a", "ab ab b", "a b", "b", "a xx b", "aab", " a", "ab,ab ,a", "a b a b", "ab b"]


def _tok_py(t):
    if t[0] == "TStr":
        return "".join(chr(c) for c in t[1])
    if t[0] == "TList":
        return [_tok_py(x) for x in t[1]]
    return repr(t)


def sugar_meaning_checks(ctx):
    """the ELABORATION is the documented meaning: the parser model (`parse (step [])` of Model/Core.v) run on the Coq elaboration of
    every operator form - which does not come from a dump of the composite - must answer like the real composite, on every input.
    (An operator that builds something else than documented fails here with a concrete input even when the documented expansion is
    built through the same code and changes with it: e.g. stopOn, which both expr[...:stop] and ZeroOrMore(expr, stop_on=stop) call.)"""
    import pyparsing as pp
    mk = dict(sugar_operands())
    tups = {1: [("lit",), ("word",), ("group",)], 2: [("word", "lit"), ("lit", "lit")], 3: [("lit", "word", "lit")]}
    defs, exprs, reals = [], [], []
    ins = "[%s]" % "; ".join(vlib.coq_str(s) for s in MEANING_INPUTS)
    for fname, arity, real, term in sugar_forms(ctx.thorough):
        for tup in tups[arity]:
            operands = [mk[n]() for n in tup]
            try:
                obj = real(*operands)
                obj.streamline()
                d = dump.Dumper()
                d.dump(obj)
                o_terms = [_sx_to_coq(observe.parse_sx(d.expr(o))) for o in operands]
            except Exception:
                continue
            k = len(defs)
            cdw = "true" if operands[-1].copyDefaultWhiteChars else "false"
            defs.append("Definition T%d : expr := %s.\n" % (k, term.format(*o_terms, cdw=cdw)))
            exprs.append("map (fun s => proj (parse (step []) 40 (mkargs T%d s 0 true true))) %s" % (k, ins))
            outs = []
            for s in MEANING_INPUTS:
                try:
                    r = _one_parse(obj, s)
                    outs.append(("div",) if r == "timeout" else ("ok", r.as_list()))
                except pp.ParseException:
                    outs.append(("fail",))
                except Exception as x:
                    outs.append(("other", type(x).__name__))
            reals.append(("%s with %s" % (fname, ",".join(tup)), fname, outs))
    dw = _cchars([str(ord(c)) for c in sorted(pp.ParserElement.DEFAULT_WHITE_CHARS)])
    pre = SUGAR_PREAMBLE.replace("Model.Infix Model.Sugar.", "Model.Infix Model.Sugar Model.Peg.") + "Definition DW_ : list char := %s.\n" % dw + "".join(defs)
    try:
        vals = vlib.coq_eval_terms("c12_sugar_meaning", pre, exprs, timeout=900)
    except Exception as e:
        ctx.broken("correspondence:sugar_meaning evaluation failed (%s: %s)" % (type(e).__name__, str(e)[-300:].replace("\n", " ")))
        return

    def view(v):
        if isinstance(v, (list, tuple)) and v and v[0] == "Some":
            r = v[1]
            if r[0] == "POk":
                return ("ok", [_tok_py(t) for t in r[2]])
            if r[0] == "PFail":
                return ("fail",)
            if r[0] == "PDiv":
                return ("div",)
        return ("other", repr(v)[:60])
    for (label, fname, outs), vs in zip(reals, vals):
        for s, real, v in zip(MEANING_INPUTS, outs, vs):
            m = view(v)
            ctx.case("sugar_meaning:%s:%r" % (label, s), True, m == real)
            if m != real:
                ctx.violation("sugar-meaning:%s" % fname,
                              "%s on %r: the real object answers %r, the documented meaning (parser model of the elaboration in coq/Model/Sugar.v) is %r" % (label, s, real, m),
                              {"kind": "sugar-meaning", "form": fname})
    ctx.stat("sugar_meaning_cases", len(reals) * len(MEANING_INPUTS))


def _flat(l):
    out = []
    for x in l:
        out.extend(_flat(x) if isinstance(x, list) else [x])
    return out


def sugar_findings(ctx):
    """F-12e / F-12f on the implementation (closed Coq witnesses: Props/C12.v C12_sugar_mul_chain_refuted,
    C12_sugar_and_assoc_flat_refuted, C12_sugar_mul_zero_refuted)"""
    import pyparsing as pp

    def run(e, s):
        try:
            return e.parse_string(s).as_list()
        except pp.ParseBaseException as x:
            return (type(x).__name__, x.loc)
    x, y = pp.Literal("x").set_whitespace_chars(""), pp.Literal("y").set_whitespace_chars("")
    e = (x | y) + "z"
    a3, c3, a2 = run(e * 3, "xz xz xz"), run(e + e + e, "xz xz xz"), run(e * 2, "xz xz")
    ctx.case("sugar-finding:mul-vs-chain", True, True)
    if a3 != c3 or (isinstance(a3, list)) != (isinstance(a2, list)):
        ctx.violation("sugar:splice-not-neutral:mul-vs-chain",
                      "e = (x | y) + 'z' with x, y Literals whose whitespace set is empty: (e*3) on 'xz xz xz' gives %r, (e+e+e) gives %r, (e*2) on 'xz xz' gives %r" % (a3, c3, a2),
                      {"kind": "sugar-finding"})
    a = pp.Literal("a")
    z0, z1, z2 = run(a * 0, ""), run("b" + a * 0, "b"), run(pp.Opt(a * 0), "")
    ctx.case("sugar-finding:mul-zero", True, True)
    if not isinstance(z0, list):
        ctx.violation("sugar:mul-zero-never-matches-alone",
                      "(Literal('a') * 0).parse_string('') gives %r although the 0-fold sequence matches the empty string ('b' + a*0 gives %r, Opt(a*0) gives %r)" % (z0, z1, z2),
                      {"kind": "sugar-finding"})


def correspond(ctx):
    corr.ensure_driver()
    rng = ctx.rng
    copy_checks(ctx)
    composite_copy_checks(ctx)
    compose_before_after_use(ctx)
    sugar_findings(ctx)
    sugar_checks(ctx)
    sugar_elab_checks(ctx)
    sugar_witness_checks(ctx)
    sugar_meaning_checks(ctx)
    nprog = 40 if not ctx.thorough else 400
    for p in range(nprog):
        res = program(ctx, rng, 14)          # every parse inside has its own alarm (behaviour / _one_parse)
        if res == "timeout" or res is None:
            ctx.stat("program_timeouts")
            continue
        bad, shared = res
        ctx.case("program:%d:%d" % (ctx.seed, p), nontrivial=shared >= 2, agreed=True)
        for k, what, rep in bad:
            ctx.violation(k, what, rep)
    # model vs implementation on composites built through the operator sugar (surface forms use the same operators)
    opts = dict(names=True, actions=False, stops=True, fwd=True, extra=True, ws=True)
    groups = pcommon.grammar_groups(ctx, n_random=200 if not ctx.thorough else 2000, depth=(2, 4), opts=opts,
                                    modes=[("none",)], entries=[("parse", False)], inputs_per=4)
    recs = corr.run_groups(groups)
    pcommon.model_agreement(ctx, recs, "composite-outcomes")
    for r in recs:
        ctx.case(pcommon.key_of(r), gen.size(r["g"]) >= 3, r.get("agree", True))
    ctx.sample({"sugar": "expr[2,4]", "inputs": SUGAR_INPUTS[:4]})


def search(ctx, reasons):
    import random, time
    rng = random.Random(ctx.seed + 1212)
    t0 = time.time()
    while time.time() - t0 < (90 if not ctx.thorough else 600):
        res = program(ctx, rng, 20)
        ctx.stat("search_programs")
        if res not in ("timeout", None) and res[0]:
            for k, what, rep in res[0]:
                ctx.violation(k, what, rep)
            if any(k not in ctx.known for k, _, _ in res[0]):
                return


def replay(ctx, obj):
    r = obj["replay"]
    c2 = vlib.Ctx(PROP, "quick", 0)
    c2.known = {}
    if r.get("kind") == "sugar-finding":
        sugar_findings(c2)
        for v in c2.violations:
            print(v["what"])
        return not c2.violations
    if r.get("kind") == "compose-before-after":
        compose_before_after_use(c2)
        for v in c2.violations:
            print(v["what"])
        return not c2.violations
    if r.get("kind") == "composite-copy":
        composite_copy_checks(c2)
        for v in c2.violations:
            print(v["what"])
        return not c2.violations
    if r.get("kind") == "copy":
        copy_checks(c2)
    elif r.get("kind") == "sugar":
        sugar_checks(c2)
    elif r.get("kind") == "sugar-meaning":
        sugar_meaning_checks(c2)
    elif r.get("kind") == "program":
        import random
        for seed in range(5):
            program(c2, random.Random(seed), 14)
    else:
        print("replay names a broken proof/correspondence obligation: %r" % (r,))
        return False
    hits = [v for v in c2.violations if v["key"] == obj["key"]]
    for v in hits:
        print(v["what"])
    return not hits
