"""C12 — grammar objects have value semantics; operator sugar means what is documented."""
from tools import vlib
from tools.harness import gen, corr, pcommon, build, dump, observe

PROP = "C12"
GEN = ["gen_ops"]
RULE = ("construction programs: a pool of expressions shared between several composites; random sequences of + | ^ & ~ - * [] ... "
        "copy() expr() expr('name') set_results_name(), interleaved with parses of the composites (which streamline them); before and "
        "after every step each pool member's behaviour (outcome on 12 inputs) and its dumped structure must be unchanged; a copy must "
        "parse like its original; the sugar table (expr*n, expr[m,n], [...], [1,...], [n,...], [...:stop], expr|'', a+...+b, "
        "associativity of + | ^) is compared both as dumped object graphs after streamline and by parsing both sides; the extracted "
        "model is compared with the implementation on the composites; non-trivial = a pool member used in >= 2 composites")
TRUSTED = pcommon.TRUSTED_PARSE

INPUTS = ["", "a", "ab", "a b", "ab ab", " a", "a,b", "aab", "ba", "a a a a", "(a)", "ab,ab ,a", ",a", "\na", ",ab ,a", "\nab a", "a\nb", "\tab,b", "\n ", " \nab", "/*c*/a", "a /*c*/ b", "#ab", "/* c */ ab,ab"]


def pool():
    import pyparsing as pp
    return [
        ("lit", lambda: pp.Literal("a")), ("word", lambda: pp.Word("ab")), ("kw", lambda: pp.Keyword("ab")), ("seq", lambda: pp.Literal("a") + pp.Literal("b")),
        ("alt", lambda: pp.Literal("ab") | pp.Literal("a")), ("rep", lambda: pp.OneOrMore(pp.Literal("a"))), ("grp", lambda: pp.Group(pp.Word("ab") + pp.Opt(","))),
        ("named", lambda: pp.Word("ab")("n")), ("notin", lambda: pp.CharsNotIn(", ")), ("white", lambda: pp.White(" ")), ("act", lambda: pp.Word("ab").add_parse_action(lambda t: t[0].upper())),
        ("fwd", lambda: _fwd()), ("comb", lambda: pp.Combine(pp.Literal("a") + pp.Literal("b"))), ("lws", lambda: (pp.Literal("a") + pp.Literal("b")).leave_whitespace()),
        ("or", lambda: pp.Literal("a") ^ pp.Literal("ab")), ("each", lambda: pp.Literal("a") & pp.Literal("b")), ("wsx", lambda: pp.Word("ab").set_whitespace_chars(" ,")),
        ("lineend", lambda: pp.LineEnd()), ("white", lambda: pp.White(" ")), ("linestart", lambda: pp.LineStart()),
        ("linestart-seq", lambda: pp.LineStart() + pp.Word("ab")), ("linestart-grp", lambda: pp.Group(pp.Combine(pp.LineStart() + pp.WordStart("ab")))),
    ]


def _fwd():
    import pyparsing as pp
    f = pp.Forward()
    f <<= pp.Group("(" + pp.ZeroOrMore(f) + ")") | pp.Word("ab")
    return f


def behaviour(e):
    import pyparsing as pp
    out = []
    spins = 0
    for s in INPUTS:
        if spins >= 2:
            out.append(("div",))        # an element that spins (repetition of something nullable) spins on every input: do not wait 24 times
            continue
        try:
            r = _one_parse(e, s)
            if r == "timeout":
                spins += 1
                out.append(("div",))
                continue
            out.append(("ok", r.as_list(), sorted(r.as_dict().items(), key=repr)))
        except pp.ParseBaseException as x:
            out.append(("err", type(x).__name__, x.loc))
        except RecursionError:
            out.append(("div",))
        except Exception as x:
            out.append(("other", type(x).__name__))
    return out


def _one_parse(e, s):
    """one parse under its own short alarm (the real parser loops forever on a repetition whose body matches empty)"""
    import signal

    def on(sig, frm):
        raise _T()
    old = signal.signal(signal.SIGPROF, on)
    try:
        try:
            signal.setitimer(signal.ITIMER_PROF, 0.4)
            return e.parse_string(s)
        finally:
            signal.setitimer(signal.ITIMER_PROF, 0)
    except _T:
        return "timeout"
    finally:
        signal.signal(signal.SIGPROF, old)


def structure(e):
    """dump of the object graph (class, flags, children) — independent of whether e has been streamlined is NOT expected: the
    operand's own structure may be flattened by its own streamline(), which is why behaviour is the primary observation; the
    structure is compared only for attributes that streamline does not touch"""
    keys = ("resultsName", "skipWhitespace", "whiteChars", "keepTabs", "callDuringTry", "modalResults", "customName")
    return tuple((k, repr(getattr(e, k, None))) for k in keys) + (len(e.parseAction), len(e.ignoreExprs), type(e).__name__)


def apply_op(rng, pp, a, b):
    ops = ["add", "or", "xor", "and", "inv", "sub", "mul2", "get13", "ell", "get1", "call", "callname", "copy", "setname", "radd", "oremp", "skip", "stop",
           "copy.ignore", "call.ws", "callname.ignore", "copy.leavews", "copy.action"]
    op = rng.choice(ops)
    if op == "add": return op, a + b
    if op == "or": return op, a | b
    if op == "xor": return op, a ^ b
    if op == "and": return op, a & b
    if op == "inv": return op, ~a + b
    if op == "sub": return op, a - b
    if op == "mul2": return op, a * 2
    if op == "get13": return op, a[1, 3]
    if op == "ell": return op, a[...]
    if op == "get1": return op, a[1, ...]
    if op == "call": return op, a()
    if op == "callname": return op, a("z*")
    if op == "copy": return op, a.copy()
    if op == "setname": return op, a.set_results_name("q")
    if op == "radd": return op, "a" + a
    if op == "oremp": return op, a | ""
    if op == "skip": return op, a + ... + b
    if op == "stop": return op, a[...:b]
    # a copy is configured afterwards: the original (and every other composite holding it) must not notice
    if op == "copy.ignore": return op, a.copy().ignore(pp.c_style_comment)
    if op == "call.ws": return op, a().set_whitespace_chars(" ,")
    if op == "callname.ignore": return op, a("z*").ignore("#")
    if op == "copy.leavews": return op, a.copy().leave_whitespace()
    if op == "copy.action": return op, a.copy().add_parse_action(lambda t: ["X"])
    raise ValueError(op)


class _T(BaseException):
    pass


def guarded(f, t=3.0):
    import signal

    def on(sig, frm):
        raise _T()
    old = signal.signal(signal.SIGPROF, on)
    try:
        try:
            signal.setitimer(signal.ITIMER_PROF, t)
            return f()
        finally:
            signal.setitimer(signal.ITIMER_PROF, 0)
    except _T:
        return "timeout"
    finally:
        signal.signal(signal.SIGPROF, old)


def program(ctx, rng, steps):
    """one construction program; returns violations [(key, what, replay)]"""
    import pyparsing as pp
    members = [(n, mk()) for n, mk in pool()]
    before = {n: (behaviour(e), structure(e)) for n, e in members}
    composites, trace, used = [], [], {}
    bad = []
    for i in range(steps):
        (na, a), (nb, b) = rng.choice(members), rng.choice(members)
        try:
            op, c = apply_op(rng, pp, a, b)
        except Exception as x:
            trace.append((na, nb, "raised " + type(x).__name__))
            continue
        trace.append((na, op, nb))
        used[na] = used.get(na, 0) + 1
        used[nb] = used.get(nb, 0) + 1
        composites.append(c)
        if rng.random() < 0.6:
            behaviour(c)            # use the composite: parse_string streamlines it and, recursively, its operands
        if rng.random() < 0.3 and len(composites) > 1:
            members.append(("c%d" % i, c))
            before["c%d" % i] = (behaviour(c), structure(c))
        for n, e in members:
            now = (behaviour(e), structure(e))
            if now != before[n]:
                what = "behaviour" if now[0] != before[n][0] else "attributes"
                # F-12c: ParserElement.copy() of a ParseElementEnhance / Forward is shallow (the copy shares `.expr`), and ignore()
                # recurses into `.expr` in place - so ignore() on the COPY of a wrapper reaches the original's content
                wrapper_ignore = trace[-1][1] in ("copy.ignore", "callname.ignore") and any(hasattr(x, "expr") and not hasattr(x, "exprs") for x in a.visit_all())
                bad.append(("operand-changed:ignore-on-copy-of-wrapper-reaches-shared-content" if wrapper_ignore else "operand-changed:%s:%s" % (n, what),
                            "after %r the pool member %r changed its %s: before %r, after %r" % (
                                trace[-3:], n, what, [x for x, y in zip(before[n][0], now[0]) if x != y][:2] or before[n][1],
                                [y for x, y in zip(before[n][0], now[0]) if x != y][:2] or now[1]),
                            {"kind": "program", "seed_trace": trace[-6:]}))
                before[n] = now
    return bad, sum(1 for v in used.values() if v >= 2)


def copy_checks(ctx):
    for n, mk in pool():
        e = mk()
        for how, c in (("copy()", e.copy()), ("expr()", e()), ("expr('k')", e("k"))):
            b0, b1 = behaviour(e), behaviour(c)
            # names differ for expr('k'): compare token lists and outcomes only
            strip = lambda bs: [x[:2] if x[0] == "ok" else x for x in bs]
            ctx.case("copy:%s:%s" % (n, how), True, True)
            if strip(b0) != strip(b1):
                diff = [(s, x, y) for s, x, y in zip(INPUTS, strip(b0), strip(b1)) if x != y][:2]
                ctx.violation("copy-differs:linestart-led-whitespace" if n.startswith("linestart") else "copy-differs:%s" % n, "%s of pool member %r parses differently: %r" % (how, n, diff),
                              {"kind": "copy", "member": n})


def composite_copy_checks(ctx):
    """a copy of a COMPOSITE parses identically to the composite: every pool member as first / second operand of every binary
    operator and wrapper (the composite inherits whitespace settings from its operands; copy() must not reset them)"""
    import pyparsing as pp
    strip = lambda bs: [x[:2] if x[0] == "ok" else x for x in bs]
    shapes = [("m + 'b'", lambda m: m + pp.Literal("b")), ("'a' + m", lambda m: pp.Literal("a") + m), ("m | 'b'", lambda m: m | pp.Literal("b")),
              ("m ^ 'b'", lambda m: m ^ pp.Literal("b")), ("m & 'b'", lambda m: m & pp.Literal("b")), ("m - 'b'", lambda m: m - pp.Literal("b")),
              ("Group(m + 'b')", lambda m: pp.Group(m + pp.Literal("b"))), ("Opt(m) + 'b'", lambda m: pp.Opt(m) + pp.Literal("b")),
              ("(m + 'b')[1, ...]", lambda m: (m + pp.Literal("b"))[1, ...]), ("(m + 'b') + 'a'", lambda m: (m + pp.Literal("b")) + pp.Literal("a")),
              ("m*2", lambda m: m * 2), ("Suppress(m) + 'b'", lambda m: pp.Suppress(m) + pp.Literal("b"))]
    for n, mk in pool():
        for sname, shape in shapes:
            for used_first in (False, True):
                try:
                    c = shape(mk())
                except Exception:
                    continue
                if used_first:
                    behaviour(c)          # streamlined before it is copied
                hows = (("copy()", lambda: c.copy()), ("expr()", lambda: c()), ("expr('k')", lambda: c("k")),
                        ("set_results_name('k')", lambda: c.set_results_name("k")), ("copy of enclosing Group", lambda: pp.Group(c).copy()))
                for how, cp in (hows[:1] if used_first else hows):
                    try:
                        d = cp()
                    except Exception as x:
                        ctx.violation("composite-copy-raises:%s:%s" % (n, sname), "%s of %s with m=%s raises %s" % (how, sname, n, type(x).__name__),
                                      {"kind": "composite-copy"})
                        continue
                    b0 = strip(behaviour(pp.Group(c) if how.startswith("copy of") else c))
                    b1 = strip(behaviour(d))
                    ctx.case("composite-copy:%s:%s:%s:%d" % (n, sname, how, used_first), True, True)
                    if b0 != b1 and "timeout" not in (b0, b1):
                        diff = [(s, x, y) for s, x, y in zip(INPUTS, b0, b1) if x != y][:2]
                        # F-12b: LineStart removes the newline from its whitespace set but keeps copyDefaultWhiteChars == True; enclosing
                        # elements inherit both, so their copies regain the newline (the suite relies on this: not repaired)
                        ctx.violation("copy-differs:linestart-led-whitespace" if n.startswith("linestart") else "composite-copy-differs:%s:%s" % (n, sname),
                                      "%s of the composite %s with m = pool member %r parses differently from the composite%s: (input, original, copy) %r" % (
                                          how, sname, n, " (after it was used)" if used_first else "", diff), {"kind": "composite-copy"})


def compose_before_after_use(ctx):
    """a composite must not depend on WHEN it was built: before or after its operand was used (and thereby streamlined).
    (F-12d, fixed in /repo 93bbef3: MatchFirst/Or computed skipWhitespace differently in __init__ and in streamline())"""
    import pyparsing as pp
    strip = lambda bs: [x[:2] if x[0] == "ok" else x for x in bs]
    extra = [("white-alt", lambda: pp.White(" ") | pp.Word("ab")), ("white-or", lambda: pp.White(" ") ^ pp.Word("ab")),
             ("lineend-alt", lambda: pp.LineEnd() | pp.Word("ab")), ("nested-alt", lambda: (pp.White(" ") | pp.Literal("a")) | pp.Word("ab")),
             ("notin-alt", lambda: pp.CharsNotIn(",") | pp.Literal("a")), ("seq-alt", lambda: (pp.Literal("a") + pp.Literal("b")) | pp.Literal("a"))]
    shapes = [("m + 'x'", lambda m: m + pp.Literal("x")), ("Group(m) + 'b'", lambda m: pp.Group(m) + pp.Literal("b")), ("Opt(m) + 'x'", lambda m: pp.Opt(m) + pp.Literal("x")),
              ("(m + 'x')[1, ...]", lambda m: (m + pp.Literal("x"))[1, ...]), ("m('k') + 'x'", lambda m: m("k") + pp.Literal("x")),
              ("F <<= m; F + 'x'", lambda m: pp.Forward(m) + pp.Literal("x")), ("m | 'x'", lambda m: m | pp.Literal("x"))]
    inputs_extra = [" x", " ab x", "a x", "\nx", " a b", "ab x", "  x"]
    global INPUTS
    saved = INPUTS
    INPUTS = list(saved) + inputs_extra
    try:
        for n, mk in list(pool()) + extra:
            for sname, shape in shapes:
                try:
                    m = mk()
                    c1 = shape(m)
                    behaviour(m)                  # parse_string streamlines m
                    c2 = shape(m)
                except Exception:
                    continue
                b1, b2 = strip(behaviour(c1)), strip(behaviour(c2))
                ctx.case("compose-before-after:%s:%s" % (n, sname), True, True)
                if b1 != b2:
                    diff = [(s_, x, y) for s_, x, y in zip(INPUTS, b1, b2) if x != y][:2]
                    ctx.violation("compose-before-after-use:%s:%s" % (n, sname),
                                  "%s with m = %r: built before m was first used it parses differently from the same composite built afterwards: "
                                  "(input, before, after) %r" % (sname, n, diff), {"kind": "compose-before-after"})
    finally:
        INPUTS = saved


def sugar_table():
    import pyparsing as pp
    A = lambda: pp.Literal("a")
    B = lambda: pp.Literal("b")
    W = lambda: pp.Word("ab")
    return [
        ("expr*3", lambda: W() * 3, lambda: (lambda w: pp.And([w, w, w]))(W())),
        ("expr[2,4]", lambda: A()[2, 4], lambda: (lambda a: pp.And([a, a]) + pp.Opt(a + pp.Opt(a)))(A())),
        ("expr[...]", lambda: W()[...], lambda: pp.ZeroOrMore(W())),
        ("expr[0,...]", lambda: W()[0, ...], lambda: pp.ZeroOrMore(W())),
        ("expr[1,...]", lambda: W()[1, ...], lambda: pp.OneOrMore(W())),
        ("expr[2,...]", lambda: A()[2, ...], lambda: (lambda a: a * 2 + pp.ZeroOrMore(a))(A())),
        ("expr[...:stop]", lambda: W()[...: B()], lambda: pp.ZeroOrMore(W(), stop_on=B())),
        ("expr|''", lambda: A() | "", lambda: pp.Opt(A())),
        ("a+...+b", lambda: A() + ... + B(), lambda: (lambda b: A() + pp.SkipTo(b)("_skipped*") + b)(B())),
        ("(a+b)+c", lambda: (A() + B()) + W(), lambda: pp.And([A(), B(), W()])),
        ("a+(b+c)", lambda: A() + (B() + W()), lambda: pp.And([A(), B(), W()])),
        ("(a|b)|c", lambda: (A() | B()) | W(), lambda: pp.MatchFirst([A(), B(), W()])),
        ("(a^b)^c", lambda: (A() ^ B()) ^ W(), lambda: pp.Or([A(), B(), W()])),
        # the same equivalences where the sequence is an operand of another combinator that looks at its flags
        # (Each files an operand that may match empty as optional; Opt / alternation / repetition around it)
        ("((a?+b?)+c)&d", lambda: ((pp.Opt(A()) + pp.Opt(B())) + pp.Literal("c")) & pp.Literal("d"),
         lambda: pp.And([pp.Opt(A()), pp.Opt(B()), pp.Literal("c")]) & pp.Literal("d")),
        ("(a?+(b?+c))&d", lambda: (pp.Opt(A()) + (pp.Opt(B()) + pp.Literal("c"))) & pp.Literal("d"),
         lambda: pp.And([pp.Opt(A()), pp.Opt(B()), pp.Literal("c")]) & pp.Literal("d")),
        ("(a?*2+c)&d", lambda: (pp.Opt(A()) * 2 + pp.Literal("c")) & pp.Literal("d"),
         lambda: (lambda o: pp.And([o, o, pp.Literal("c")]))(pp.Opt(A())) & pp.Literal("d")),
        ("((a?+b?)+c)[...]", lambda: ((pp.Opt(A()) + pp.Opt(B())) + pp.Literal("c"))[...], lambda: pp.ZeroOrMore(pp.And([pp.Opt(A()), pp.Opt(B()), pp.Literal("c")]))),
        ("((a?+b?)+c)|a", lambda: ((pp.Opt(A()) + pp.Opt(B())) + pp.Literal("c")) | A(), lambda: pp.MatchFirst([pp.And([pp.Opt(A()), pp.Opt(B()), pp.Literal("c")]), A()])),
        ("((a|b)|c)&d", lambda: ((A() | B()) | pp.Literal("c")) & pp.Literal("d"), lambda: pp.MatchFirst([A(), B(), pp.Literal("c")]) & pp.Literal("d")),
    ]


SUGAR_INPUTS = INPUTS + ["a a", "a a a", "a a a a a", "ab ab b", "a xx b", "ab", "b", "a b ab", "aaa", "abab ab",
                         "c d", "c c d", "c d c", "a c d b c", "d a b c", "a b c d", "c", "a c b c", "d c c"]


def sugar_checks(ctx):
    import pyparsing as pp
    for name, lhs, rhs in sugar_table():
        l, r = lhs(), rhs()
        outs = []
        for s in SUGAR_INPUTS:
            a = observe.run_real(l, dump.Dumper(), s, ("none",), ("parse", False))
            b = observe.run_real(r, dump.Dumper(), s, ("none",), ("parse", False))
            outs.append((s, corr.proj_all(a), corr.proj_all(b)))
        ctx.case("sugar:" + name, True, True)
        diff = [(s, a, b) for s, a, b in outs if (a[:3] if a[0] == "err" else a) != (b[:3] if b[0] == "err" else b)]
        if diff:
            ctx.violation("sugar:%s" % name, "%s differs from its documented expansion on %r: %r vs %r" % (name, diff[0][0], diff[0][1], diff[0][2]),
                          {"kind": "sugar", "name": name})
        # dumped object graphs after streamline (node ids are assigned in traversal order, so equal graphs dump equally)
        try:
            l2, r2 = lhs(), rhs()
            l2.streamline(); r2.streamline()
            dl, dr = dump.Dumper().dump(l2), dump.Dumper().dump(r2)
            import re
            norm = lambda t: re.sub(r"\(A (\d+) ", "(A 0 ", t[0])      # identities differ; slen (str length) may too
            norm2 = lambda t: re.sub(r" \d+\)$", ")", norm(t))
            ctx.stat("sugar_structures_compared")
            if re.sub(r"\) \d+ \d+\)", ")", norm(dl)) != re.sub(r"\) \d+ \d+\)", ")", norm(dr)):
                ctx.stat("sugar_structures_differ_" + name.replace(" ", ""))
        except dump.Unsupported:
            pass


def correspond(ctx):
    corr.ensure_driver()
    rng = ctx.rng
    copy_checks(ctx)
    composite_copy_checks(ctx)
    compose_before_after_use(ctx)
    sugar_checks(ctx)
    nprog = 40 if not ctx.thorough else 400
    for p in range(nprog):
        res = program(ctx, rng, 14)          # every parse inside has its own alarm (behaviour / _one_parse)
        if res == "timeout" or res is None:
            ctx.stat("program_timeouts")
            continue
        bad, shared = res
        ctx.case("program:%d:%d" % (ctx.seed, p), nontrivial=shared >= 2, agreed=True)
        for k, what, rep in bad:
            ctx.violation(k, what, rep)
    # model vs implementation on composites built through the operator sugar (surface forms use the same operators)
    opts = dict(names=True, actions=False, stops=True, fwd=True, extra=True, ws=True)
    groups = pcommon.grammar_groups(ctx, n_random=200 if not ctx.thorough else 2000, depth=(2, 4), opts=opts,
                                    modes=[("none",)], entries=[("parse", False)], inputs_per=4)
    recs = corr.run_groups(groups)
    pcommon.model_agreement(ctx, recs, "composite-outcomes")
    for r in recs:
        ctx.case(pcommon.key_of(r), gen.size(r["g"]) >= 3, r.get("agree", True))
    ctx.sample({"sugar": "expr[2,4]", "inputs": SUGAR_INPUTS[:4]})


def search(ctx, reasons):
    import random, time
    rng = random.Random(ctx.seed + 1212)
    t0 = time.time()
    while time.time() - t0 < (90 if not ctx.thorough else 600):
        res = program(ctx, rng, 20)
        ctx.stat("search_programs")
        if res not in ("timeout", None) and res[0]:
            for k, what, rep in res[0]:
                ctx.violation(k, what, rep)
            if any(k not in ctx.known for k, _, _ in res[0]):
                return


def replay(ctx, obj):
    r = obj["replay"]
    c2 = vlib.Ctx(PROP, "quick", 0)
    c2.known = {}
    if r.get("kind") == "compose-before-after":
        compose_before_after_use(c2)
        for v in c2.violations:
            print(v["what"])
        return not c2.violations
    if r.get("kind") == "composite-copy":
        composite_copy_checks(c2)
        for v in c2.violations:
            print(v["what"])
        return not c2.violations
    if r.get("kind") == "copy":
        copy_checks(c2)
    elif r.get("kind") == "sugar":
        sugar_checks(c2)
    elif r.get("kind") == "program":
        import random
        for seed in range(5):
            program(c2, random.Random(seed), 14)
    else:
        print("replay names a broken proof/correspondence obligation: %r" % (r,))
        return False
    hits = [v for v in c2.violations if v["key"] == obj["key"]]
    for v in hits:
        print(v["what"])
    return not hits
