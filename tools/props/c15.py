"""C15 — concurrent parsing from several threads equals serial parsing.

Correspondence family 4 (DESIGN 2.3 / 7.4): the public class attributes ParserElement.packrat_cache_lock, recursion_lock,
packrat_cache and recursion_memos are replaced (from here, nothing in /repo is edited) by instrumented objects that stop
the calling thread at every lock acquire/release and cache/memo get/set/del/clear until the controller lets it go on.  A
schedule (list of thread ids, one entry per visible operation) is thereby replayed deterministically on real threads.
The same schedule is executed by the Coq model (Model/Threads.v over the small concrete grammar of Model/ThreadsMini.v)
and the two event traces and per-thread outcomes are compared; the property's own oracle (each call returns what it
returns alone, no internal error, no cache access by a non-owner, no deadlock) is evaluated on the implementation.

All thread experiments run in a subprocess (`python c15.py worker <file>`) under a hard timeout.
"""
import itertools, json, os, subprocess, sys, threading, time

PROP = "C15"
GEN = ["gen_locks"]
RULE = ("per memoization mode (off / packrat / left recursion) and per job set over small recursive grammars with a shared "
        "Forward: every preemption-bounded schedule of 2 threads at the granularity of lock/cache/memo operations "
        "(explored exhaustively within the bound by replay), seeded random schedules of 3 threads, the F-15 witness, and a "
        "free-running stress; each schedule's event trace and outcomes compared with the Coq model's; oracle = outcome of "
        "each call equals its serial outcome, no internal exception, cache touched only by the lock owner, no hang; "
        "non-trivial = schedule with at least one context switch while some thread is unfinished and at least one cache hit or memo hit")
TRUSTED = ["the instrumented lock/cache/memo objects and the controller of tools/props/c15.py (replay of schedules on real threads)",
           "CPython's thread switching and the atomicity of dict operations under the GIL are NOT modelled: the model's atomic "
           "steps are the calls observed by the instrumented objects"]
EXPLANATION = ("partial: theorems are about the interleaving model Model/Threads.v whose atomic steps are the lock/cache/memo "
               "operations; the tie to the code is the controlled-schedule replay (trace equality) plus free-running stress")


# =================================================================================================
# Worker side (runs in a subprocess; imports pyparsing from PYTHONPATH)
# =================================================================================================
class _Abort(BaseException):
    pass


class Controller:
    """Lets exactly one worker thread run at a time; a worker stops at every gate (visible operation)."""

    def __init__(self, nthreads, watchdog=4.0):
        self.n = nthreads
        self.watchdog = watchdog
        self.ctrl = threading.Semaphore(0)
        self.go = [threading.Semaphore(0) for _ in range(nthreads)]
        self.ident = {}
        self.pending = [None] * nthreads       # (kind, lockname) the thread is stopped in front of
        self.done = [False] * nthreads
        self.owner = {"P": None, "R": None}
        self.count = {"P": 0, "R": 0}
        self.trace = []                         # (tid, kind, detail)
        self.discipline = []                    # violations of "only the owner touches the cache"
        self.abort = False
        self.hang = None
        self.active = True
        self.keyinfo = None

    # ---- called from worker threads
    def me(self):
        return self.ident.get(threading.get_ident())

    def gate(self, kind, lock=None):
        tid = self.me()
        if tid is None or not self.active:
            return None
        self.pending[tid] = (kind, lock)
        self.ctrl.release()
        self.go[tid].acquire()
        if self.abort:
            raise _Abort()
        self.pending[tid] = None
        return tid

    def event(self, tid, kind, detail=None):
        if tid is None:
            return
        self.trace.append((tid, kind, detail))

    # ---- called from the controlling thread
    def wait_parked(self, tid):
        if not self.ctrl.acquire(timeout=self.watchdog):
            self.hang = "thread %d did not reach its next operation within %.1fs (pending=%r owners=%r)" % (
                tid, self.watchdog, self.pending, self.owner)
            return False
        return True

    def blocked(self, tid):
        p = self.pending[tid]
        return p is not None and p[0] == "acq" and self.owner[p[1]] not in (None, tid)

    def enabled(self):
        return [t for t in range(self.n) if not self.done[t] and not self.blocked(t)]

    def schedule(self, tid):
        """one schedule entry; returns 'done' | 'block' | 'step' | 'hang'"""
        if self.done[tid]:
            self.trace.append((tid, "done", None))
            return "done"
        if self.blocked(tid):
            self.trace.append((tid, "block", None))
            return "block"
        self.go[tid].release()
        if not self.wait_parked(tid):
            return "hang"
        return "step"

    def shutdown(self):
        self.abort = True
        for s in self.go:
            s.release()


class ILock:
    """stands in for an RLock class attribute"""

    def __init__(self, ctl, name):
        self.ctl, self.name = ctl, name
        self.real = threading.RLock()

    def acquire(self, blocking=True, timeout=-1):
        c = self.ctl
        tid = c.gate("acq", self.name)
        if tid is not None:
            if c.owner[self.name] not in (None, tid):
                c.discipline.append("thread %d acquired %s while thread %r owns it" % (tid, self.name, c.owner[self.name]))
            c.owner[self.name] = tid
            c.count[self.name] += 1
            c.event(tid, "acq" + self.name)
        self.real.acquire()
        return True

    def release(self):
        c = self.ctl
        tid = c.gate("rel", self.name)
        if tid is not None:
            if c.owner[self.name] != tid:
                c.discipline.append("thread %d released %s owned by %r" % (tid, self.name, c.owner[self.name]))
            else:
                c.count[self.name] -= 1
                if c.count[self.name] == 0:
                    c.owner[self.name] = None
            c.event(tid, "rel" + self.name)
        self.real.release()

    __enter__ = acquire

    def __exit__(self, *a):
        self.release()


class ICache:
    """stands in for ParserElement.packrat_cache (the methods are looked up on the object at each use)"""

    def __init__(self, ctl, real):
        self.ctl, self.real = ctl, real
        self.not_in_cache = real.not_in_cache
        self.size = getattr(real, "size", None)

    def _chk(self, tid, what):
        c = self.ctl
        if tid is not None and c.owner["P"] != tid:
            c.discipline.append("thread %d did cache.%s while packrat_cache_lock is owned by %r" % (tid, what, c.owner["P"]))

    def get(self, key):
        tid = self.ctl.gate("get")
        self._chk(tid, "get")
        v = self.real.get(key)
        self.ctl.event(tid, "get+" if v is not self.not_in_cache else "get-", self.ctl.keyinfo(key) if self.ctl.keyinfo else None)
        return v

    def set(self, key, value):
        tid = self.ctl.gate("set")
        self._chk(tid, "set")
        self.real.set(key, value)
        self.ctl.event(tid, "set", self.ctl.keyinfo(key) if self.ctl.keyinfo else None)

    def clear(self):
        tid = self.ctl.gate("clear")
        self._chk(tid, "clear")
        self.real.clear()
        self.ctl.event(tid, "clear")


class IMemo:
    """stands in for ParserElement.recursion_memos"""

    def __init__(self, ctl, real):
        self.ctl, self.real = ctl, real

    def __getitem__(self, key):
        tid = self.ctl.gate("mget")
        try:
            v = self.real[key]
        except KeyError:
            self.ctl.event(tid, "mget-", self.ctl.memoinfo(key) if self.ctl.keyinfo else None)
            raise
        self.ctl.event(tid, "mget+", self.ctl.memoinfo(key) if self.ctl.keyinfo else None)
        return v

    def __setitem__(self, key, value):
        tid = self.ctl.gate("mset")
        self.real[key] = value
        self.ctl.event(tid, "mset", self.ctl.memoinfo(key) if self.ctl.keyinfo else None)

    def __delitem__(self, key):
        tid = self.ctl.gate("mdel")
        del self.real[key]
        self.ctl.event(tid, "mdel", self.ctl.memoinfo(key) if self.ctl.keyinfo else None)

    def clear(self):
        tid = self.ctl.gate("mclear")
        self.real.clear()
        self.ctl.event(tid, "mclear")

    def __len__(self):
        return len(self.real)

    def __iter__(self):
        return iter(self.real)

    def __contains__(self, key):
        return key in self.real


def build_grammar(pp, nodes):
    """node table (Model/ThreadsMini.v `node`) -> list of pyparsing elements; index = identity"""
    objs = [None] * len(nodes)
    for i, nd in enumerate(nodes):
        if nd[0] == "fwd":
            objs[i] = pp.Forward()

    def make_action(inner_idx):
        def act(s, l, t):
            try:
                objs[inner_idx].parse_string(t[0])
            except pp.ParseException:
                raise pp.ParseException(s, l, "nested parse failed")
        return act

    def get(i, depth=0):
        if objs[i] is not None:
            return objs[i]
        if depth > len(nodes):
            raise ValueError("cyclic grammar without Forward")
        nd = nodes[i]
        k = nd[0]
        if k == "lit":
            o = pp.Literal(nd[1])
        elif k == "word":
            o = pp.Word(nd[1])
        elif k == "and":
            o = pp.And([get(j, depth + 1) for j in nd[1]])
        elif k == "mf":
            o = pp.MatchFirst([get(j, depth + 1) for j in nd[1]])
        elif k == "opt":
            o = pp.Opt(get(nd[1], depth + 1))
        elif k == "act":
            o = pp.Word(nd[1]).add_parse_action(make_action(nd[2]))
        else:
            raise ValueError(k)
        objs[i] = o
        return o

    for i in range(len(nodes)):
        get(i)
    for i, nd in enumerate(nodes):
        if nd[0] == "fwd":
            objs[i] <<= objs[nd[1]]
    for o in objs:
        o.streamline()
    return objs


def canon(pp, fn):
    """canonical outcome of a call: ('ok', value) | ('exc', class name, loc) | ('internal', class name, text)"""
    try:
        v = fn()
    except pp.ParseBaseException as e:
        return ["exc", type(e).__name__, e.loc]
    except _Abort:
        return ["aborted"]
    except BaseException as e:  # noqa
        return ["internal", type(e).__name__, str(e)[:120]]
    return ["ok", v]


def make_job(pp, objs, job):
    kind, idx, s = job
    el = objs[idx]
    if kind == "parse_string":
        return lambda: el.parse_string(s).as_list()
    if kind == "scan_string":
        return lambda: [[t.as_list(), a, b] for t, a, b in el.scan_string(s)]
    if kind == "search_string":
        return lambda: el.search_string(s).as_list()
    raise ValueError(kind)


def set_mode(pp, mode, size):
    PE = pp.ParserElement
    PE.disable_memoization()
    if mode == "packrat":
        PE.enable_packrat(size)
    elif mode == "lr":
        PE.enable_left_recursion()
    elif mode != "nomemo":
        raise ValueError(mode)


class Experiment:
    """one grammar + mode + job list; runs schedules on fresh threads"""

    def __init__(self, pp, spec):
        self.pp, self.spec = pp, spec
        self.PE = pp.ParserElement
        self.mode = spec["mode"]
        self.size = spec.get("size", 128)
        self.objs = build_grammar(pp, spec["grammar"])
        self.jobs = spec["jobs"]
        self.saved = None
        set_mode(pp, self.mode, self.size)
        # warm-up + serial reference, real objects, one call at a time
        self.serial = [canon(pp, make_job(pp, self.objs, j)) for j in self.jobs]
        self.index_of = {id(o): i for i, o in enumerate(self.objs)}

    def keyinfo(self, key):
        try:
            return [self.index_of.get(id(key[0]), -1), key[2], bool(key[3]), bool(key[4]), key[1]]
        except Exception:
            return None

    def memoinfo(self, key):
        try:
            return [key[0], self.index_of.get(id(key[1]), -1), bool(key[2])]
        except Exception:
            return None

    def run(self, prefix, policy="stay", detail=False, max_steps=4000):
        """replay `prefix` (list of tids), then continue with the default policy until all threads are done.
        Returns dict(schedule (complete), trace, results, hang, discipline, choices)."""
        pp, PE = self.pp, self.PE
        n = len(self.jobs)
        ctl = Controller(n)
        if detail:
            ctl.keyinfo, ctl.memoinfo = self.keyinfo, self.memoinfo
        set_mode(pp, self.mode, self.size)
        saved = (PE.packrat_cache_lock, PE.recursion_lock, PE.packrat_cache, PE.recursion_memos)
        results = [None] * n
        threads = []
        sched, choices = [], []
        try:
            PE.packrat_cache_lock = ILock(ctl, "P")
            PE.recursion_lock = ILock(ctl, "R")
            PE.packrat_cache = ICache(ctl, saved[2])
            PE.recursion_memos = IMemo(ctl, saved[3])

            def body(tid):
                ctl.ident[threading.get_ident()] = tid
                results[tid] = canon(pp, make_job(pp, self.objs, self.jobs[tid]))
                ctl.done[tid] = True
                ctl.pending[tid] = None
                ctl.ctrl.release()

            for t in range(n):
                th = threading.Thread(target=body, args=(t,), daemon=True)
                threads.append(th)
                th.start()
                if not ctl.wait_parked(t):
                    break
            cur = None
            step = 0
            while ctl.hang is None and step < max_steps:
                en = ctl.enabled()
                if all(ctl.done):
                    break
                if not en:
                    ctl.hang = "deadlock: no thread can proceed (pending=%r owners=%r)" % (ctl.pending, ctl.owner)
                    break
                if step < len(prefix):
                    t = prefix[step]
                else:
                    t = cur if (policy == "stay" and cur in en) else en[0]
                choices.append(en)
                sched.append(t)
                r = ctl.schedule(t)
                step += 1
                if r == "step":
                    cur = t
                elif r == "hang":
                    break
            if step >= max_steps and ctl.hang is None and not all(ctl.done):
                ctl.hang = "step budget exhausted"
        finally:
            ctl.shutdown()
            for th in threads:
                th.join(timeout=1.0)
            ctl.active = False
            PE.packrat_cache_lock, PE.recursion_lock, PE.packrat_cache, PE.recursion_memos = saved
            PE.disable_memoization()
        return {"schedule": sched, "trace": [[t, k] + ([d] if detail else []) for t, k, d in ctl.trace],
                "results": results, "hang": ctl.hang, "discipline": ctl.discipline, "choices": choices}


def explore(exp, bound, limit, blocked_probes=True):
    """all schedules with at most `bound` preemptions (switching away from a thread that could continue);
    stateless DFS by replay.  Yields run dicts."""
    seen = set()
    stack = [([], 0)]
    runs = 0
    while stack and runs < limit:
        prefix, used = stack.pop()
        r = exp.run(prefix)
        runs += 1
        key = tuple(r["schedule"])
        if key in seen:
            continue
        seen.add(key)
        r["preemptions"] = used
        yield r
        sched, choices = r["schedule"], r["choices"]
        # branch at every position after the prefix
        cur = None
        for i in range(len(sched)):
            if i >= len(prefix):
                for alt in choices[i]:
                    if alt == sched[i]:
                        continue
                    pre = cur is not None and cur in choices[i] and alt != cur
                    cost = used_at(prefix, choices, sched, i) + (1 if pre else 0)
                    if cost <= bound:
                        stack.append((sched[:i] + [alt], cost))
            cur = sched[i]


def used_at(prefix, choices, sched, i):
    """number of preemptions in sched[:i]"""
    n, cur = 0, None
    for j in range(i):
        if cur is not None and cur in choices[j] and sched[j] != cur:
            n += 1
        cur = sched[j]
    return n


def stress(pp, spec, iters, nthreads):
    """free-running threads, real objects; returns list of mismatches"""
    set_mode(pp, spec["mode"], spec.get("size", 128))
    objs = build_grammar(pp, spec["grammar"])
    jobs = spec["jobs"]
    serial = [canon(pp, make_job(pp, objs, j)) for j in jobs]
    bad = []
    old = sys.getswitchinterval()
    sys.setswitchinterval(1e-6)
    barrier = threading.Barrier(nthreads)
    count = [0]

    def body(k):
        barrier.wait()
        for it in range(iters):
            j = (k + it) % len(jobs)
            r = canon(pp, make_job(pp, objs, jobs[j]))
            count[0] += 1
            if r != serial[j] and len(bad) < 20:
                bad.append({"job": jobs[j], "got": r, "serial": serial[j]})
    try:
        ths = [threading.Thread(target=body, args=(k,), daemon=True) for k in range(nthreads)]
        for t in ths:
            t.start()
        deadline = time.time() + 60
        for t in ths:
            t.join(timeout=max(0.1, deadline - time.time()))
        if any(t.is_alive() for t in ths):
            bad.append({"hang": "stress threads still alive after 60s"})
    finally:
        sys.setswitchinterval(old)
        pp.ParserElement.disable_memoization()
    return {"calls": count[0], "bad": bad, "serial": serial}


def worker_main(path):
    import pyparsing as pp
    req = json.load(open(path))
    out = []
    for task in req["tasks"]:
        kind = task["kind"]
        try:
            if kind == "explore":
                exp = Experiment(pp, task["spec"])
                runs = []
                for r in explore(exp, task["bound"], task["limit"]):
                    r.pop("choices")
                    runs.append(r)
                out.append({"serial": exp.serial, "runs": runs})
            elif kind == "schedules":
                exp = Experiment(pp, task["spec"])
                runs = []
                for s in task["schedules"]:
                    r = exp.run(s, policy=task.get("policy", "stay"), detail=task.get("detail", False))
                    r.pop("choices")
                    runs.append(r)
                out.append({"serial": exp.serial, "runs": runs})
            elif kind == "stress":
                out.append(stress(pp, task["spec"], task["iters"], task["threads"]))
            else:
                out.append({"error": "unknown task"})
        except Exception as e:  # harness problem: report, the plugin turns it into a broken tie
            import traceback
            out.append({"error": "%s: %s" % (type(e).__name__, e), "tb": traceback.format_exc()[-1500:]})
        finally:
            pp.ParserElement.disable_memoization()
    json.dump(out, open(path + ".out", "w"))


if __name__ == "__main__" and len(sys.argv) >= 3 and sys.argv[1] == "worker":
    worker_main(sys.argv[2])
    sys.exit(0)
