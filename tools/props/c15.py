"""C15 — concurrent parsing from several threads equals serial parsing.

Correspondence family 4 (DESIGN 2.3 / 7.4): the public class attributes ParserElement.packrat_cache_lock, recursion_lock,
packrat_cache and recursion_memos are replaced (from here, nothing in /repo is edited) by instrumented objects that stop
the calling thread at every lock acquire/release and cache/memo get/set/del/clear until the controller lets it go on.  A
schedule (list of thread ids, one entry per visible operation) is thereby replayed deterministically on real threads.
The same schedule is executed by the Coq model (Model/Threads.v over the small concrete grammar of Model/ThreadsMini.v)
and the two event traces and per-thread outcomes are compared; the property's own oracle (each call returns what it
returns alone, no internal error, no cache access by a non-owner, no deadlock) is evaluated on the implementation.

All thread experiments run in a subprocess (`python c15.py worker <file>`) under a hard timeout.
"""
import itertools, json, os, subprocess, sys, threading, time

PROP = "C15"
GEN = ["gen_locks"]
RULE = ("per memoization mode (off / packrat / left recursion) and per job set over small recursive grammars with a shared "
        "Forward: every preemption-bounded schedule of 2 threads at the granularity of lock/cache/memo operations "
        "(explored exhaustively within the bound by replay), seeded random schedules of 3 threads, the F-15 witness, and a "
        "free-running stress; each schedule's event trace and outcomes compared with the Coq model's; oracle = outcome of "
        "each call equals its serial outcome, no internal exception, cache touched only by the lock owner, no hang; "
        "non-trivial = schedule with at least one context switch while some thread is unfinished and at least one cache hit or memo hit")
TRUSTED = ["the instrumented lock/cache/memo objects and the controller of tools/props/c15.py (replay of schedules on real threads)",
           "CPython's thread switching and the atomicity of dict operations under the GIL are NOT modelled: the model's atomic "
           "steps are the calls observed by the instrumented objects"]
EXPLANATION = ("partial: theorems are about the interleaving model Model/Threads.v whose atomic steps are the lock/cache/memo "
               "operations; the tie to the code is the controlled-schedule replay (trace equality) plus free-running stress")


# =================================================================================================
# Worker side (runs in a subprocess; imports pyparsing from PYTHONPATH)
# =================================================================================================
class _Abort(BaseException):
    pass


class Controller:
    """Lets exactly one worker thread run at a time; a worker stops at every gate (visible operation)."""

    def __init__(self, nthreads, watchdog=10.0):
        self.n = nthreads
        self.watchdog = watchdog
        self.ctrl = threading.Semaphore(0)
        self.go = [threading.Semaphore(0) for _ in range(nthreads)]
        self.ident = {}
        self.pending = [None] * nthreads       # (kind, lockname) the thread is stopped in front of
        self.done = [False] * nthreads
        self.owner = {"P": None, "R": None}
        self.count = {"P": 0, "R": 0}
        self.trace = []                         # (tid, kind, detail)
        self.discipline = []                    # violations of "only the owner touches the cache"
        self.abort = False
        self.hang = None
        self.active = True
        self.keyinfo = None

    # ---- called from worker threads
    def me(self):
        return self.ident.get(threading.get_ident())

    def gate(self, kind, lock=None):
        tid = self.me()
        if tid is None or not self.active:
            return None
        self.pending[tid] = (kind, lock)
        self.ctrl.release()
        self.go[tid].acquire()
        if self.abort:
            raise _Abort()
        self.pending[tid] = None
        return tid

    def event(self, tid, kind, detail=None):
        if tid is None:
            return
        self.trace.append((tid, kind, detail))

    # ---- called from the controlling thread
    def wait_parked(self, tid):
        if not self.ctrl.acquire(timeout=self.watchdog):
            self.hang = "thread %d did not reach its next operation within %.1fs (pending=%r owners=%r)" % (
                tid, self.watchdog, self.pending, self.owner)
            return False
        return True

    def blocked(self, tid):
        p = self.pending[tid]
        return p is not None and p[0] == "acq" and self.owner[p[1]] not in (None, tid)

    def enabled(self):
        return [t for t in range(self.n) if not self.done[t] and not self.blocked(t)]

    def schedule(self, tid):
        """one schedule entry; returns 'done' | 'block' | 'step' | 'hang'"""
        if self.done[tid]:
            self.trace.append((tid, "done", None))
            return "done"
        if self.blocked(tid):
            self.trace.append((tid, "block", None))
            return "block"
        self.go[tid].release()
        if not self.wait_parked(tid):
            return "hang"
        return "step"

    def shutdown(self):
        self.abort = True
        for s in self.go:
            s.release()


class ILock:
    """stands in for an RLock class attribute"""

    def __init__(self, ctl, name):
        self.ctl, self.name = ctl, name
        self.real = threading.RLock()

    def acquire(self, blocking=True, timeout=-1):
        c = self.ctl
        tid = c.gate("acq", self.name)
        if tid is not None:
            if c.owner[self.name] not in (None, tid):
                c.discipline.append("thread %d acquired %s while thread %r owns it" % (tid, self.name, c.owner[self.name]))
            c.owner[self.name] = tid
            c.count[self.name] += 1
            c.event(tid, "acq" + self.name)
        self.real.acquire()
        return True

    def release(self):
        c = self.ctl
        tid = c.gate("rel", self.name)
        if tid is not None:
            if c.owner[self.name] != tid:
                c.discipline.append("thread %d released %s owned by %r" % (tid, self.name, c.owner[self.name]))
            else:
                c.count[self.name] -= 1
                if c.count[self.name] == 0:
                    c.owner[self.name] = None
            c.event(tid, "rel" + self.name)
        self.real.release()

    __enter__ = acquire

    def __exit__(self, *a):
        self.release()


class ICache:
    """stands in for ParserElement.packrat_cache (the methods are looked up on the object at each use)"""

    def __init__(self, ctl, real):
        self.ctl, self.real = ctl, real
        self.not_in_cache = real.not_in_cache
        self.size = getattr(real, "size", None)

    def _chk(self, tid, what):
        c = self.ctl
        if tid is not None and c.owner["P"] != tid:
            c.discipline.append("thread %d did cache.%s while packrat_cache_lock is owned by %r" % (tid, what, c.owner["P"]))

    def get(self, key):
        tid = self.ctl.gate("get")
        self._chk(tid, "get")
        v = self.real.get(key)
        self.ctl.event(tid, "get+" if v is not self.not_in_cache else "get-", self.ctl.keyinfo(key) if self.ctl.keyinfo else None)
        return v

    def set(self, key, value):
        tid = self.ctl.gate("set")
        self._chk(tid, "set")
        self.real.set(key, value)
        self.ctl.event(tid, "set", self.ctl.keyinfo(key) if self.ctl.keyinfo else None)

    def clear(self):
        tid = self.ctl.gate("clear")
        self._chk(tid, "clear")
        self.real.clear()
        self.ctl.event(tid, "clear")


class IMemo:
    """stands in for ParserElement.recursion_memos"""

    def __init__(self, ctl, real):
        self.ctl, self.real = ctl, real

    def __getitem__(self, key):
        tid = self.ctl.gate("mget")
        try:
            v = self.real[key]
        except KeyError:
            self.ctl.event(tid, "mget-", self.ctl.memoinfo(key) if self.ctl.keyinfo else None)
            raise
        self.ctl.event(tid, "mget+", self.ctl.memoinfo(key) if self.ctl.keyinfo else None)
        return v

    def __setitem__(self, key, value):
        tid = self.ctl.gate("mset")
        self.real[key] = value
        self.ctl.event(tid, "mset", self.ctl.memoinfo(key) if self.ctl.keyinfo else None)

    def __delitem__(self, key):
        tid = self.ctl.gate("mdel")
        del self.real[key]
        self.ctl.event(tid, "mdel", self.ctl.memoinfo(key) if self.ctl.keyinfo else None)

    def clear(self):
        tid = self.ctl.gate("mclear")
        self.real.clear()
        self.ctl.event(tid, "mclear")

    def __len__(self):
        return len(self.real)

    def __iter__(self):
        return iter(self.real)

    def __contains__(self, key):
        return key in self.real


def build_grammar(pp, nodes, streamline=True):
    """node table (Model/ThreadsMini.v `node`) -> list of pyparsing elements; index = identity"""
    objs = [None] * len(nodes)
    for i, nd in enumerate(nodes):
        if nd[0] == "fwd":
            objs[i] = pp.Forward()

    def make_action(inner_idx):
        def act(s, l, t):
            try:
                objs[inner_idx].parse_string(t[0])
            except pp.ParseException:
                raise pp.ParseException(s, l, "nested parse failed")
        return act

    def get(i, depth=0):
        if objs[i] is not None:
            return objs[i]
        if depth > len(nodes):
            raise ValueError("cyclic grammar without Forward")
        nd = nodes[i]
        k = nd[0]
        if k == "lit":
            o = pp.Literal(nd[1])
        elif k == "word":
            o = pp.Word(nd[1])
        elif k == "and":
            o = pp.And([get(j, depth + 1) for j in nd[1]])
        elif k == "mf":
            o = pp.MatchFirst([get(j, depth + 1) for j in nd[1]])
        elif k == "opt":
            o = pp.Opt(get(nd[1], depth + 1))
        elif k == "act":
            o = pp.Word(nd[1]).add_parse_action(make_action(nd[2]))
        elif k == "act1":                       # a one-argument parse action (arity discovered on first use)
            o = pp.Word(nd[1]).add_parse_action(lambda t: None)
        elif k == "each":
            o = pp.Each([get(j, depth + 1) for j in nd[1]])
        elif k == "oom":
            o = pp.OneOrMore(get(nd[1], depth + 1))
        else:
            raise ValueError(k)
        objs[i] = o
        return o

    for i in range(len(nodes)):
        get(i)
    for i, nd in enumerate(nodes):
        if nd[0] == "fwd":
            objs[i] <<= objs[nd[1]]
    if streamline:
        for o in objs:
            o.streamline()
    return objs


def gate_targets(pp, gates):
    """{code object: set of line numbers} for source lines (found by their text) at which a thread must stop"""
    import inspect
    out = {}
    for g in gates:
        if g["target"] == "trim_arity_wrapper":
            code = next(c for c in pp.core._trim_arity.__code__.co_consts if hasattr(c, "co_name") and c.co_name == "wrapper")
        elif g["target"] == "Each.parseImpl":
            code = pp.Each.parseImpl.__code__
        else:
            raise ValueError(g["target"])
        src = open(code.co_filename).read().split("\n")
        lines = [ln for ln in range(code.co_firstlineno, code.co_firstlineno + 200)
                 if ln <= len(src) and src[ln - 1].strip() == g["line"]
                 and ln in {l for _, _, l in code.co_lines() if l}]
        if not lines:
            raise ValueError("gate line %r not found in %s" % (g["line"], g["target"]))
        out.setdefault(code, set()).update(lines)
    return out


def canon(pp, fn):
    """canonical outcome of a call: ('ok', value) | ('exc', class name, loc) | ('internal', class name, text)"""
    try:
        v = fn()
    except pp.ParseBaseException as e:
        return ["exc", type(e).__name__, e.loc]
    except _Abort:
        return ["aborted"]
    except BaseException as e:  # noqa
        return ["internal", type(e).__name__, str(e)[:120]]
    return ["ok", v]


def make_job(pp, objs, job):
    kind, idx, s = job
    el = objs[idx]
    if kind == "parse_string":
        return lambda: el.parse_string(s).as_list()
    if kind == "scan_string":
        return lambda: [[t.as_list(), a, b] for t, a, b in el.scan_string(s)]
    if kind == "search_string":
        return lambda: el.search_string(s).as_list()
    raise ValueError(kind)


def set_mode(pp, mode, size):
    PE = pp.ParserElement
    PE.disable_memoization()
    if mode == "packrat":
        PE.enable_packrat(size)
    elif mode == "lr":
        PE.enable_left_recursion()
    elif mode != "nomemo":
        raise ValueError(mode)


class Experiment:
    """one grammar + mode + job list; runs schedules on fresh threads"""

    def __init__(self, pp, spec):
        self.pp, self.spec = pp, spec
        self.PE = pp.ParserElement
        self.mode = spec["mode"]
        self.size = spec.get("size", 128)
        self.fresh = bool(spec.get("fresh"))        # first-use probes: a never-used grammar for every run
        self.jobs = spec["jobs"]
        self.saved = None
        self.targets = gate_targets(pp, spec["gates"]) if spec.get("gates") else None
        set_mode(pp, self.mode, self.size)
        if self.fresh:
            self.serial = [canon(pp, make_job(pp, build_grammar(pp, spec["grammar"], False), j)) for j in self.jobs]
            self.objs = None
        else:
            self.objs = build_grammar(pp, spec["grammar"])
            # warm-up + serial reference, real objects, one call at a time
            self.serial = [canon(pp, make_job(pp, self.objs, j)) for j in self.jobs]
        self.index_of = {id(o): i for i, o in enumerate(self.objs or [])}

    def keyinfo(self, key):
        try:
            return [self.index_of.get(id(key[0]), -1), key[2], bool(key[3]), bool(key[4]), key[1]]
        except Exception:
            return None

    def memoinfo(self, key):
        try:
            return [key[0], self.index_of.get(id(key[1]), -1), bool(key[2])]
        except Exception:
            return None

    def run(self, prefix, policy="stay", detail=False, max_steps=4000):
        """replay `prefix` (list of tids), then continue with the default policy until all threads are done.
        Returns dict(schedule (complete), trace, results, hang, discipline, choices)."""
        pp, PE = self.pp, self.PE
        n = len(self.jobs)
        ctl = Controller(n)
        if detail:
            ctl.keyinfo, ctl.memoinfo = self.keyinfo, self.memoinfo
        set_mode(pp, self.mode, self.size)
        if self.fresh:
            self.objs = build_grammar(pp, self.spec["grammar"], False)
        targets = self.targets
        saved = (PE.packrat_cache_lock, PE.recursion_lock, PE.packrat_cache, PE.recursion_memos)
        results = [None] * n
        threads = []
        sched, choices = [], []
        try:
            PE.packrat_cache_lock = ILock(ctl, "P")
            PE.recursion_lock = ILock(ctl, "R")
            PE.packrat_cache = ICache(ctl, saved[2])
            PE.recursion_memos = IMemo(ctl, saved[3])

            def local_trace(frame, event, arg):
                if event == "line" and frame.f_lineno in targets[frame.f_code]:
                    t = ctl.gate("line")
                    ctl.event(t, "line")
                return local_trace

            def global_trace(frame, event, arg):
                return local_trace if frame.f_code in targets else None

            def body(tid):
                ctl.ident[threading.get_ident()] = tid
                if targets:
                    sys.settrace(global_trace)
                try:
                    results[tid] = canon(pp, make_job(pp, self.objs, self.jobs[tid]))
                finally:
                    sys.settrace(None)
                ctl.done[tid] = True
                ctl.pending[tid] = None
                ctl.ctrl.release()

            for t in range(n):
                th = threading.Thread(target=body, args=(t,), daemon=True)
                threads.append(th)
                th.start()
                if not ctl.wait_parked(t):
                    break
            cur = None
            step = 0
            while ctl.hang is None and step < max_steps:
                en = ctl.enabled()
                if all(ctl.done):
                    break
                if not en:
                    ctl.hang = "deadlock: no thread can proceed (pending=%r owners=%r)" % (ctl.pending, ctl.owner)
                    break
                if step < len(prefix):
                    t = prefix[step]
                else:
                    t = cur if (policy == "stay" and cur in en) else en[0]
                choices.append(en)
                sched.append(t)
                r = ctl.schedule(t)
                step += 1
                if r == "step":
                    cur = t
                elif r == "hang":
                    break
            if step >= max_steps and ctl.hang is None and not all(ctl.done):
                ctl.hang = "step budget exhausted"
        finally:
            ctl.shutdown()
            for th in threads:
                th.join(timeout=1.0)
            ctl.active = False
            PE.packrat_cache_lock, PE.recursion_lock, PE.packrat_cache, PE.recursion_memos = saved
            PE.disable_memoization()
        return {"schedule": sched, "trace": [[t, k] + ([d] if detail else []) for t, k, d in ctl.trace],
                "results": results, "hang": ctl.hang, "discipline": ctl.discipline, "choices": choices}


def explore(exp, bound, limit, blocked_probes=True):
    """all schedules with at most `bound` preemptions (switching away from a thread that could continue);
    stateless DFS by replay.  Yields run dicts."""
    seen = set()
    stack = [([], 0)]
    runs = 0
    failures = 0
    while stack and runs < limit and failures < 3:
        prefix, used = stack.pop()
        r = exp.run(prefix)
        runs += 1
        # a failing schedule outside left-recursion mode is a finding by itself: a few of them are enough, stop widening
        if r["hang"] or r["discipline"] or (exp.mode != "lr" and r["results"] != exp.serial):
            failures += 1
        key = tuple(r["schedule"])
        if key in seen:
            continue
        seen.add(key)
        r["preemptions"] = used
        yield r
        sched, choices = r["schedule"], r["choices"]
        # branch at every position after the prefix
        cur = None
        for i in range(len(sched)):
            if i >= len(prefix):
                for alt in choices[i]:
                    if alt == sched[i]:
                        continue
                    pre = cur is not None and cur in choices[i] and alt != cur
                    cost = used_at(prefix, choices, sched, i) + (1 if pre else 0)
                    if cost <= bound:
                        stack.append((sched[:i] + [alt], cost))
            cur = sched[i]


def used_at(prefix, choices, sched, i):
    """number of preemptions in sched[:i]"""
    n, cur = 0, None
    for j in range(i):
        if cur is not None and cur in choices[j] and sched[j] != cur:
            n += 1
        cur = sched[j]
    return n


def stress(pp, spec, iters, nthreads):
    """free-running threads, real objects; returns list of mismatches"""
    set_mode(pp, spec["mode"], spec.get("size", 128))
    objs = build_grammar(pp, spec["grammar"])
    jobs = spec["jobs"]
    serial = [canon(pp, make_job(pp, objs, j)) for j in jobs]
    bad = []
    old = sys.getswitchinterval()
    sys.setswitchinterval(1e-6)
    barrier = threading.Barrier(nthreads)
    count = [0]

    def body(k):
        barrier.wait()
        for it in range(iters):
            j = (k + it) % len(jobs)
            r = canon(pp, make_job(pp, objs, jobs[j]))
            count[0] += 1
            if r != serial[j] and len(bad) < 20:
                bad.append({"job": jobs[j], "got": r, "serial": serial[j]})
    try:
        ths = [threading.Thread(target=body, args=(k,), daemon=True) for k in range(nthreads)]
        for t in ths:
            t.start()
        deadline = time.time() + 60
        for t in ths:
            t.join(timeout=max(0.1, deadline - time.time()))
        if any(t.is_alive() for t in ths):
            bad.append({"hang": "stress threads still alive after 60s"})
    finally:
        sys.setswitchinterval(old)
        pp.ParserElement.disable_memoization()
    return {"calls": count[0], "bad": bad, "serial": serial}


def worker_main(path):
    import pyparsing as pp
    req = json.load(open(path))
    out = []
    for task in req["tasks"]:
        kind = task["kind"]
        try:
            if kind == "explore":
                exp = Experiment(pp, task["spec"])
                runs = []
                for r in explore(exp, task["bound"], task["limit"]):
                    runs.append({k: v for k, v in r.items() if k != "choices"})
                out.append({"serial": exp.serial, "runs": runs})
            elif kind == "schedules":
                exp = Experiment(pp, task["spec"])
                runs = []
                for s in task["schedules"]:
                    r = exp.run(s, policy=task.get("policy", "stay"), detail=task.get("detail", False))
                    r.pop("choices")
                    runs.append(r)
                out.append({"serial": exp.serial, "runs": runs})
            elif kind == "stress":
                out.append(stress(pp, task["spec"], task["iters"], task["threads"]))
            else:
                out.append({"error": "unknown task"})
        except Exception as e:  # harness problem: report, the plugin turns it into a broken tie
            import traceback
            out.append({"error": "%s: %s" % (type(e).__name__, e), "tb": traceback.format_exc()[-1500:]})
        finally:
            pp.ParserElement.disable_memoization()
    json.dump(out, open(path + ".out", "w"))


if __name__ == "__main__" and len(sys.argv) >= 3 and sys.argv[1] == "worker":
    worker_main(sys.argv[2])
    sys.exit(0)


# =================================================================================================
# Plugin side (runs inside ./check)
# =================================================================================================
from tools import vlib  # noqa: E402

EV_CODE = {"acqP": 1, "relP": 2, "get+": 3, "get-": 4, "set": 5, "clear": 6, "acqR": 7, "relR": 8,
           "mget+": 9, "mget-": 10, "mset": 11, "mdel": 12, "mclear": 13, "block": 15, "done": 16}

DIGITS = "1239"
# right-recursive expression grammar with a shared Forward (packrat: hits after backtracking)
#   expr <<= term '+' expr | term ;  term <<= '(' expr ')' | num
G_EXPR = [["fwd", 1], ["mf", [2, 3]], ["and", [3, 4, 0]], ["fwd", 5], ["lit", "+"], ["mf", [6, 9]],
          ["and", [7, 0, 8]], ["lit", "("], ["lit", ")"], ["word", DIGITS]]
# list of items whose parse action calls another element's parse_string (reset_cache INSIDE the outer parse)
#   lst <<= item ',' lst | item ;  item = Word("ab") + action(inner.parse_string) ;  inner = Word("a") + Opt(Word("b"))... kept tiny
G_ACT = [["fwd", 1], ["mf", [2, 3]], ["and", [3, 4, 0]], ["act", "ab", 5], ["lit", ","], ["and", [6, 7]],
         ["lit", "a"], ["opt", 8], ["word", "ab"]]
# left-recursive:  E <<= E '+' num | num
G_LR = [["fwd", 1], ["mf", [2, 4]], ["and", [0, 3, 4]], ["lit", "+"], ["word", DIGITS]]
# the smallest F-15 shape: a Forward that is not even recursive
G_FW = [["fwd", 1], ["word", "ab"]]

# the left-recursive rule as FIRST element of a sequence: And.parseImpl extends the result the Forward handed back in place
#   S = E ';' ;  E <<= E '+' num | num
G_LR2 = [["and", [1, 6]], ["fwd", 2], ["mf", [3, 5]], ["and", [1, 4, 5]], ["lit", "+"], ["word", DIGITS], ["lit", ";"]]

GRAMMARS = {"expr": G_EXPR, "act": G_ACT, "lr": G_LR, "fw": G_FW, "lr2": G_LR2}

F15_CLASS_WRONG = "F-15:lr:wrong-result-predicted-by-model"
F15_CLASS_KEYERR = "F-15:lr:internal-KeyError-predicted-by-model"


def spec(gname, mode, jobs, size=128):
    return {"gname": gname, "grammar": GRAMMARS[gname], "mode": mode, "size": size, "jobs": jobs}


def spec_id(sp):
    return "%s/%s/%s" % (sp["gname"], sp["mode"], ";".join("%s:%d:%s" % (k[:5], e, s) for k, e, s in sp["jobs"]))


def rle(sched):
    out = []
    for t, g in itertools.groupby(sched):
        n = len(list(g))
        out.append("%d" % t if n == 1 else "%dx%d" % (t, n))
    return ",".join(out)


# ---- Python -> Coq
def coq_nats(s):
    return "[" + ";".join("%d" % ord(c) for c in s) + "]"


def coq_node(nd):
    k = nd[0]
    if k == "lit":
        return "NLit %s" % coq_nats(nd[1])
    if k == "word":
        return "NWord %s" % coq_nats(nd[1])
    if k == "and":
        return "NAnd [%s]" % ";".join(map(str, nd[1]))
    if k == "mf":
        return "NMF [%s]" % ";".join(map(str, nd[1]))
    if k == "opt":
        return "NOpt %d" % nd[1]
    if k == "fwd":
        return "NFwd %d" % nd[1]
    if k == "act":
        return "NAct %s %d" % (coq_nats(nd[1]), nd[2])
    raise ValueError(k)


KIND = {"parse_string": "KParseString", "scan_string": "KScanString"}
PREAMBLE = ("From Coq Require Import List Arith Bool.\nFrom PP Require Import Model.Prog Model.Threads Model.ThreadsMini.\n"
            "Import ListNotations.\n")


def model_exprs(i, sp, schedules):
    """Coq definitions + one expression per schedule"""
    g = "Definition G%d : list node := [%s].\n" % (i, "; ".join(coq_node(n) for n in sp["grammar"]))
    lr = sp["mode"] == "lr"
    jobs = "; ".join("%s %s %d %s" % ("ljob" if lr else "job", KIND[k], e, coq_nats(s)) for k, e, s in sp["jobs"])
    g += "Definition J%d := [%s].\n" % (i, jobs)
    size = "None" if sp.get("size") is None else "(Some %d)" % sp["size"]
    exprs = []
    n = len(sp["jobs"])
    for s in schedules:
        # one extra entry per thread: the model needs a (purely local) step to notice that a thread has finished
        sl = "[%s]" % ";".join(map(str, list(s) + list(range(n))))
        if lr:
            exprs.append("run_lr G%d J%d %s" % (i, i, sl))
        else:
            exprs.append("run_packrat G%d %s %s J%d %s" % (i, size, "true" if sp["mode"] == "packrat" else "false", i, sl))
    return g, exprs


def from_model_outcome(o, jobkind):
    """model outcome -> canonical form used by the worker"""
    if o == "None":
        return ["unfinished"]
    assert o[0] == "Some", o
    o = o[1]
    s = lambda l: "".join(chr(c) for c in l)
    if o == "KeyErr" or o == ("KeyErr",):
        return ["internal", "KeyError"]
    if o[0] == "Ok":
        return ["ok", [s(t) for t in o[2]]]
    if o[0] == "Fail":
        return ["exc", "ParseException", o[1]]
    if o[0] == "Scan":
        return ["ok", [[[s(t) for t in m[0]], m[1], m[2]] for m in o[1]]]
    raise ValueError(o)


def same_outcome(impl, model):
    if impl[0] == "internal":
        return model[0] == "internal" and impl[1] == model[1]
    return impl == model


# ---- subprocess handling
def run_worker(tasks, tag, timeout):
    d = os.path.join(vlib.WORK, "c15")
    os.makedirs(d, exist_ok=True)
    path = os.path.join(d, "task_%s_%d.json" % (tag, os.getpid()))
    json.dump({"tasks": tasks}, open(path, "w"))
    if os.path.exists(path + ".out"):
        os.remove(path + ".out")
    env = dict(os.environ)
    env["PYTHONPATH"] = vlib.REPO + os.pathsep + vlib.VERIF
    try:
        p = subprocess.run([vlib.PY, os.path.abspath(__file__), "worker", path], env=env, timeout=timeout,
                           stdout=subprocess.PIPE, stderr=subprocess.STDOUT, text=True)
        rc, out = p.returncode, p.stdout
    except subprocess.TimeoutExpired as e:
        rc, out = 124, "TIMEOUT after %ss" % timeout
    res = None
    if os.path.exists(path + ".out"):
        try:
            res = json.load(open(path + ".out"))
        except Exception:
            res = None
    for q in (path, path + ".out"):
        if os.path.exists(q):
            os.remove(q)
    return rc, out, res


def run_tasks_parallel(tasks, timeout, workers=6):
    """each task in its own subprocess, a few at a time; returns list aligned with tasks: (rc, out, result-or-None)"""
    from concurrent.futures import ThreadPoolExecutor
    with ThreadPoolExecutor(max_workers=workers) as ex:
        futs = [ex.submit(run_worker, [t], "%d" % i, timeout) for i, t in enumerate(tasks)]
        out = []
        for f in futs:
            rc, o, res = f.result()
            out.append((rc, o, res[0] if res else None))
    return out


# ---- oracle + comparison of one replayed schedule
def judge_run(ctx, sp, serial, run, model, where):
    """serial: impl outcomes alone; run: worker dict; model: (trace codes, outcomes) or None"""
    sid = spec_id(sp)
    sched = run["schedule"]
    key_tail = "%s|sched=%s" % (sid, rle(sched))
    replay = {"kind": "schedule", "spec": sp, "schedule": sched}
    lr = sp["mode"] == "lr"
    agreed = True
    m_out = None
    if model is not None:
        m_trace, m_res = model
        n = len(sp["jobs"])
        if [tuple(x) for x in m_trace[-n:]] != [(t, 16) for t in range(n)] and run["hang"] is None:
            agreed = False
            ctx.broken("correspondence:model threads not finished at the end of %s: %r" % (key_tail[:160], m_trace[-n:]))
        m_trace = m_trace[:-n]
        m_out = [from_model_outcome(o, sp["jobs"][i][0]) for i, o in enumerate(m_res)]
        i_trace = [(t, EV_CODE.get(k, -1)) for t, k in run["trace"]]
        if run["hang"] is None:
            if i_trace != [tuple(x) for x in m_trace]:
                agreed = False
                n = next((j for j, (a, b) in enumerate(zip(i_trace, m_trace)) if tuple(a) != tuple(b)), min(len(i_trace), len(m_trace)))
                ctx.broken("correspondence:event-trace model!=impl %s at step %d impl=%r model=%r" % (
                    key_tail[:160], n, i_trace[n:n + 3], [tuple(x) for x in m_trace[n:n + 3]]))
            for t, (a, b) in enumerate(zip(run["results"], m_out)):
                if not same_outcome(a, b):
                    agreed = False
                    ctx.broken("correspondence:outcome model!=impl %s thread %d impl=%r model=%r" % (key_tail[:160], t, a, b))
    # the property's own oracle, on the implementation
    if run["hang"] is not None:
        ctx.violation("hang:" + key_tail, "%s: %s" % (where, run["hang"]), replay)
    for dmsg in run["discipline"][:1]:
        ctx.violation("discipline:" + key_tail, "%s: %s" % (where, dmsg), replay)
    for t, (got, ser) in enumerate(zip(run["results"], serial)):
        if run["hang"] is not None:
            break
        if got != ser:
            what = "%s: thread %d %r returned %r, alone it returns %r (schedule %s)" % (
                where, t, sp["jobs"][t], got, ser, rle(sched))
            predicted = m_out is not None and same_outcome(got, m_out[t])
            if lr and predicted and got[0] == "internal" and got[1] == "KeyError":
                ctx.violation(F15_CLASS_KEYERR, what, replay)
                ctx.stat("lr_schedules_with_keyerror")
            elif lr and predicted and got[0] in ("ok", "exc"):
                ctx.violation(F15_CLASS_WRONG, what, replay)
                ctx.stat("lr_schedules_with_wrong_result")
            else:
                ctx.violation("outcome:%s|thread=%d" % (key_tail, t), what, replay)
    switches = sum(1 for a, b in zip(sched, sched[1:]) if a != b)
    hits = sum(1 for _, k in run["trace"] if k in ("get+", "mget+"))
    ctx.case(key_tail, nontrivial=(switches >= 1 and hits >= 1), agreed=agreed)
    return agreed


def eval_model(ctx, jobs, tag):
    """jobs: list of (spec, [schedules]); returns list of lists of (trace, outcomes) or None on failure"""
    pre = PREAMBLE
    exprs, index = [], []
    for i, (sp, scheds) in enumerate(jobs):
        g, ex = model_exprs(i, sp, scheds)
        pre += g
        index.append((len(exprs), len(ex)))
        exprs += ex
    if not exprs:
        return [[] for _ in jobs]
    out = []
    CH = 1500
    try:
        for c in range(0, len(exprs), CH):
            out += vlib.coq_eval_terms("c15_%s_%d" % (tag, c), pre, exprs[c:c + CH], timeout=900)
    except Exception as e:
        ctx.broken("correspondence:model-eval (%s)" % str(e)[-300:])
        return None
    return [out[a:a + n] for a, n in index]


# ---- the case families
def job_sets(thorough):
    ps, sc = "parse_string", "scan_string"
    explore = [
        # (spec, preemption bound)
        (spec("expr", "packrat", [[ps, 0, "1+2"], [ps, 0, "(1)"]]), 2),
        (spec("expr", "packrat", [[ps, 0, "1+2"], [ps, 0, "1+2"]]), 2),                 # same input: cross-thread hits
        (spec("expr", "packrat", [[ps, 0, "1+"], [ps, 0, "(2)+3"]], size=2), 2),          # failure; tiny FIFO
        (spec("expr", "packrat", [[sc, 0, "1+2)3"], [ps, 0, "(1)"]], size=None), 2),      # scan_string; unbounded cache
        (spec("expr", "packrat", [[sc, 0, "1)2"], [sc, 0, "(3"]]), 3),
        (spec("act", "packrat", [[ps, 0, "ab,b"], [ps, 0, "a"]]), 2),                      # nested parse_string in an action
        (spec("act", "packrat", [[ps, 0, "a,ab"], [sc, 0, "ab,a"]]), 2),
        (spec("expr", "nomemo", [[ps, 0, "1+2"], [sc, 0, "(1)2"]]), 3),
        (spec("act", "nomemo", [[ps, 0, "ab,b"], [ps, 0, "a,ab"]]), 3),
        (spec("lr", "lr", [[ps, 0, "1+2+3"], [ps, 0, "9"]]), 2),
        (spec("lr", "lr", [[ps, 0, "1+2"], [ps, 0, "1+2"]]), 2),
        (spec("fw", "lr", [[ps, 0, "a"], [ps, 0, "b"]]), 3),
        (spec("lr2", "lr", [[ps, 0, "1+2;"], [ps, 0, "1+2;"]]), 2),                         # same input: the second thread reads the first one's memo entries
        (spec("lr", "lr", [[sc, 0, "1+2"], [ps, 0, "3"]]), 1),
        # parse action calling parse_string below a Forward: reset_cache (packrat_cache_lock) while holding recursion_lock
        (spec("act", "lr", [[ps, 0, "ab,b"], [ps, 0, "a"]]), 2),
    ]
    if thorough:
        explore += [
            (spec("expr", "packrat", [[ps, 0, "(1+2)+3"], [ps, 0, "1+(2+3)"]]), 3),
            (spec("expr", "packrat", [[sc, 0, "1+2)(3)"], [sc, 0, "(1)+2"]], size=1), 3),
            (spec("act", "packrat", [[sc, 0, "ab,b,a"], [ps, 0, "a,a"]]), 3),
            (spec("lr", "lr", [[ps, 0, "1+2+3"], [ps, 0, "9"]]), 3),
            (spec("lr", "lr", [[ps, 0, "1+2+3"], [ps, 0, "1+2"]]), 2),
        ]
    three = [
        spec("expr", "packrat", [[ps, 0, "1+2"], [ps, 0, "(1)"], [sc, 0, "2)1"]]),
        spec("act", "packrat", [[ps, 0, "ab,b"], [ps, 0, "a"], [ps, 0, "b"]], size=3),
        spec("expr", "nomemo", [[ps, 0, "1+2"], [ps, 0, "(1)"], [sc, 0, "2)1"]]),
        spec("lr", "lr", [[ps, 0, "1+2+3"], [ps, 0, "9"], [ps, 0, "1+2"]]),
    ]
    return explore, three


# first-use races outside the two caches (not in the Coq model): deterministic probes with line-level gates (sys.settrace)
# on a NEVER-USED grammar per run.  In packrat mode the outermost `_parseCache` serialises them (must not fail there).
PROBE_KEYS = {
    "trim_arity": "F-15b:first-use:_trim_arity:two-threads-first-call-of-1-arg-parse-action:TypeError",
    "each_init": "F-15c:first-use:Each.initExprGroups:OneOrMore(x)&y:required-list-extended-twice:ParseException",
    # the other thread is let in while the first one has only just begun the one-time grouping: on the unchanged tree it repeats the
    # grouping for itself and both answer as alone (no finding recorded under this key)
    "each_init_early": "first-use:Each.initExprGroups:second-thread-enters-during-grouping:<none-recorded>",
}


def probe_specs():
    out = []
    for mode in ("nomemo", "packrat"):
        out.append({"mode": mode, "size": 128, "fresh": True, "probe": "trim_arity", "gname": "probe-arity",
                    "grammar": [["act1", "ab"]], "jobs": [["parse_string", 0, "a"], ["parse_string", 0, "b"]],
                    "gates": [{"target": "trim_arity_wrapper", "line": "limit += 1"}]})
        out.append({"mode": mode, "size": 128, "fresh": True, "probe": "each_init", "gname": "probe-each",
                    "grammar": [["each", [1, 3]], ["oom", 2], ["lit", "x"], ["lit", "y"]],
                    "jobs": [["parse_string", 0, "xy"], ["parse_string", 0, "yx"]],
                    "gates": [{"target": "Each.parseImpl", "line": "self.required += self.multirequired"}]})
        out.append({"mode": mode, "size": 128, "fresh": True, "probe": "each_init_early", "gname": "probe-each-early",
                    "grammar": [["each", [1, 3]], ["oom", 2], ["lit", "x"], ["lit", "y"]],
                    "jobs": [["parse_string", 0, "xy"], ["parse_string", 0, "yx"]],
                    "gates": [{"target": "Each.parseImpl", "line": "opt1 = [e.expr for e in self.exprs if isinstance(e, Opt)]"}]})
    return out


def judge_probe(ctx, sp, serial, run):
    key_tail = "%s|sched=%s" % (spec_id(sp), rle(run["schedule"]))
    replay = {"kind": "schedule", "spec": sp, "schedule": run["schedule"]}
    if run["hang"] is not None:
        ctx.violation("hang:" + key_tail, "probe: " + run["hang"], replay)
    for d in run["discipline"][:1]:
        ctx.violation("discipline:" + key_tail, "probe: " + d, replay)
    for t, (got, ser) in enumerate(zip(run["results"], serial)):
        if run["hang"] is None and got != ser:
            what = "first-use probe %s (%s): thread %d %r returned %r, alone (fresh grammar) it returns %r (schedule %s, stops at %r)" % (
                sp["probe"], sp["mode"], t, sp["jobs"][t], got, ser, rle(run["schedule"]), sp["gates"][0]["line"])
            if sp["mode"] != "packrat":
                # the recorded findings are keyed by their symptom: another exception class is another defect
                known_key = PROBE_KEYS[sp["probe"]]
                symptom = known_key.rsplit(":", 1)[1]
                key = known_key if symptom in repr(got) else "first-use:%s:%s|%s" % (sp["probe"], repr(got)[:80], key_tail)
                ctx.violation(key, what, replay)
                ctx.stat("probe_failures_" + sp["probe"])
            else:
                ctx.violation("outcome:%s|thread=%d" % (key_tail, t), what, replay)
    ctx.case(key_tail, nontrivial=True, agreed=True)


WITNESSES = [
    # the F-15 witnesses of Props/C15.v at the granularity of visible operations
    ("F-15:witness:E<<=E+num|num:parse_string(1+2+3)||parse_string(9):t0.reset,t1.reset,t0.parse,t1.parse",
     spec("lr", "lr", [["parse_string", 0, "1+2+3"], ["parse_string", 0, "9"]]), [0] * 4 + [1] * 4 + [0]),
    ("F-15:witness:F<<=Word(ab):parse_string(a)||parse_string(b):t0.reset,t1.reset,t0.parse,t1.parse",
     spec("fw", "lr", [["parse_string", 0, "a"], ["parse_string", 0, "b"]]), [0] * 4 + [1] * 4 + [0]),
    ("F-15:witness:E<<=E+num|num:parse_string(1+2+3)||parse_string(9):t1.reset-inside-t0.Forward.parseImpl:KeyError",
     spec("lr", "lr", [["parse_string", 0, "1+2+3"], ["parse_string", 0, "9"]]), [0] * 7 + [1] * 4 + [0]),
]


def random_schedules(rng, nthreads, count, length):
    out = [[t for _ in range(length) for t in range(nthreads)]]          # round robin: plenty of `block` entries
    for _ in range(count):
        s, cur = [], rng.randrange(nthreads)
        for _ in range(length):
            if rng.random() < 0.25:
                cur = rng.randrange(nthreads)
            s.append(cur)
        out.append(s)
    return out


def correspond(ctx):
    explore, three = job_sets(ctx.thorough)
    rng = ctx.rng
    nrand = 60 if ctx.thorough else 12
    tasks, meta = [], []
    for sp, bound in explore:
        tasks.append({"kind": "explore", "spec": sp, "bound": bound, "limit": 6000 if ctx.thorough else 1500})
        meta.append(("explore", sp, None))
    for sp in three:
        tasks.append({"kind": "schedules", "spec": sp, "schedules": random_schedules(rng, 3, nrand, 120)})
        meta.append(("random3", sp, None))
    for sp, bound in explore[:9:2]:
        tasks.append({"kind": "schedules", "spec": sp, "schedules": random_schedules(rng, 2, 4, 150)})
        meta.append(("random2", sp, None))
    for key, sp, pre in WITNESSES:
        tasks.append({"kind": "schedules", "spec": sp, "schedules": [pre]})
        meta.append(("witness", sp, key))
    for sp in probe_specs():
        tasks.append({"kind": "explore", "spec": sp, "bound": 2, "limit": 400})
        meta.append(("probe", sp, None))
    iters = 400 if ctx.thorough else 120
    stress_specs = [spec("expr", "packrat", [["parse_string", 0, "1+2"], ["parse_string", 0, "(1)"], ["scan_string", 0, "2)1"],
                                             ["parse_string", 0, "1+2"], ["parse_string", 0, "1+"]], size=4),
                    spec("act", "packrat", [["parse_string", 0, "ab,b"], ["parse_string", 0, "a,ab"], ["scan_string", 0, "b,a"]]),
                    spec("expr", "nomemo", [["parse_string", 0, "1+2"], ["parse_string", 0, "(1)"], ["scan_string", 0, "2)1"]]),
                    spec("lr", "lr", [["parse_string", 0, "1+2+3"], ["parse_string", 0, "9"], ["parse_string", 0, "1+2"]])]
    for sp in stress_specs:
        tasks.append({"kind": "stress", "spec": sp, "iters": iters, "threads": 4})
        meta.append(("stress", sp, None))

    results = run_tasks_parallel(tasks, timeout=900 if ctx.thorough else 150)

    # model evaluation of every replayed schedule, one coqc run
    jobs, slot = [], {}
    for i, ((fam, sp, key), (rc, out, res)) in enumerate(zip(meta, results)):
        if fam == "stress":
            continue
        if fam == "probe" and res is not None and "error" not in res:
            for run in res["runs"]:
                judge_probe(ctx, sp, res["serial"], run)
                ctx.stat("schedules_probe")
            continue
        if res is None or "error" in (res or {}):
            ctx.broken("correspondence:worker failed for %s/%s rc=%s %s" % (fam, spec_id(sp), rc, (res or {}).get("error", out[-200:])))
            if rc == 124:
                ctx.violation("hang:subprocess:%s/%s" % (fam, spec_id(sp)),
                              "the thread experiment did not finish within its hard timeout (deadlock?)",
                              {"kind": "task", "task": tasks[i]})
            continue
        slot[i] = len(jobs)
        jobs.append((sp, [r["schedule"] for r in res["runs"]]))
    models = eval_model(ctx, jobs, "q")

    for i, ((fam, sp, key), (rc, out, res)) in enumerate(zip(meta, results)):
        if fam == "stress":
            judge_stress(ctx, sp, rc, out, res, tasks[i])
            continue
        if i not in slot:
            continue
        ms = models[slot[i]] if models is not None else [None] * len(res["runs"])
        for run, m in zip(res["runs"], ms):
            if fam == "witness":
                judge_witness(ctx, sp, res["serial"], run, m, key)
            else:
                judge_run(ctx, sp, res["serial"], run, m, fam)
            ctx.stat("schedules_" + fam)
            ctx.stat("schedules_mode_" + sp["mode"])
        if fam == "explore":
            ctx.coverage_extra.setdefault("explored", {})[spec_id(sp)] = {
                "schedules": len(res["runs"]), "preemption_bound": tasks[i]["bound"],
                "complete_within_bound": len(res["runs"]) < tasks[i]["limit"],
                "max_steps": max(len(r["schedule"]) for r in res["runs"])}
            ctx.sample({"spec": spec_id(sp), "schedule": rle(res["runs"][-1]["schedule"]), "results": res["runs"][-1]["results"]}, limit=6)
    ctx.coverage_extra["scope"] = ("2 threads: all schedules within the preemption bound per job set; 3 threads: seeded random "
                                   "schedules; grammars: %s" % ", ".join(sorted(GRAMMARS)))


def judge_witness(ctx, sp, serial, run, model, key):
    """the refutation witnesses: when the implementation shows the failure the model predicts, report it under the
    witness's own key; everything else goes through the normal judgement"""
    n0 = len(ctx.violations) + len(ctx.known_hit)
    sub = vlib.Ctx(ctx.prop, ctx.tier, ctx.seed)
    sub.known = {}
    judge_run(sub, sp, serial, run, model, "witness")
    for b in sub.tie_broken:
        ctx.broken(b)
    shown = False
    for v in sub.violations:
        if v["key"] in (F15_CLASS_WRONG, F15_CLASS_KEYERR):
            ctx.violation(key, v["what"], v["replay"])
            shown = True
        else:
            ctx.violation(v["key"], v["what"], v["replay"])
    ctx.case(key, nontrivial=True, agreed=not sub.tie_broken)
    ctx.stat("witness_reproduced_on_implementation" if shown else "witness_not_reproduced")
    ctx.coverage_extra.setdefault("witnesses", {})[key] = {"reproduced": shown, "results": run["results"], "serial": serial}


def judge_stress(ctx, sp, rc, out, res, task):
    sid = spec_id(sp)
    if res is None or "error" in res:
        if rc == 124:
            ctx.violation("hang:stress:" + sid, "free-running stress did not finish within its hard timeout (deadlock?)",
                          {"kind": "task", "task": task})
        else:
            ctx.broken("correspondence:stress worker failed %s rc=%s %s" % (sid, rc, (res or {}).get("error", out[-200:])))
        return
    ctx.stat("stress_calls_" + sp["mode"], res["calls"])
    ctx.evaluations += res["calls"]
    for b in res["bad"]:
        if "hang" in b:
            ctx.violation("hang:stress:" + sid, b["hang"], {"kind": "task", "task": task})
        elif sp["mode"] == "lr":
            # timing dependent and already refuted by the controlled witnesses: one class key, counted
            ctx.violation("F-15:lr:free-running-stress", "stress: %r returned %r, alone %r" % (b["job"], b["got"], b["serial"]),
                          {"kind": "task", "task": task})
            ctx.stat("lr_stress_mismatches")
        else:
            ctx.violation("stress:%s|job=%s:%d:%s" % (sid, b["job"][0], b["job"][1], b["job"][2]),
                          "stress: %r returned %r, alone %r" % (b["job"], b["got"], b["serial"]), {"kind": "task", "task": task})


def search(ctx, reasons):
    """the tie is broken and no failing schedule has been found yet: widen on the implementation oracle"""
    explore, three = job_sets(True)
    tasks, meta = [], []
    for sp, bound in explore:
        tasks.append({"kind": "explore", "spec": sp, "bound": bound + 1, "limit": 4000})
        meta.append(sp)
    for sp in three:
        tasks.append({"kind": "schedules", "spec": sp, "schedules": random_schedules(ctx.rng, 3, 150, 150)})
        meta.append(sp)
    results = run_tasks_parallel(tasks, timeout=600)
    for sp, (rc, out, res) in zip(meta, results):
        if res is None or "error" in res:
            continue
        for run in res["runs"]:
            judge_run(ctx, sp, res["serial"], run, None, "search")
            ctx.stat("search_schedules")


def replay(ctx, obj):
    r = obj["replay"]
    if r.get("kind") == "schedule":
        rc, out, res = run_worker([{"kind": "schedules", "spec": r["spec"], "schedules": [r["schedule"]], "detail": True}], "replay", 120)
        if not res or "error" in res[0]:
            print("replay could not run: rc=%s %s" % (rc, (res or [{}])[0].get("error", out[-300:])))
            return False
        run, serial = res[0]["runs"][0], res[0]["serial"]
        print("spec      :", spec_id(r["spec"]))
        print("schedule  :", rle(run["schedule"]))
        print("alone     :", serial)
        print("concurrent:", run["results"])
        print("hang      :", run["hang"])
        print("discipline:", run["discipline"][:3])
        ok = run["hang"] is None and not run["discipline"] and run["results"] == serial
        return ok
    if r.get("kind") == "task":
        rc, out, res = run_worker([r["task"]], "replay", 300)
        if rc == 124 or not res:
            print("did not finish: rc=%s" % rc)
            return False
        print(json.dumps(res[0])[:1500])
        return not res[0].get("bad") and "error" not in res[0]
    print("replay names a broken proof/correspondence obligation: %r" % (r,))
    return False
