"""C18 — built-in expressions and helpers conform to their reference definitions (partial).

Correspondence on the REAL code, in five families:
 (a) every GenRegex pattern: Coq matcher (Model/Regex.v, through its Python transcription which is itself cross-checked
     against vm_compute on a sample) vs Python `re` vs the compiled pattern object of the real expression, on all
     strings up to length n over per-pattern alphabets; the reference grammars (rx_match g_py_float / g_py_int10 /
     g_py_int16 / py_int) vs Python's own float() / int() on the same kind of enumeration;
 (b) numeric expressions: parse + convert vs int()/float() (type and value, nan aware), both directions of the
     documented syntax; `number` typing; fraction / mixed_integer arithmetic;
 (c) ipv4 / ipv6 / mac / uuid / iso8601 vs ipaddress / uuid / datetime on generated well-formed and near-miss strings
     (correspondence ONLY: those modules are not modelled);
 (d) QuotedString over the parameter grid x all contents up to length n: model (Model/Quoted.v) vs implementation,
     pattern construction compared structurally, and the round-trip oracle on the implementation whose scope is, per
     configuration, the hypothesis of the Coq round-trip theorem (plain_hyp / escq_hyp / both_hyp / roundtrip_hyp,
     transcribed in py_scope and compared with Model.Quoted.qs_scope on every model case);
 (e) nested_expr / DelimitedList / counted_array on enumerated inputs vs model and vs the property oracle.
Known defects of the unchanged tree are reported under stable class keys (known_findings.txt)."""
import itertools, math, re, sys
from tools import vlib, regex_ast

PROP = "C18"
GEN = ["gen_regex", "gen_helpers"]
RULE = ("(a) all strings <= n over per-pattern alphabets: model matcher == re.fullmatch == expression.re.fullmatch; "
        "reference grammars == float()/int() acceptance, py_int == int() value; (b) all strings <= n over "
        "'+-.eE09 xnaif_': parse+convert vs int()/float() both directions, number typing; (c) generated well-formed + "
        "near-miss addresses/uuids/dates vs ipaddress/uuid/datetime; (d) QuotedString grid x contents <= n: model == "
        "impl, round trip; (e) nested_expr/DelimitedList/counted_array enumerations; non-trivial = accepted by at "
        "least one side")
TRUSTED = ["Model/Regex.v stands for CPython's `re` on the patterns pyparsing ships (ASCII categories); validated against `re` every run",
           "g_py_float / g_py_int10 / g_py_int16 / py_int stand for float() / int(): validated against CPython every run on exhaustive small scopes",
           "ipaddress, uuid, datetime are NOT modelled: agreement with them is established by correspondence only (partial)",
           "float values are compared with CPython by correspondence only (float arithmetic is not modelled)"]
EXPLANATION = ("partial: syntax/convertibility/integer values, QuotedString round trip (under hypotheses), nested_expr, "
               "DelimitedList arithmetic and counted_array are theorems; agreement with ipaddress/uuid/datetime, "
               "mac_address (back-reference) and float values are correspondence only")

NUM_ALPHA = "+-.eE09 xnaif_"
PRE = ("From Coq Require Import List ZArith NArith Bool.\n"
       "From PP Require Import Model.Str Model.Regex Model.Enum Model.Builtins Gen.GenRegex.\n"
       "Import ListNotations.\n")


# ------------------------------------------------------------------------------------------------ helpers
def gen_info():
    from tools.translate import gen_regex
    gen_regex.generate(vlib.REPO)
    return dict(gen_regex.LAST)


def all_strings(alpha, n, lo=0):
    for k in range(lo, n + 1):
        for t in itertools.product(alpha, repeat=k):
            yield "".join(t)


def same_value(a, b):
    if isinstance(a, float) and isinstance(b, float) and math.isnan(a) and math.isnan(b):
        return True
    return type(a) is type(b) and a == b


def conv_ok(f, s, *a):
    try:
        return ("ok", f(s, *a))
    except ValueError:
        return ("err",)


def pp_parse(expr, s):
    """('ok', tokens list) | ('err',) | ('exc', class name)"""
    import pyparsing as pp
    try:
        return ("ok", expr.parse_string(s, parse_all=True).as_list())
    except pp.ParseBaseException:
        return ("err",)
    except RecursionError:
        return ("exc", "RecursionError")
    except Exception as e:  # anything else escaping a built-in is itself a finding
        return ("exc", type(e).__name__)


# ------------------------------------------------------------------------------------------------ (a) patterns
PATTERN_ALPHA = {
    "integer": "09+- _a", "signed_integer": "09+- _a", "hex_integer": "09afAFgx_",
    "real": "+-.e09 ", "sci_real": "+-.eE09", "fnumber": "+-.eE09", "ieee_float": "+-.e0nNaif",
    "identifier": "aZ_09 -\xe9\xb7", "ipv4_address": "0125.", "ipv6_part": "0afFg:", "uuid": "0aF-g",
    "iso8601_date": "019-", "iso8601_datetime": "09-T :.Z+",
}
EXTRA = {
    "ieee_float": ["inf", "nan", "infinity", "+inf", "-Infinity", "iNf", "infinit", "nane", "INFINITY", "infinityy", "-nan", "+NaN",
                   "1e5", "1.e5", ".5", "5.", "1_0", " 1", "i", "in", "infi", "infin", "infini", "1.5e-3", "1e", "1e+", "++1"],
    "uuid": ["12345678-1234-5678-1234-567812345678", "12345678-1234-5678-1234-56781234567", "12345678-1234-5678-1234-5678123456789",
             "1234567-1234-5678-1234-567812345678", "12345678-1234-5678-1234-56781234567g", "ABCDEFab-1234-5678-1234-567812345678",
             "12345678123456781234567812345678", "12345678-1234-5678-1234567812345678", "12345678-1234-5678-1234--567812345678"],
    "ipv4_address": ["1.2.3.4", "255.255.255.255", "256.1.1.1", "1.2.3", "1.2.3.4.5", "01.2.3.4", "00.0.0.0", "001.2.3.4", "1.2.3.04",
                     "199.249.250.99", "1..2.3", "1.2.3.4.", ".1.2.3.4", "300.1.1.1", "25.5.0.0", "2.55.0.1"],
    "iso8601_date": ["1999", "1999-12", "1999-12-31", "1999-1", "1999-12-3", "199", "19999", "1999-12-31-", "1999--12", "1999-12-311"],
    "iso8601_datetime": ["1999-12-31T23:59:59.999", "1999-12-31 23:59:59", "1999-12-31T23:59", "1999-12-31T23:59:", "1999-12-31T23:59:59.",
                         "1999-12-31T23:59:59Z", "1999-12-31T23:59:59+01:00", "1999-12-31T23:59:59+0100", "1999-12-31T23:59Z",
                         "1999-12-31T23:59:Z", "1999-12-31t23:59:59", "1999-12-31T23", "1999-12-31T23:59:5", "1999-12-31T23:59:59+01",
                         "1999-12-31T23:59:59+01:0", "1999-12-31T23:59:59.1234567-0000", "1999-12-31T23:59::"],
    "ipv6_part": ["0", "ffff", "FFFF", "12345", "", "g", "abcd", "abcde"],
}


def part_a(ctx, info):
    import pyparsing as pp
    from pyparsing import pyparsing_common as ppc
    n = 5 if ctx.thorough else 4
    trees, pats = {}, {}
    for name, pat in info["regex"].items():
        try:
            trees[name] = regex_ast.to_tree(pat)
            pats[name] = pat
        except regex_ast.Unsupported:
            ctx.stat("patterns_unsupported")
    for name, t in info["word_tree"].items():
        trees[name] = t
    real_re = {}
    for name in trees:
        e = getattr(ppc, name, None) or getattr(ppc, "_" + name)
        real_re[name] = e.re
    coq_exprs, coq_expect = [], []
    for name, tree in sorted(trees.items()):
        alpha = PATTERN_ALPHA[name]
        strs = list(all_strings(alpha, n)) + EXTRA.get(name, [])
        rre = real_re[name]
        pre = re.compile(pats[name]) if name in pats else None
        bad = 0
        for s in strs:
            m = regex_ast.py_fullmatch(tree, s)
            r = rre.fullmatch(s) is not None
            ok = (m == r) and (pre is None or (pre.fullmatch(s) is not None) == r)
            ctx.case(("re", name, s), nontrivial=r or m, agreed=ok)
            if not ok and bad < 3:
                bad += 1
                ctx.broken("correspondence:pattern %s model=%r re=%r on %r" % (name, m, r, s))
        ctx.stat("pattern_strings", len(strs))
        # the Python transcription against the Coq matcher itself on a sample (all strings <= 3 + extras)
        sample = list(all_strings(alpha, 3))
        coq_exprs.append("map (re_fullmatch re_%s) (strings_upto %s 3 ++ [%s])" % (
            name, vlib.coq_str(alpha), "; ".join(vlib.coq_str(x) for x in EXTRA.get(name, []))))
        coq_expect.append((name, [regex_ast.py_fullmatch(tree, s) for s in sample + EXTRA.get(name, [])]))

    # reference grammars and py_int against float()/int()
    lit_alpha = "+-.e0_ 1"
    lits = list(all_strings(lit_alpha, 4)) + [
        "inf", "nan", "infinity", "+inf", "-Infinity", "iNf", "infinit", "nane", " nan ", "in f", "1e1_0", "1_e1", "1._5", "1.5_5",
        "1_000.000_1e1_0", "\t1\n", "\x1c1\x1f", "1\x0b", "0x1", "1e-_1", "1__0", "_1", "1_", ".", "e1", "+.e1", "1.e", "1.e1", "-.5e+0"]
    hex_alpha = "0fAx_ -g"
    hexs = list(all_strings(hex_alpha, 4)) + ["0x_1f", "0X1F", "0x", "0xg", " -0x1_f ", "0x__1", "_0x1", "0_x1", "+0Xa_b", "0x1_"]
    coq_exprs.append("map (fun s => (py_float_literal s, py_int 10 s)) [%s]" % "; ".join(vlib.coq_str(x) for x in lits))
    coq_exprs.append("map (py_int 16) [%s]" % "; ".join(vlib.coq_str(x) for x in hexs))
    try:
        res = vlib.coq_eval_terms("c18_patterns", PRE, coq_exprs, timeout=900)
    except Exception as e:
        ctx.broken("correspondence:model-eval patterns (%s)" % str(e)[:300])
        return
    for (name, expect), got in zip(coq_expect, res):
        if list(got) != expect:
            k = next(i for i, (x, y) in enumerate(zip(got, expect)) if x != y) if len(got) == len(expect) else -1
            ctx.broken("correspondence:python transcription of the matcher != Coq matcher for %s (index %d)" % (name, k))
        ctx.stat("matcher_crosscheck", len(expect))
    flo = res[len(coq_expect)]
    for s, (mf, mi) in zip(lits, flo):
        pf = conv_ok(float, s)[0] == "ok"
        pi = conv_ok(int, s)
        agreed = (mf == pf) and ((mi == "None") == (pi[0] == "err")) and (pi[0] == "err" or mi == ("Some", pi[1]))
        ctx.case(("lit", s), nontrivial=pf, agreed=agreed)
        if not agreed:
            ctx.broken("correspondence:reference grammar vs float()/int() on %r: model float=%r int=%r, python float=%r int=%r" % (s, mf, mi, pf, pi))
    for s, mi in zip(hexs, res[len(coq_expect) + 1]):
        pi = conv_ok(int, s, 16)
        agreed = ((mi == "None") == (pi[0] == "err")) and (pi[0] == "err" or mi == ("Some", pi[1]))
        ctx.case(("hexlit", s), nontrivial=pi[0] == "ok", agreed=agreed)
        if not agreed:
            ctx.broken("correspondence:py_int 16 vs int(.,16) on %r: model %r python %r" % (s, mi, pi))
    ctx.stat("literal_strings", len(lits) + len(hexs))


# ------------------------------------------------------------------------------------------------ (b) numeric
DIG = set("0123456789")


def documented(name, s):
    """the documented syntax, phrased with Python's own converters (mirrors Model/Builtins.v g_<name>)"""
    cs = set(s)
    if name == "integer":
        return cs <= DIG and conv_ok(int, s)[0] == "ok"
    if name == "signed_integer":
        return cs <= DIG | set("+-") and conv_ok(int, s)[0] == "ok"
    if name == "hex_integer":
        return cs <= set("0123456789abcdefABCDEF") and conv_ok(int, s, 16)[0] == "ok"
    if name == "real":
        return cs <= DIG | set("+-.") and "." in s and conv_ok(float, s)[0] == "ok"
    if name == "sci_real":
        return cs <= DIG | set("+-.eE") and bool(cs & set(".eE")) and conv_ok(float, s)[0] == "ok"
    if name in ("number", "fnumber"):
        return cs <= DIG | set("+-.eE") and conv_ok(float, s)[0] == "ok"
    if name == "ieee_float":
        return s == s.strip() and "_" not in s and s != "" and all(ord(c) < 128 for c in s) and conv_ok(float, s)[0] == "ok"
    raise KeyError(name)


def numeric_key(name, s, kind):
    if kind == "reject" and name in ("fnumber", "ieee_float") and re.fullmatch(r"[+-]?\.[0-9]+([eE][+-]?[0-9]+)?", s):
        return "%s:leading-dot" % name
    return "numeric:%s:%s:%r" % (name, kind, s)


def numeric_oracle(name, expr, s, info):
    """returns None or (key, description) -- the property on the implementation"""
    got = pp_parse(expr, s)
    if got[0] == "exc":
        return ("numeric:%s:raises:%r" % (name, s), "%s raises %s on %r" % (name, got[1], s))
    text = s.strip(" \t\n\r")   # pyparsing skips its default white space around the token
    if got[0] == "ok":
        v = got[1][0]
        if name == "number":
            f = int if isinstance(v, int) else float
            want_int = documented("signed_integer", text)
            if want_int != isinstance(v, int):
                return (numeric_key(name, s, "type"), "number returns %s for %r" % (type(v).__name__, s))
            ref = conv_ok(f, text)
        elif name == "hex_integer":
            ref = conv_ok(int, text, 16)
        else:
            ref = conv_ok(int if info["conv"][name].startswith("ConvInt") else float, text)
        if ref[0] != "ok" or not same_value(ref[1], v):
            return (numeric_key(name, s, "accept"), "%s accepts %r and returns %r; the Python converter gives %r" % (name, s, v, ref))
        if not documented(name, text):
            return (numeric_key(name, s, "accept-undocumented"), "%s accepts %r outside its documented syntax" % (name, s))
    else:
        if s == text and documented(name, s):
            return (numeric_key(name, s, "reject"), "%s rejects %r although it is in its documented syntax" % (name, s))
    return None


def part_b(ctx, info):
    from pyparsing import pyparsing_common as ppc
    n = 5 if ctx.thorough else 4
    names = ["integer", "signed_integer", "hex_integer", "real", "sci_real", "number", "fnumber", "ieee_float"]
    strs = list(all_strings(NUM_ALPHA, n)) + EXTRA["ieee_float"] + ["1e400", "-1e400", "1e-400", "0" * 30 + "1", "9" * 40, "1." + "0" * 40 + "1",
                                                                   "123456789012345678901234567890", "0.1", "1e22", "1e23", "4.35", "2.675e2"]
    rng = ctx.rng
    for _ in range(3000 if not ctx.thorough else 30000):     # random near-misses, longer
        k = rng.randint(5, 12)
        strs.append("".join(rng.choice("+-.eE0123456789" if rng.random() < 0.8 else NUM_ALPHA + "abcdefABCDEF") for _ in range(k)))
    for name in names:
        expr = getattr(ppc, name)
        for s in strs:
            bad = numeric_oracle(name, expr, s, info)
            if bad:
                viol(ctx, bad[0], bad[1], {"kind": "numeric", "expr": name, "s": s})
            ctx.case(("num", name, s), nontrivial=False, agreed=True)
    ctx.stat("numeric_strings", len(strs) * len(names))
    # model of `number` (MatchFirst over the generated alternatives) against the implementation
    alts = [(a, regex_ast.to_tree(info["regex"][a]), info["conv"][a]) for a in info["number"]]
    for s in all_strings("+-.eE09", n):
        mv = None
        for a, tree, cv in alts:
            e = regex_ast.py_match(tree, s)
            if e is not None:
                mv = cv if e == len(s) else None
                break
        got = pp_parse(ppc.number, s)
        iv = None if got[0] != "ok" else ("ConvInt 10" if isinstance(got[1][0], int) else "ConvFloat")
        ctx.case(("number", s), nontrivial=iv is not None, agreed=mv == iv)
        if mv != iv:
            ctx.broken("correspondence:number model=%r impl=%r on %r" % (mv, iv, s))
    # fraction / mixed_integer: arithmetic of the documented forms
    ints = ["0", "1", "-1", "+2", "3", "10", "007"]
    for a in ints:
        for b in ints:
            for sep in ("/", " / "):
                s = a + sep + b
                got = pp_parse(ppc.fraction, s)
                if int(b) == 0:
                    if got[0] == "exc":
                        viol(ctx, "fraction:zero-denominator", "fraction raises %s (not a ParseException) on %r" % (got[1], s),
                             {"kind": "fraction", "s": s})
                    ctx.case(("frac", s), False, True)
                    continue
                want = float(int(a)) / float(int(b))
                if got[0] != "ok" or not same_value(got[1][0], want):
                    ctx.violation("fraction:%r" % s, "fraction gives %r on %r, expected %r" % (got, s, want), {"kind": "fraction", "s": s})
                ctx.case(("frac", s), True, True)
    for w in ["1", "-2", "+3"]:
        for a in ["1", "3"]:
            for b in ["2", "4"]:
                for sep in (" ", "-", " - "):
                    s = w + sep + a + "/" + b
                    got = pp_parse(ppc.mixed_integer, s)
                    want = int(w) + float(a) / float(b)          # documented: "integer - fraction" is summed
                    if got[0] != "ok" or not same_value(float(got[1][0]), want):
                        ctx.violation("mixed_integer:%r" % s, "mixed_integer gives %r on %r, expected %r" % (got, s, want),
                                      {"kind": "mixed", "s": s})
                    ctx.case(("mixed", s), True, True)


# ------------------------------------------------------------------------------------------------ plugin entry points
def correspond(ctx):
    info = gen_info()
    part_a(ctx, info)
    part_b(ctx, info)
    for part in (part_c, part_d, part_e):
        part(ctx, info)
    ctx.sample({"expr": "number", "s": "1e5", "impl": pp_parse(__import__("pyparsing").pyparsing_common.number, "1e5")})
    ctx.coverage_extra["exhaustive"] = True
    ctx.coverage_extra["partial"] = EXPLANATION


# ------------------------------------------------------------------------------------------------ (c) addresses, uuid, dates
def viol(ctx, key, what, replay):
    """first occurrence per key only (the smallest inputs are enumerated first)"""
    seen = ctx.__dict__.setdefault("_c18_seen", set())
    if key in seen:
        return
    seen.add(key)
    ctx.violation(key, what, replay)


def accepts(expr, s):
    got = pp_parse(expr, s)
    return got[0] == "ok", got


def py_ok(f, s):
    try:
        return True, f(s)
    except ValueError:
        return False, None


WS = " \t\n\r"


def family_oracle(fam, s):
    """None or (key, description): agreement of one address/uuid/date expression with its stdlib reference on s"""
    import ipaddress, uuid as uuidmod, datetime
    from pyparsing import pyparsing_common as ppc
    t = s.strip(WS)
    if fam == "ipv4":
        a, got = accepts(ppc.ipv4_address, s)
        r, v = py_ok(ipaddress.IPv4Address, t)
        if a and not r:
            k = "ipv4:leading-zero-octet" if any(re.fullmatch(r"0\d", o) for o in t.split(".")) else "ipv4:accepts:%r" % s
            return (k, "ipv4_address accepts %r, ipaddress.IPv4Address rejects it" % s)
        if r and not a:
            return ("ipv4:rejects:%r" % s, "ipv4_address rejects %r, ipaddress.IPv4Address accepts it" % s)
        if a and str(v) != got[1][0]:
            return ("ipv4:value:%r" % s, "ipv4_address returns %r for %r" % (got[1][0], s))
    elif fam == "ipv6":
        a, got = accepts(ppc.ipv6_address, s)
        if got[0] == "exc":
            return ("ipv6:raises:%r" % s, "ipv6_address raises %s on %r" % (got[1], s))
        r, v = py_ok(ipaddress.IPv6Address, t)
        if a and not r:
            tail = t.rsplit(":", 1)[-1]
            k = "ipv6:embedded-ipv4-leading-zero" if ("." in tail and any(re.fullmatch(r"0\d", o) for o in tail.split("."))) \
                else "ipv6:accepts:%r" % s
            return (k, "ipv6_address accepts %r, ipaddress.IPv6Address rejects it" % s)
        if r and not a:
            if "%" in t:
                k = "ipv6:zone-id"
            elif "." in t:
                k = "ipv6:embedded-ipv4-prefix"
            else:
                k = "ipv6:rejects:%r" % s
            return (k, "ipv6_address rejects %r, ipaddress.IPv6Address accepts it" % s)
        if a and r and ipaddress.IPv6Address(got[1][0]) != v:
            return ("ipv6:value:%r" % s, "ipv6_address returns %r for %r" % (got[1][0], s))
    elif fam == "mac":
        a, got = accepts(ppc.mac_address, s)
        sep = t[2] if len(t) == 17 else None
        r = sep in (":", ".", "-") and len(t.split(sep)) == 6 and all(re.fullmatch(r"[0-9a-fA-F]{2}", x) for x in t.split(sep))
        if a != bool(r):
            return ("mac:%s:%r" % ("accepts" if a else "rejects", s), "mac_address %s %r" % ("accepts" if a else "rejects", s))
    elif fam == "uuid":
        a, got = accepts(ppc.uuid, s)
        r, v = py_ok(uuidmod.UUID, t)
        canon = r and len(t) == 36 and str(v) == t.lower()
        if a and not canon:
            return ("uuid:accepts:%r" % s, "uuid accepts %r which uuid.UUID does not read as the canonical form" % s)
        if canon and not a:
            return ("uuid:rejects:%r" % s, "uuid rejects the canonical UUID text %r" % s)
    elif fam == "date":
        d = ppc.iso8601_date.copy().set_parse_action(ppc.convert_to_date())
        a, got = accepts(d, s)
        if got[0] == "exc":
            return ("date:raises:%r" % s, "iso8601_date + convert_to_date raises %s on %r" % (got[1], s))
        shaped = re.fullmatch(r"\d{4}-\d\d-\d\d", t) is not None
        r, v = py_ok(datetime.date.fromisoformat, t) if shaped else (False, None)
        if a != r:
            return ("date:%s:%r" % ("accepts" if a else "rejects", s),
                    "iso8601_date+convert_to_date %s %r, datetime.date.fromisoformat %s" % (
                        "accepts" if a else "rejects", s, "accepts" if r else "rejects"))
        if a and got[1][0] != v:
            return ("date:value:%r" % s, "iso8601_date returns %r for %r" % (got[1][0], s))
        a2, _ = accepts(ppc.iso8601_date, s)        # the bare pattern: exactly the shapes yyyy, yyyy-mm, yyyy-mm-dd
        if a2 != (re.fullmatch(r"\d{4}(-\d\d(-\d\d)?)?", t) is not None):
            return ("date:shape:%r" % s, "iso8601_date pattern %s %r" % ("accepts" if a2 else "rejects", s))
    elif fam == "datetime":
        a, got = accepts(ppc.iso8601_datetime, s)
        doc = re.fullmatch(r"(\d{4})-(\d\d)-(\d\d)[T ](\d\d):(\d\d)(?::(\d\d)(\.\d*)?)?(Z|[+-]\d\d:?\d\d)?", t)
        if a and not doc:
            k = "datetime:empty-seconds" if re.fullmatch(r"\d{4}-\d\d-\d\d[T ]\d\d:\d\d:(Z|[+-]\d\d:?\d\d)?", t) else "datetime:accepts:%r" % s
            return (k, "iso8601_datetime accepts %r, outside yyyy-mm-ddThh:mm[:ss[.s]][tz]" % s)
        if doc and not a:
            return ("datetime:rejects:%r" % s, "iso8601_datetime rejects %r" % s)
        if doc and doc.group(7) != ".":
            r, v = py_ok(datetime.datetime.fromisoformat, t)     # in range and non-degenerate: components must agree
            if r:
                res = ppc.iso8601_datetime.parse_string(s, parse_all=True)
                comp = (int(res["year"]), int(res["month"]), int(res["day"]), int(res["hour"]), int(res["minute"]))
                if comp != (v.year, v.month, v.day, v.hour, v.minute):
                    return ("datetime:value:%r" % s, "iso8601_datetime groups %r for %r" % (comp, s))
                sec = res.get("second")
                if (int(sec[:2]) if sec else 0) != v.second:
                    return ("datetime:value:%r" % s, "iso8601_datetime second %r for %r" % (sec, s))
    return None


def family_cases(ctx):
    import datetime
    rng = ctx.rng
    big = ctx.thorough
    out = []
    pool = ["0", "1", "9", "00", "01", "10", "99", "000", "001", "099", "100", "199", "200", "249", "250", "255", "256", "260", "300",
            "1000", "", "-1"]
    octs = list(itertools.product(pool, repeat=4))
    rng.shuffle(octs)
    for t in [("0", "0", "0", "00"), ("1", "2", "3", "4"), ("255", "255", "255", "255"), ("01", "2", "3", "4")] + octs[:(20000 if big else 2500)]:
        out.append(("ipv4", ".".join(t)))
    out += [("ipv4", x) for x in ["1.2.3", "1.2.3.4.5", "1.2.3.4.", ".1.2.3.4", "1..2.3", "1.2.3.4/8", " 1.2.3.4", "1.2.3.4 ", "1.2.3.a"]]
    out += [("ipv6", x) for x in ["::", "::1", "1::", "::ffff:1.2.3.4", "::FFFF:1.2.3.4", "::1.2.3.4", "1:2:3:4:5:6:1.2.3.4", "1::1.2.3.4",
                                  "fe80::1%eth0", "::ffff:01.2.3.4", "1:2:3:4:5:6:7::", "::1:2:3:4:5:6:7", "1:2:3:4:5:6:7:8::", "1:2:3:4::5:6:7:8",
                                  ":::", "1:::2", "::ffff:1.2.3.4:1", "0:0:0:0:0:ffff:1.2.3.4", "::ffff:256.1.1.1", "1::2::3", "1:2:3:4:5:6:7:8",
                                  "1:2:3:4:5:6:7", "1:2:3:4:5:6:7:8:9", "::ffff:1.2.3", "1:2:3:4:5:6:7:g"]]
    hexs = ["0", "1", "ab", "ABCD", "ffff", "00000", "12345", "g", "", "0001"]
    for _ in range(6000 if big else 1500):
        n = rng.randint(0, 9)
        gs = [rng.choice(hexs[:5] if rng.random() < 0.8 else hexs) for _ in range(n)]
        dc = rng.randint(-1, n)
        out.append(("ipv6", ":".join(gs) if dc < 0 else ":".join(gs[:dc]) + "::" + ":".join(gs[dc:])))
    hx = "0123456789abcdefABCDEF"
    for _ in range(1500 if big else 400):
        sep = rng.choice(":.-")
        s = sep.join("".join(rng.choice(hx) for _ in range(2)) for _ in range(6))
        out.append(("mac", s))
        k = rng.randrange(len(s))
        out.append(("mac", s[:k] + rng.choice(":.-gG0 ") + s[k + 1:]))
        out.append(("mac", s[:k] + s[k + 1:]))
        u = "-".join("".join(rng.choice(hx) for _ in range(n)) for n in (8, 4, 4, 4, 12))
        out.append(("uuid", u))
        k = rng.randrange(len(u))
        out.append(("uuid", u[:k] + rng.choice("-gG0 {") + u[k + 1:]))
        out.append(("uuid", u[:k] + u[k + 1:]))
        out.append(("uuid", u + rng.choice("0a-")))
    out += [("uuid", x) for x in EXTRA["uuid"] + ["{12345678-1234-5678-1234-567812345678}", "urn:uuid:12345678-1234-5678-1234-567812345678"]]
    for y in ["1999", "2000", "0001", "9999", "0000", "199", "19999", "2024", "1900"]:
        for m in ["01", "02", "12", "00", "13", "1", ""]:
            for d in ["01", "28", "29", "30", "31", "00", "32", "1", ""]:
                out.append(("date", "-".join(x for x in (y, m, d) if x)))
                out.append(("date", y + "-" + m + "-" + d))
    out += [("date", x) for x in EXTRA["iso8601_date"] + ["19991231", "1999-W01-1", "1999-12-31T00", "2000-02-29", "1900-02-29"]]
    for _ in range(1500 if big else 400):
        dt = datetime.datetime(rng.randint(1, 9999), rng.randint(1, 12), rng.randint(1, 28), rng.randint(0, 23), rng.randint(0, 59),
                               rng.randint(0, 59), rng.choice([0, 0, 500000, 123456]))
        s = dt.isoformat(sep=rng.choice("T ")) + rng.choice(["", "", "Z", "+01:00", "-0530", "+00:00"])
        out.append(("datetime", s))
        out.append(("datetime", s[:16]))
        k = rng.randrange(len(s))
        out.append(("datetime", s[:k] + rng.choice("0:-T .Z+a") + s[k + 1:]))
        out.append(("datetime", s[:k] + s[k + 1:]))
    out += [("datetime", x) for x in EXTRA["iso8601_datetime"] + ["1999-12-31T24:00:00", "1999-13-01T00:00", "1999-12-31T23:59:60"]]
    return out


def part_c(ctx, info):
    for fam, s in family_cases(ctx):
        bad = family_oracle(fam, s)
        if bad:
            viol(ctx, bad[0], bad[1], {"kind": "family", "family": fam, "s": s})
        ctx.case((fam, s), nontrivial=False, agreed=True)
        ctx.stat("family_" + fam)


# ------------------------------------------------------------------------------------------------ (d) QuotedString
QPRE = ("From Coq Require Import List ZArith NArith Bool.\n"
        "From PP Require Import Model.Str Model.Regex Model.Enum Model.Builtins Model.Quoted Gen.GenRegex.\nImport ListNotations.\n")
SPECIAL_AFTER_BS = set("01234567tnfrxu")
BSL = chr(92)
SQ3 = chr(39) * 3


def cfg_coq(q, eq, esc, escq, ml, unq, cws):
    return "{| q_quote := %s; q_end := %s; q_esc := %s; q_escq := %s; q_multiline := %s; q_unquote := %s; q_cws := %s |}" % (
        vlib.coq_str(q), vlib.coq_str(eq), "None" if esc is None else "Some %d%%N" % ord(esc),
        "None" if escq is None else "Some %s" % vlib.coq_str(escq), str(ml).lower(), str(unq).lower(), str(cws).lower())


def py_escape(eq, esc, escq, cws, c):
    """how a user quotes content (Model/Quoted.v escape_content)"""
    if esc:
        return "".join((esc + ch) if (ch == esc or ch == eq[0] or (cws and ch == BSL)) else ch for ch in c)
    if escq:
        return c.replace(eq, escq)
    return c


def no_newline(c):
    return not ("\n" in c or "\r" in c)


def roundtrip_hyp(eq, esc, ml, cws, c):
    """Model/Quoted.v roundtrip_hyp (quotes of the grid are never empty)"""
    return (esc != eq[0] and esc != "\n" and eq[0] != "\n" and (ml or no_newline(c))
            and not (cws and esc == BSL and eq[0] in SPECIAL_AFTER_BS))


def scan_neutral(unq, cws, inner):
    """Model/Quoted.v scan_neutral"""
    return not (unq and cws) or BSL not in inner


def plain_hyp(cfg, c):
    """Model/Quoted.v plain_hyp: hypotheses of C18_quoted_roundtrip_plain"""
    q, eq, esc, escq, ml, unq, cws = cfg
    return bool(q) and bool(eq) and (c + eq).find(eq) == len(c) and (ml or no_newline(c)) and scan_neutral(unq, cws, c)


def escq_hyp(cfg, c):
    """Model/Quoted.v escq_hyp: hypotheses of C18_quoted_roundtrip_escquote_partial"""
    q, eq, esc, escq, ml, unq, cws = cfg
    return (bool(q) and len(eq) == 1 and escq.startswith(eq) and len(escq) > 1 and (ml or no_newline(c))
            and scan_neutral(unq, cws, py_escape(eq, esc, escq, cws, c)))


def both_hyp(cfg, c):
    """Model/Quoted.v both_hyp: hypotheses of C18_quoted_roundtrip_both_partial"""
    q, eq, esc, escq, ml, unq, cws = cfg
    return bool(q) and roundtrip_hyp(eq, esc, ml, cws, c) and len(escq) > 0 and escq not in c and esc not in escq


SCOPE_NAMES = {0: "outside", 1: "esc_char", 2: "plain", 3: "escquote", 4: "both"}


def py_scope(cfg, c):
    """Model/Quoted.v qs_scope: which round-trip theorem covers the case (0 = none)"""
    q, eq, esc, escq, ml, unq, cws = cfg
    if esc is not None and not escq:
        return 1 if (bool(q) and roundtrip_hyp(eq, esc, ml, cws, c)) else 0
    if esc is None and not escq:
        return 2 if plain_hyp(cfg, c) else 0
    if esc is None:
        return 3 if escq_hyp(cfg, c) else 0
    return 4 if both_hyp(cfg, c) else 0


_QS_CACHE = {}


def make_qs(cfg):
    """the real expression for a configuration (one object per configuration: parsing does not change it)"""
    import pyparsing as pp
    cfg = tuple(cfg)
    if cfg not in _QS_CACHE:
        if len(_QS_CACHE) > 4096:
            _QS_CACHE.clear()
        q, eq, esc, escq, ml, unq, cws = cfg
        _QS_CACHE[cfg] = pp.QuotedString(q, esc_char=esc, esc_quote=escq, multiline=ml, end_quote_char=eq,
                                         convert_whitespace_escapes=cws, unquote_results=unq).leave_whitespace()
    return _QS_CACHE[cfg]


def qs_run(qs, src):
    import pyparsing as pp
    try:
        loc, toks = qs._parse(src, 0)
        return (loc, toks[0])
    except pp.ParseException:
        return None


def quoted_oracle(cfg, c):
    """None | (key, what) | "outside": the round-trip property on the implementation, where it is expected to hold"""
    q, eq, esc, escq, ml, unq, cws = cfg
    src = q + py_escape(eq, esc, escq, cws, c) + eq
    want = (len(src), c if unq else src)
    got = qs_run(make_qs(cfg), src)
    if got == want:
        return None
    tag = "q=%r,e=%r,esc=%r,escq=%r,ml=%d,unq=%d,cws=%d" % (q, eq, esc, escq, ml, unq, cws)
    # the scope of each clause is exactly the hypothesis of the corresponding Coq theorem (py_scope == Model qs_scope)
    sc = py_scope(cfg, c)
    if sc:
        clause = {1: "roundtrip", 2: "roundtrip-plain", 3: "roundtrip-escq", 4: "roundtrip-both"}[sc]
        return ("quoted:%s:%s:%r" % (clause, tag, c), "QuotedString(%s): %r -> %r parses to %r" % (tag, c, src, got))
    if esc is not None and escq is not None and unq and escq in c and roundtrip_hyp(eq, esc, ml, cws, c):
        return ("quoted:escquote-after-unescape", "F-18a QuotedString(%s): %r -> %r parses to %r" % (tag, c, src, got))
    if esc is None and escq is None and cws and unq and BSL in c and eq[0] not in c and (ml or no_newline(c)):
        return ("quoted:ws-escape-no-esc-char", "F-18b QuotedString(%s): %r -> %r parses to %r" % (tag, c, src, got))
    return "outside"


def quoted_grid():
    grid = []
    for (q, eq) in [('"', '"'), ("[", "]"), ("<<", ">>"), (SQ3, SQ3), ("$", "$$"), ("t", "t"), ("<!--", "-->"), ("[[", "]]>"), ("a", "aab")]:
        for esc in [None, BSL, "^"]:
            # eq + "x": a second esc_quote inside the hypotheses of C18_quoted_roundtrip_escquote_partial (esc_quote-only configurations)
            for escq in [None, eq * 2, "$$"] + ([eq + "x"] if len(eq) == 1 and esc is None else []):
                for ml in [False, True]:
                    for cws in [True, False]:
                        for unq in [True, False]:
                            grid.append((q, eq, esc, escq, ml, unq, cws))
    return grid


def part_d(ctx, info):
    n = 4 if ctx.thorough else 3
    grid = quoted_grid()
    for cfg in grid:                                  # the round-trip oracle on the implementation, whole grid
        q, eq, esc, escq, ml, unq, cws = cfg
        alpha = "".join(sorted(set(q + eq + (esc or "") + (escq or "") + "a \nt" + BSL)))
        for c in all_strings(alpha, n):
            bad = quoted_oracle(cfg, c)
            ctx.stat("quoted_scope_" + SCOPE_NAMES[py_scope(cfg, c)])     # cases inside each theorem's hypotheses
            if bad == "outside":
                ctx.stat("quoted_outside_scope")
            elif bad:
                viol(ctx, bad[0], bad[1], {"kind": "quoted", "cfg": list(cfg), "content": c})
            ctx.case(("qs", cfg, c), nontrivial=False, agreed=True)
        ctx.stat("quoted_configs")
    # documented numeric escapes (CHANGES 3.1.0: "handles translation of escaped integer, hex, octal, and Unicode sequences")
    qs = make_qs(('"', '"', BSL, None, False, True, True))
    for src, want in [('"' + BSL + 'x41"', "A"), ('"' + BSL + '101"', "A"), ('"' + BSL + 'u0041"', "A")]:
        got = qs_run(qs, src)
        if got != (len(src), want):
            viol(ctx, "quoted:numeric-escape", "F-18g QuotedString numeric escape %r parses to %r, documented %r" % (src, got, want),
                 {"kind": "quoted-numeric", "src": src, "want": want})
    # model vs implementation on a deterministic sub-grid
    step = 2 if ctx.thorough else 5
    sub = [cfg for k, cfg in enumerate(grid) if k % step == (ctx.seed % step)]
    exprs, meta = [], []
    m = 3
    for cfg in sub:
        q, eq, esc, escq, ml, unq, cws = cfg
        qs = make_qs(cfg)
        alpha = "".join(sorted(set(q + eq + (esc or "") + (escq or "") + "a\nt3" + BSL)))
        structural = len(eq) <= 2
        exprs.append("re_eqb (qs_pattern %s) %s" % (cfg_coq(*cfg), regex_ast.to_coq(qs.pattern, qs.re_flags)) if structural else "true")
        exprs.append("let cfg := %s in map (fun c => (qs_parse cfg (quoted_source cfg c) 0, qs_parse cfg c 0, qs_scope cfg c)) (strings_upto %s %d)"
                     % (cfg_coq(*cfg), vlib.coq_str(alpha), m))
        meta.append((cfg, qs, alpha))
    try:
        res = vlib.coq_eval_terms("c18_quoted", QPRE, exprs, timeout=900)
    except Exception as e:
        ctx.broken("correspondence:model-eval quoted (%s)" % str(e)[:300])
        return
    nbad = nscope = 0
    for k, (cfg, qs, alpha) in enumerate(meta):
        q, eq, esc, escq, ml, unq, cws = cfg
        if res[2 * k] is not True:
            ctx.broken("correspondence:QuotedString pattern construction differs for %r: %r" % (cfg, qs.pattern))
        for c, (m1, m2, msc) in zip(all_strings(alpha, m), res[2 * k + 1]):
            # the Coq hypotheses (qs_scope) and the oracle's scope conditions (py_scope) decide the same set of cases
            psc = py_scope(cfg, c)
            ctx.case(("qsscope", cfg, c), nontrivial=psc != 0, agreed=psc == msc)
            ctx.stat("quoted_model_scope_" + SCOPE_NAMES[psc])
            if psc != msc and nscope < 3:
                nscope += 1
                ctx.broken("correspondence:QuotedString theorem scope: Coq qs_scope=%r, Python py_scope=%r for %r content %r" % (msc, psc, cfg, c))
            # inside a theorem's hypotheses the model returns the content (the theorem, re-observed on the executable model)
            if msc and m1 != ("Some", (len(q + py_escape(eq, esc, escq, cws, c) + eq),
                                       [ord(ch) for ch in (c if unq else q + py_escape(eq, esc, escq, cws, c) + eq)])):
                ctx.broken("correspondence:QuotedString model contradicts its round-trip theorem for %r content %r: %r" % (cfg, c, m1))
            for src, mm in ((q + py_escape(eq, esc, escq, cws, c) + eq, m1), (c, m2)):
                impl = qs_run(qs, src)
                mod = None if mm == "None" else (mm[1][0], vlib.from_coq_str(mm[1][1]))
                ok = mod == impl
                ctx.case(("qsm", cfg, src), nontrivial=impl is not None, agreed=ok)
                if not ok and nbad < 3:
                    nbad += 1
                    ctx.broken("correspondence:QuotedString model=%r impl=%r for %r on %r" % (mod, impl, cfg, src))
    ctx.stat("quoted_model_configs", len(sub))


# ------------------------------------------------------------------------------------------------ (e) helpers
HPRE = ("From Coq Require Import List ZArith NArith Bool.\n"
        "From PP Require Import Model.Str Model.Enum Model.Helpers Gen.GenHelpers.\nImport ListNotations.\n"
        "Fixpoint span_ab (s : str) : str * str := match s with x :: t => if (N.eqb x 97 || N.eqb x 98)%bool then let (w, r) := span_ab t in (x :: w, r) else ([], s) | [] => ([], []) end.\n"
        "Definition c_word (s : str) : option (str * str) := let (w, r) := span_ab (skip_ws s) in match w with [] => None | _ :: _ => Some (w, r) end.\n"
        "Definition c_delim (s : str) : option str := match skip_ws s with x :: r => if N.eqb x 44 then Some r else None | [] => None end.\n"
        "Fixpoint span_dig (s : str) : str * str := match s with x :: t => if (N.leb 48 x && N.leb x 57)%bool then let (w, r) := span_dig t in (x :: w, r) else ([], s) | [] => ([], []) end.\n"
        "Definition c_count (s : str) : option (nat * str) := let (w, r) := span_dig (skip_ws s) in match w with [] => None | _ :: _ => Some (fold_left (fun a d => 10 * a + N.to_nat (d - 48)) w 0, r) end.\n")


def ref_nested_multi(s, o, c):
    """the same reading for delimiters of any length: content is a maximal run of non-blank characters at none of which a
    delimiter STARTS (a lone character of a multi-character delimiter is ordinary content)"""
    i = 0
    while i < len(s) and s[i] in WS:
        i += 1
    if not s.startswith(o, i):
        return None
    stack = [[]]
    i += len(o)
    while True:
        while i < len(s) and s[i] in WS:
            i += 1
        if i >= len(s):
            return None
        if s.startswith(o, i):
            stack.append([])
            i += len(o)
        elif s.startswith(c, i):
            done = stack.pop()
            i += len(c)
            if not stack:
                return done, i
            stack[-1].append(done)
        else:
            j = i
            while j < len(s) and s[j] not in WS and not s.startswith(o, j) and not s.startswith(c, j):
                j += 1
            stack[-1].append(s[i:j])
            i = j


def ref_nested(s, o="(", c=")"):
    """independent reading with an explicit stack: (tree, end) or None"""
    i = 0
    while i < len(s) and s[i] in WS:
        i += 1
    if i >= len(s) or s[i] != o:
        return None
    stack = [[]]
    i += 1
    while True:
        while i < len(s) and s[i] in WS:
            i += 1
        if i >= len(s):
            return None
        if s[i] == o:
            stack.append([])
            i += 1
        elif s[i] == c:
            done = stack.pop()
            i += 1
            if not stack:
                return done, i
            stack[-1].append(done)
        else:
            j = i
            while j < len(s) and s[j] not in WS + o + c:
                j += 1
            stack[-1].append(s[i:j])
            i = j


def coq_tree(t):
    """parsed Coq ntree -> nested python lists"""
    if t[0] == "NWord":
        return vlib.from_coq_str(t[1])
    return [coq_tree(x) for x in t[1]]


RE_FIRST = re.compile(r"[ \t\n\r]*([ab]+)")
RE_PAIR = re.compile(r"[ \t\n\r]*,[ \t\n\r]*([ab]+)")
RE_DELIM = re.compile(r"[ \t\n\r]*,")


def ref_delimited(s, mn, mx, trail):
    """independent reading: first element, then as many ',' element pairs as allowed (greedy), optional trailing ','"""
    m = RE_FIRST.match(s)
    if not m:
        return None
    items, pos = [m.group(1)], m.end()
    while mx is None or len(items) < mx:
        m2 = RE_PAIR.match(s, pos)
        if not m2:
            break
        items.append(m2.group(1))
        pos = m2.end()
    if len(items) < (mn or 1):
        return None
    if trail:
        m3 = RE_DELIM.match(s, pos)
        if m3:
            pos = m3.end()
    return items, pos


def counted_shared_intexpr():
    """an explicit int_expr object that the caller also uses elsewhere: counted_array must work on its own copy (the reference
    definition of the helper - leading count, then exactly that many items - does not depend on who else uses the count expression)"""
    import pyparsing as pp

    def run(f):
        try:
            return f()
        except Exception as e:
            return "raises " + type(e).__name__
    integer = lambda: pp.Word("0123456789").set_parse_action(lambda t: int(t[0]))
    out = []
    i1 = integer()
    out.append(("items are the count expression itself", run(lambda: pp.counted_array(i1, int_expr=i1).parse_string("2 5 7").as_list()), [5, 7]))
    i2 = integer()
    two = pp.counted_array(pp.Word("ab"), int_expr=i2) + pp.counted_array(pp.Word("cd"), int_expr=i2)
    out.append(("two arrays share the count expression", run(lambda: two.parse_string("2 a b 1 c").as_list()), ["a", "b", "c"]))
    i3 = integer()
    after = pp.counted_array(pp.Word("ab"), int_expr=i3) + i3
    out.append(("the count expression is used again after the array", run(lambda: after.parse_string("1 a 42").as_list()), ["a", 42]))
    i4 = integer()
    before = (i4.name, len(i4.parseAction))
    pp.counted_array(pp.Word("ab"), int_expr=i4)
    out.append(("the caller's int_expr object is left untouched", (i4.name, len(i4.parseAction)), before))
    return out


def ref_counted(s):
    m = re.match(r"[ \t\n\r]*(\d+)", s)
    if not m:
        return None
    k, pos, items = int(m.group(1)), m.end(), []
    if k == 0:                       # Empty() skips the white space that follows
        while pos < len(s) and s[pos] in WS:
            pos += 1
    for _ in range(k):
        m2 = RE_FIRST.match(s, pos)
        if not m2:
            return None
        items.append(m2.group(1))
        pos = m2.end()
    return items, pos


def skipws_from(s, pos):
    while pos < len(s) and s[pos] in WS:
        pos += 1
    return pos


def run_at0(expr, s):
    import pyparsing as pp
    expr.streamline()                       # what parse_string does first (And([]) of `e * (0, 0)` disappears)
    try:
        loc, toks = expr._parse(s, 0)
        return (toks.as_list(), loc)
    except pp.ParseException:
        return None
    except RecursionError:
        return "rec"


def dl_params():
    out = []
    for mn in (None, 1, 2, 3):
        for mx in (None, 1, 2, 3):
            if mx is not None and mn is not None and mx < mn:
                continue
            for trail in (False, True):
                out.append((mn, mx, trail))
    return out


def part_e(ctx, info):
    import pyparsing as pp
    n = 7 if ctx.thorough else 6
    # nested_expr
    ne = pp.nested_expr("(", ")", ignore_expr=None)
    strs = list(all_strings("()a ", n)) + ["(a(b c)()d)", " ( a\n(b\tc) ) x", "(ab cd(ef))", "((((a))))", "(a)(b)", "(a b", "a (b)", "[a]",
                                            "(a[b]c)", "( ( ) ( ( ) ) )"]
    impl = []
    for s in strs:
        got = run_at0(ne, s)
        if got not in (None, "rec"):
            got = (got[0][0], got[1])
        want = ref_nested(s)
        if got != want:
            viol(ctx, "nested:%r" % s, "nested_expr on %r gives %r, the bracket reading gives %r" % (s, got, want), {"kind": "nested", "s": s})
        impl.append(got)
    # quote characters are ordinary content when no ignore expression is asked for, under both spellings of the keyword
    # (the default ignore expression, quoted_string, would pair them up and hide brackets)
    nq = 0
    qstrs = [x for x in all_strings("()a'\" ", 5 if not ctx.thorough else 6) if "'" in x or '"' in x]
    qstrs += ["(don't (you can't))", '(x "(" y)', "(a 'b) c')", "('(')", '("")', "(a\"b)"]
    for kw in ("ignore_expr", "ignoreExpr"):
        neq = pp.nested_expr("(", ")", **{kw: None})
        for s_ in qstrs:
            got = run_at0(neq, s_)
            if got not in (None, "rec"):
                got = (got[0][0], got[1])
            want = ref_nested(s_)
            nq += 1
            ctx.case(("nested-quotes", kw, s_), nontrivial=want is not None, agreed=True)
            if got != want and got != "rec":
                viol(ctx, "nested-quotes:%s:%r" % (kw, s_), "nested_expr('(', ')', %s=None) on %r gives %r, the bracket reading gives %r" % (kw, s_, got, want),
                     {"kind": "nested-quotes", "kw": kw, "s": s_})
    ctx.stat("nested_quote_cases", nq)
    # delimiters of mixed and equal lengths (implementation vs the reading only; the Coq model has single characters)
    nm = 0
    for o_, c_ in (("${", "}"), ("<", "/>"), ("{", "%}"), ("<<", ">>"), ("[", "]")):
        nem = pp.nested_expr(o_, c_, ignore_expr=None)
        alpha = "".join(sorted(set(o_ + c_ + "a ")))
        fixed = [o_ + " cost$5 " + o_ + " a{b " + c_ + " " + c_, o_ + "$" + c_, o_ + "a" + o_ + "b" + c_ + c_[:1] + "x" + c_, o_ + " " + c_ + " tail", o_ + o_[:1] + c_]
        for s_ in list(all_strings(alpha, 5 if not ctx.thorough else 6)) + fixed:
            if o_ not in s_:
                continue
            got = run_at0(nem, s_)
            if got not in (None, "rec"):
                got = (got[0][0], got[1])
            want = ref_nested_multi(s_, o_, c_)
            nm += 1
            ctx.case(("nested-multi", o_, c_, s_), nontrivial=want is not None, agreed=True)
            if got != want and got != "rec":
                viol(ctx, "nested-multi:%s%s:%r" % (o_, c_, s_), "nested_expr(%r, %r) on %r gives %r, the bracket reading gives %r" % (o_, c_, s_, got, want),
                     {"kind": "nested-multi", "o": o_, "c": c_, "s": s_})
    ctx.stat("nested_multi_cases", nm)
    exprs = ["map (fun s => match parse_nested 40 40%%N 41%%N s with Some (t, r) => Some (t, length r) | None => None end) [%s]"
             % "; ".join(vlib.coq_str(x) for x in strs)]
    # DelimitedList
    dl_cases = dl_params()
    dl_strs = list(all_strings("a, ", 6)) + ["a,b,ab,ba", "a , b,a ,", "a,b,a,b,a", ",a", "a,,b", "ab ,ba, a,b , "]
    dl_impl = {}
    for (mn, mx, trail) in dl_cases:
        e = pp.DelimitedList(pp.Word("ab"), ",", min=mn, max=mx, allow_trailing_delim=trail)
        for s in dl_strs:
            got = run_at0(e, s)
            want = ref_delimited(s, mn, mx, trail)
            # positions are compared modulo white space: an Opt / ZeroOrMore that fails has still skipped it
            if got is not None:
                got = (got[0], skipws_from(s, got[1]))
            if want is not None:
                want = (want[0], skipws_from(s, want[1]))
            if got != want and got is None and mx == 1 and trail:
                viol(ctx, "delimited:max1-trailing", "F-18i DelimitedList(max=1, allow_trailing_delim=True) rejects %r" % s,
                     {"kind": "delimited", "min": mn, "max": mx, "trail": trail, "s": s})
            elif got != want:
                viol(ctx, "delimited:min=%r,max=%r,trail=%r:%r" % (mn, mx, trail, s),
                     "DelimitedList(min=%r,max=%r,trailing=%r) on %r gives %r, expected %r" % (mn, mx, trail, s, got, want),
                     {"kind": "delimited", "min": mn, "max": mx, "trail": trail, "s": s})
            dl_impl[(mn, mx, trail, s)] = got
        exprs.append("map (fun s => match delimited_list str c_word c_delim %d %s %s s with Some (l, r) => Some (l, length r) | None => None end) [%s]"
                     % (mn or 1, "None" if mx is None else "(Some %d)" % mx, str(trail).lower(), "; ".join(vlib.coq_str(x) for x in dl_strs)))
    # counted_array
    ca = pp.counted_array(pp.Word("ab"))
    ca_strs = []
    for k in range(0, 5):
        for items in range(0, 5):
            ca_strs.append(("%d " % k) + " ".join(["a", "ab", "b", "ba", "a"][:items]))
    ca_strs += ["2 a b", "a b", "", "1", "0", "10 a a a a a a a a a a a", "2a b"]
    ca_impl = []
    for s in ca_strs:
        got = run_at0(ca, s)
        want = ref_counted(s)
        if got != want:
            viol(ctx, "counted:%r" % s, "counted_array on %r gives %r, expected %r" % (s, got, want), {"kind": "counted", "s": s})
        ca_impl.append(got)
    for name, got, want in counted_shared_intexpr():
        ctx.case(("counted-shared", name), nontrivial=True, agreed=True)
        if got != want:
            viol(ctx, "counted-shared:%s" % name, "counted_array with an int_expr that is also used elsewhere (%s): %r, expected %r" % (name, got, want),
                 {"kind": "counted-shared"})
    exprs.append("map (fun s => match fst (counted_array str c_count c_word skip_ws None s) with Some (l, r) => Some (l, length r) | None => None end) [%s]"
                 % "; ".join(vlib.coq_str(x) for x in ca_strs))
    try:
        res = vlib.coq_eval_terms("c18_helpers", HPRE, exprs, timeout=900)
    except Exception as e:
        ctx.broken("correspondence:model-eval helpers (%s)" % str(e)[:300])
        return
    nb = 0
    for s, got, m in zip(strs, impl, res[0]):
        mod = None if m == "None" else (coq_tree(m[1][0]), len(s) - m[1][1])
        ok = mod == got
        ctx.case(("nested", s), nontrivial=got is not None, agreed=ok)
        if not ok and nb < 3:
            nb += 1
            ctx.broken("correspondence:nested_expr model=%r impl=%r on %r" % (mod, got, s))
    for k, (mn, mx, trail) in enumerate(dl_cases):
        for s, m in zip(dl_strs, res[1 + k]):
            got = dl_impl[(mn, mx, trail, s)]
            mod = None if m == "None" else ([vlib.from_coq_str(w) for w in m[1][0]], skipws_from(s, len(s) - m[1][1]))
            ok = mod == got
            ctx.case(("dl", mn, mx, trail, s), nontrivial=got is not None, agreed=ok)
            if not ok and nb < 6:
                nb += 1
                ctx.broken("correspondence:DelimitedList(min=%r,max=%r,trail=%r) model=%r impl=%r on %r" % (mn, mx, trail, mod, got, s))
    for s, got, m in zip(ca_strs, ca_impl, res[-1]):
        mod = None if m == "None" else ([vlib.from_coq_str(w) for w in m[1][0]], len(s) - m[1][1])
        ok = mod == got
        ctx.case(("ca", s), nontrivial=got is not None, agreed=ok)
        if not ok and nb < 9:
            nb += 1
            ctx.broken("correspondence:counted_array model=%r impl=%r on %r" % (mod, got, s))
    ctx.stat("helper_strings", len(strs) + len(dl_strs) * len(dl_cases) + len(ca_strs))


def search(ctx, reasons):
    """the tie is broken (a proof or a correspondence no longer checks) and correspond() found no failing input:
    evaluate the same oracles on the implementation over wider scopes"""
    import pyparsing as pp
    from pyparsing import pyparsing_common as ppc
    info = gen_info()
    found = lambda: any(v["found_input"] for v in ctx.violations)
    for name in ["integer", "signed_integer", "hex_integer", "real", "sci_real", "number", "fnumber", "ieee_float"]:
        expr = getattr(ppc, name)
        for s in itertools.chain(all_strings("+-.eE09g", 5), all_strings("0aFgxG_", 4)):
            bad = numeric_oracle(name, expr, s, info)
            ctx.stat("search_cases")
            if bad and bad[0] not in ctx.known:
                viol(ctx, bad[0], bad[1], {"kind": "numeric", "expr": name, "s": s})
                break
    if found():
        return
    for cfg in quoted_grid() + [(q, e, esc, None, ml, True, cws) for (q, e) in [("(", ")"), ("$", "$"), ("{{", "}}"), ("ab", "ba"), ("x", "u")]
                                for esc in (BSL, "^", "a") for ml in (False, True) for cws in (False, True)] \
            + [(q, e, None, escq, ml, unq, False) for (q, e) in [("(", ")"), ("'", "'"), ("{{", "}}"), ("ab", "ba"), ("<!--", "--->")]
               for escq in ([None] + ([e * 2, e + "y"] if len(e) == 1 else [])) for ml in (False, True) for unq in (True, False)]:
        q, eq, esc, escq, ml, unq, cws = cfg
        alpha = "".join(sorted(set(q + eq + (esc or "") + (escq or "") + "a \nt3" + BSL)))
        for c in all_strings(alpha, 4):
            bad = quoted_oracle(cfg, c)
            ctx.stat("search_cases")
            if bad and bad != "outside" and bad[0] not in ctx.known:
                viol(ctx, bad[0], bad[1], {"kind": "quoted", "cfg": list(cfg), "content": c})
                break
    if found():
        return
    for mn in (None, 1, 2, 3, 4):
        for mx in (None, 1, 2, 3, 4, 5):
            if mx is not None and mn is not None and mx < mn:
                continue
            for trail in (False, True):
                e = pp.DelimitedList(pp.Word("ab"), ",", min=mn, max=mx, allow_trailing_delim=trail)
                for s in list(all_strings("a,", 9, lo=7)) + [",".join(["a"] * k) + t for k in range(1, 8) for t in ("", ",", " ,", ",,")]:
                    got, want = run_at0(e, s), ref_delimited(s, mn, mx, trail)
                    got = None if got is None else (got[0], skipws_from(s, got[1]))
                    want = None if want is None else (want[0], skipws_from(s, want[1]))
                    ctx.stat("search_cases")
                    if got != want and not (mx == 1 and trail):
                        viol(ctx, "delimited:min=%r,max=%r,trail=%r:%r" % (mn, mx, trail, s),
                             "DelimitedList(min=%r,max=%r,trailing=%r) on %r gives %r, expected %r" % (mn, mx, trail, s, got, want),
                             {"kind": "delimited", "min": mn, "max": mx, "trail": trail, "s": s})
                        return
    ca = pp.counted_array(pp.Word("ab"))
    for k in range(0, 12):
        for items in range(0, 14):
            s = ("%d " % k) + " ".join(["ab"] * items)
            ctx.stat("search_cases")
            if run_at0(ca, s) != ref_counted(s):
                viol(ctx, "counted:%r" % s, "counted_array on %r gives %r, expected %r" % (s, run_at0(ca, s), ref_counted(s)), {"kind": "counted", "s": s})
                return
    ne = pp.nested_expr("(", ")", ignore_expr=None)
    for s in all_strings("()ab \n", 7, lo=7):
        got = run_at0(ne, s)
        if got not in (None, "rec"):
            got = (got[0][0], got[1])
        ctx.stat("search_cases")
        if got != ref_nested(s):
            viol(ctx, "nested:%r" % s, "nested_expr on %r gives %r, the bracket reading gives %r" % (s, got, ref_nested(s)), {"kind": "nested", "s": s})
            return


def replay(ctx, obj):
    import pyparsing as pp
    from pyparsing import pyparsing_common as ppc
    r = obj["replay"]
    k = r.get("kind")
    bad = None
    if k == "numeric":
        bad = numeric_oracle(r["expr"], getattr(ppc, r["expr"]), r["s"], gen_info())
    elif k in ("fraction", "mixed"):
        e = ppc.fraction if k == "fraction" else ppc.mixed_integer
        got = pp_parse(e, r["s"])
        print("%s on %r: %r" % (k, r["s"], got))
        return got[0] != "exc"
    elif k == "family":
        bad = family_oracle(r["family"], r["s"])
    elif k == "quoted":
        bad = quoted_oracle(tuple(r["cfg"]), r["content"])
        bad = None if bad == "outside" else bad
    elif k == "quoted-numeric":
        got = qs_run(make_qs(('"', '"', BSL, None, False, True, True)), r["src"])
        bad = None if got == (len(r["src"]), r["want"]) else ("", "%r parses to %r, documented %r" % (r["src"], got, r["want"]))
    elif k == "nested-multi":
        got = run_at0(pp.nested_expr(r["o"], r["c"], ignore_expr=None), r["s"])
        if got not in (None, "rec"):
            got = (got[0][0], got[1])
        want = ref_nested_multi(r["s"], r["o"], r["c"])
        bad = None if got == want else ("", "nested_expr(%r, %r) on %r gives %r, the bracket reading gives %r" % (r["o"], r["c"], r["s"], got, want))
    elif k == "nested-quotes":
        got = run_at0(pp.nested_expr("(", ")", **{r["kw"]: None}), r["s"])
        if got not in (None, "rec"):
            got = (got[0][0], got[1])
        want = ref_nested(r["s"])
        bad = None if got == want else ("", "nested_expr on %r gives %r, the bracket reading gives %r" % (r["s"], got, want))
    elif k == "nested":
        got = run_at0(pp.nested_expr("(", ")", ignore_expr=None), r["s"])
        if got not in (None, "rec"):
            got = (got[0][0], got[1])
        want = ref_nested(r["s"])
        bad = None if got == want else ("", "nested_expr on %r gives %r, the bracket reading gives %r" % (r["s"], got, want))
    elif k == "delimited":
        e = pp.DelimitedList(pp.Word("ab"), ",", min=r["min"], max=r["max"], allow_trailing_delim=r["trail"])
        got, want = run_at0(e, r["s"]), ref_delimited(r["s"], r["min"], r["max"], r["trail"])
        got = None if got is None else (got[0], skipws_from(r["s"], got[1]))
        want = None if want is None else (want[0], skipws_from(r["s"], want[1]))
        bad = None if got == want else ("", "DelimitedList(min=%r,max=%r,trailing=%r) on %r gives %r, expected %r" % (
            r["min"], r["max"], r["trail"], r["s"], got, want))
    elif k == "counted-shared":
        badl = [(n, g, w) for n, g, w in counted_shared_intexpr() if g != w]
        bad = None if not badl else ("", "; ".join("%s: %r, expected %r" % x for x in badl))
    elif k == "counted":
        got, want = run_at0(pp.counted_array(pp.Word("ab")), r["s"]), ref_counted(r["s"])
        bad = None if got == want else ("", "counted_array on %r gives %r, expected %r" % (r["s"], got, want))
    else:
        print("replay names a broken proof/correspondence obligation: %r" % (r,))
        return False
    if bad:
        print(bad[1])
    return bad is None
