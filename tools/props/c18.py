"""C18 — built-in expressions and helpers conform to their reference definitions (partial).

Correspondence on the REAL code, in five families:
 (a) every GenRegex pattern: Coq matcher (Model/Regex.v, through its Python transcription which is itself cross-checked
     against vm_compute on a sample) vs Python `re` vs the compiled pattern object of the real expression, on all
     strings up to length n over per-pattern alphabets; the reference grammars (rx_match g_py_float / g_py_int10 /
     g_py_int16 / py_int) vs Python's own float() / int() on the same kind of enumeration;
 (b) numeric expressions: parse + convert vs int()/float() (type and value, nan aware), both directions of the
     documented syntax; `number` typing; fraction / mixed_integer arithmetic;
 (c) ipv4 / ipv6 / mac / uuid / iso8601 vs ipaddress / uuid / datetime on generated well-formed and near-miss strings
     (correspondence ONLY: those modules are not modelled);
 (d) QuotedString over the parameter grid x all contents up to length n: model (Model/Quoted.v) vs implementation,
     pattern construction compared structurally, and the round-trip oracle on the implementation;
 (e) nested_expr / DelimitedList / counted_array on enumerated inputs vs model and vs the property oracle.
Known defects of the unchanged tree are reported under stable class keys (known_findings.txt)."""
import itertools, math, re, sys
from tools import vlib, regex_ast

PROP = "C18"
GEN = ["gen_regex"]
RULE = ("(a) all strings <= n over per-pattern alphabets: model matcher == re.fullmatch == expression.re.fullmatch; "
        "reference grammars == float()/int() acceptance, py_int == int() value; (b) all strings <= n over "
        "'+-.eE09 xnaif_': parse+convert vs int()/float() both directions, number typing; (c) generated well-formed + "
        "near-miss addresses/uuids/dates vs ipaddress/uuid/datetime; (d) QuotedString grid x contents <= n: model == "
        "impl, round trip; (e) nested_expr/DelimitedList/counted_array enumerations; non-trivial = accepted by at "
        "least one side")
TRUSTED = ["Model/Regex.v stands for CPython's `re` on the patterns pyparsing ships (ASCII categories); validated against `re` every run",
           "g_py_float / g_py_int10 / g_py_int16 / py_int stand for float() / int(): validated against CPython every run on exhaustive small scopes",
           "ipaddress, uuid, datetime are NOT modelled: agreement with them is established by correspondence only (partial)",
           "float values are compared with CPython by correspondence only (float arithmetic is not modelled)"]
EXPLANATION = ("partial: syntax/convertibility/integer values, QuotedString round trip (under hypotheses), nested_expr, "
               "DelimitedList arithmetic and counted_array are theorems; agreement with ipaddress/uuid/datetime, "
               "mac_address (back-reference) and float values are correspondence only")

NUM_ALPHA = "+-.eE09 xnaif_"
PRE = ("From Coq Require Import List ZArith NArith Bool.\n"
       "From PP Require Import Model.Str Model.Regex Model.Enum Model.Builtins Gen.GenRegex.\n"
       "Import ListNotations.\n")


# ------------------------------------------------------------------------------------------------ helpers
def gen_info():
    from tools.translate import gen_regex
    gen_regex.generate(vlib.REPO)
    return dict(gen_regex.LAST)


def all_strings(alpha, n, lo=0):
    for k in range(lo, n + 1):
        for t in itertools.product(alpha, repeat=k):
            yield "".join(t)


def same_value(a, b):
    if isinstance(a, float) and isinstance(b, float) and math.isnan(a) and math.isnan(b):
        return True
    return type(a) is type(b) and a == b


def conv_ok(f, s, *a):
    try:
        return ("ok", f(s, *a))
    except ValueError:
        return ("err",)


def pp_parse(expr, s):
    """('ok', tokens list) | ('err',) | ('exc', class name)"""
    import pyparsing as pp
    try:
        return ("ok", expr.parse_string(s, parse_all=True).as_list())
    except pp.ParseBaseException:
        return ("err",)
    except RecursionError:
        return ("exc", "RecursionError")
    except Exception as e:  # anything else escaping a built-in is itself a finding
        return ("exc", type(e).__name__)


# ------------------------------------------------------------------------------------------------ (a) patterns
PATTERN_ALPHA = {
    "integer": "09+- _a", "signed_integer": "09+- _a", "hex_integer": "09afAFgx_",
    "real": "+-.e09 ", "sci_real": "+-.eE09", "fnumber": "+-.eE09", "ieee_float": "+-.e0nNaif",
    "identifier": "aZ_09 -\xe9\xb7", "ipv4_address": "0125.", "ipv6_part": "0afFg:", "uuid": "0aF-g",
    "iso8601_date": "019-", "iso8601_datetime": "09-T :.Z+",
}
EXTRA = {
    "ieee_float": ["inf", "nan", "infinity", "+inf", "-Infinity", "iNf", "infinit", "nane", "INFINITY", "infinityy", "-nan", "+NaN",
                   "1e5", "1.e5", ".5", "5.", "1_0", " 1", "i", "in", "infi", "infin", "infini", "1.5e-3", "1e", "1e+", "++1"],
    "uuid": ["12345678-1234-5678-1234-567812345678", "12345678-1234-5678-1234-56781234567", "12345678-1234-5678-1234-5678123456789",
             "1234567-1234-5678-1234-567812345678", "12345678-1234-5678-1234-56781234567g", "ABCDEFab-1234-5678-1234-567812345678",
             "12345678123456781234567812345678", "12345678-1234-5678-1234567812345678", "12345678-1234-5678-1234--567812345678"],
    "ipv4_address": ["1.2.3.4", "255.255.255.255", "256.1.1.1", "1.2.3", "1.2.3.4.5", "01.2.3.4", "00.0.0.0", "001.2.3.4", "1.2.3.04",
                     "199.249.250.99", "1..2.3", "1.2.3.4.", ".1.2.3.4", "300.1.1.1", "25.5.0.0", "2.55.0.1"],
    "iso8601_date": ["1999", "1999-12", "1999-12-31", "1999-1", "1999-12-3", "199", "19999", "1999-12-31-", "1999--12", "1999-12-311"],
    "iso8601_datetime": ["1999-12-31T23:59:59.999", "1999-12-31 23:59:59", "1999-12-31T23:59", "1999-12-31T23:59:", "1999-12-31T23:59:59.",
                         "1999-12-31T23:59:59Z", "1999-12-31T23:59:59+01:00", "1999-12-31T23:59:59+0100", "1999-12-31T23:59Z",
                         "1999-12-31T23:59:Z", "1999-12-31t23:59:59", "1999-12-31T23", "1999-12-31T23:59:5", "1999-12-31T23:59:59+01",
                         "1999-12-31T23:59:59+01:0", "1999-12-31T23:59:59.1234567-0000", "1999-12-31T23:59::"],
    "ipv6_part": ["0", "ffff", "FFFF", "12345", "", "g", "abcd", "abcde"],
}


def part_a(ctx, info):
    import pyparsing as pp
    from pyparsing import pyparsing_common as ppc
    n = 5 if ctx.thorough else 4
    trees, pats = {}, {}
    for name, pat in info["regex"].items():
        try:
            trees[name] = regex_ast.to_tree(pat)
            pats[name] = pat
        except regex_ast.Unsupported:
            ctx.stat("patterns_unsupported")
    for name, t in info["word_tree"].items():
        trees[name] = t
    real_re = {}
    for name in trees:
        e = getattr(ppc, name, None) or getattr(ppc, "_" + name)
        real_re[name] = e.re
    coq_exprs, coq_expect = [], []
    for name, tree in sorted(trees.items()):
        alpha = PATTERN_ALPHA[name]
        strs = list(all_strings(alpha, n)) + EXTRA.get(name, [])
        rre = real_re[name]
        pre = re.compile(pats[name]) if name in pats else None
        bad = 0
        for s in strs:
            m = regex_ast.py_fullmatch(tree, s)
            r = rre.fullmatch(s) is not None
            ok = (m == r) and (pre is None or (pre.fullmatch(s) is not None) == r)
            ctx.case(("re", name, s), nontrivial=r or m, agreed=ok)
            if not ok and bad < 3:
                bad += 1
                ctx.broken("correspondence:pattern %s model=%r re=%r on %r" % (name, m, r, s))
        ctx.stat("pattern_strings", len(strs))
        # the Python transcription against the Coq matcher itself on a sample (all strings <= 3 + extras)
        sample = list(all_strings(alpha, 3))
        coq_exprs.append("map (re_fullmatch re_%s) (strings_upto %s 3 ++ [%s])" % (
            name, vlib.coq_str(alpha), "; ".join(vlib.coq_str(x) for x in EXTRA.get(name, []))))
        coq_expect.append((name, [regex_ast.py_fullmatch(tree, s) for s in sample + EXTRA.get(name, [])]))

    # reference grammars and py_int against float()/int()
    lit_alpha = "+-.e0_ 1"
    lits = list(all_strings(lit_alpha, 4)) + [
        "inf", "nan", "infinity", "+inf", "-Infinity", "iNf", "infinit", "nane", " nan ", "in f", "1e1_0", "1_e1", "1._5", "1.5_5",
        "1_000.000_1e1_0", "\t1\n", "\x1c1\x1f", "1\x0b", "0x1", "1e-_1", "1__0", "_1", "1_", ".", "e1", "+.e1", "1.e", "1.e1", "-.5e+0"]
    hex_alpha = "0fAx_ -g"
    hexs = list(all_strings(hex_alpha, 4)) + ["0x_1f", "0X1F", "0x", "0xg", " -0x1_f ", "0x__1", "_0x1", "0_x1", "+0Xa_b", "0x1_"]
    coq_exprs.append("map (fun s => (py_float_literal s, py_int 10 s)) [%s]" % "; ".join(vlib.coq_str(x) for x in lits))
    coq_exprs.append("map (py_int 16) [%s]" % "; ".join(vlib.coq_str(x) for x in hexs))
    try:
        res = vlib.coq_eval_terms("c18_patterns", PRE, coq_exprs, timeout=900)
    except Exception as e:
        ctx.broken("correspondence:model-eval patterns (%s)" % str(e)[:300])
        return
    for (name, expect), got in zip(coq_expect, res):
        if list(got) != expect:
            k = next(i for i, (x, y) in enumerate(zip(got, expect)) if x != y) if len(got) == len(expect) else -1
            ctx.broken("correspondence:python transcription of the matcher != Coq matcher for %s (index %d)" % (name, k))
        ctx.stat("matcher_crosscheck", len(expect))
    flo = res[len(coq_expect)]
    for s, (mf, mi) in zip(lits, flo):
        pf = conv_ok(float, s)[0] == "ok"
        pi = conv_ok(int, s)
        agreed = (mf == pf) and ((mi == "None") == (pi[0] == "err")) and (pi[0] == "err" or mi == ("Some", pi[1]))
        ctx.case(("lit", s), nontrivial=pf, agreed=agreed)
        if not agreed:
            ctx.broken("correspondence:reference grammar vs float()/int() on %r: model float=%r int=%r, python float=%r int=%r" % (s, mf, mi, pf, pi))
    for s, mi in zip(hexs, res[len(coq_expect) + 1]):
        pi = conv_ok(int, s, 16)
        agreed = ((mi == "None") == (pi[0] == "err")) and (pi[0] == "err" or mi == ("Some", pi[1]))
        ctx.case(("hexlit", s), nontrivial=pi[0] == "ok", agreed=agreed)
        if not agreed:
            ctx.broken("correspondence:py_int 16 vs int(.,16) on %r: model %r python %r" % (s, mi, pi))
    ctx.stat("literal_strings", len(lits) + len(hexs))


# ------------------------------------------------------------------------------------------------ (b) numeric
DIG = set("0123456789")


def documented(name, s):
    """the documented syntax, phrased with Python's own converters (mirrors Model/Builtins.v g_<name>)"""
    cs = set(s)
    if name == "integer":
        return cs <= DIG and conv_ok(int, s)[0] == "ok"
    if name == "signed_integer":
        return cs <= DIG | set("+-") and conv_ok(int, s)[0] == "ok"
    if name == "hex_integer":
        return cs <= set("0123456789abcdefABCDEF") and conv_ok(int, s, 16)[0] == "ok"
    if name == "real":
        return cs <= DIG | set("+-.") and "." in s and conv_ok(float, s)[0] == "ok"
    if name == "sci_real":
        return cs <= DIG | set("+-.eE") and bool(cs & set(".eE")) and conv_ok(float, s)[0] == "ok"
    if name in ("number", "fnumber"):
        return cs <= DIG | set("+-.eE") and conv_ok(float, s)[0] == "ok"
    if name == "ieee_float":
        return s == s.strip() and "_" not in s and s != "" and all(ord(c) < 128 for c in s) and conv_ok(float, s)[0] == "ok"
    raise KeyError(name)


def numeric_key(name, s, kind):
    if kind == "reject" and name in ("fnumber", "ieee_float") and re.fullmatch(r"[+-]?\.[0-9]+([eE][+-]?[0-9]+)?", s):
        return "%s:leading-dot" % name
    return "numeric:%s:%s:%r" % (name, kind, s)


def numeric_oracle(name, expr, s, info):
    """returns None or (key, description) -- the property on the implementation"""
    got = pp_parse(expr, s)
    if got[0] == "exc":
        return ("numeric:%s:raises:%r" % (name, s), "%s raises %s on %r" % (name, got[1], s))
    text = s.strip(" \t\n\r")   # pyparsing skips its default white space around the token
    if got[0] == "ok":
        v = got[1][0]
        if name == "number":
            f = int if isinstance(v, int) else float
            want_int = documented("signed_integer", text)
            if want_int != isinstance(v, int):
                return (numeric_key(name, s, "type"), "number returns %s for %r" % (type(v).__name__, s))
            ref = conv_ok(f, text)
        elif name == "hex_integer":
            ref = conv_ok(int, text, 16)
        else:
            ref = conv_ok(int if info["conv"][name].startswith("ConvInt") else float, text)
        if ref[0] != "ok" or not same_value(ref[1], v):
            return (numeric_key(name, s, "accept"), "%s accepts %r and returns %r; the Python converter gives %r" % (name, s, v, ref))
        if not documented(name, text):
            return (numeric_key(name, s, "accept-undocumented"), "%s accepts %r outside its documented syntax" % (name, s))
    else:
        if s == text and documented(name, s):
            return (numeric_key(name, s, "reject"), "%s rejects %r although it is in its documented syntax" % (name, s))
    return None


def part_b(ctx, info):
    from pyparsing import pyparsing_common as ppc
    n = 5 if ctx.thorough else 4
    names = ["integer", "signed_integer", "hex_integer", "real", "sci_real", "number", "fnumber", "ieee_float"]
    strs = list(all_strings(NUM_ALPHA, n)) + EXTRA["ieee_float"] + ["1e400", "-1e400", "1e-400", "0" * 30 + "1", "9" * 40, "1." + "0" * 40 + "1",
                                                                   "123456789012345678901234567890", "0.1", "1e22", "1e23", "4.35", "2.675e2"]
    rng = ctx.rng
    for _ in range(3000 if not ctx.thorough else 30000):     # random near-misses, longer
        k = rng.randint(5, 12)
        strs.append("".join(rng.choice("+-.eE0123456789" if rng.random() < 0.8 else NUM_ALPHA + "abcdefABCDEF") for _ in range(k)))
    for name in names:
        expr = getattr(ppc, name)
        for s in strs:
            bad = numeric_oracle(name, expr, s, info)
            if bad:
                ctx.violation(bad[0], bad[1], {"kind": "numeric", "expr": name, "s": s})
            ctx.case(("num", name, s), nontrivial=False, agreed=True)
    ctx.stat("numeric_strings", len(strs) * len(names))
    # model of `number` (MatchFirst over the generated alternatives) against the implementation
    alts = [(a, regex_ast.to_tree(info["regex"][a]), info["conv"][a]) for a in info["number"]]
    for s in all_strings("+-.eE09", n):
        mv = None
        for a, tree, cv in alts:
            e = regex_ast.py_match(tree, s)
            if e is not None:
                mv = cv if e == len(s) else None
                break
        got = pp_parse(ppc.number, s)
        iv = None if got[0] != "ok" else ("ConvInt 10" if isinstance(got[1][0], int) else "ConvFloat")
        ctx.case(("number", s), nontrivial=iv is not None, agreed=mv == iv)
        if mv != iv:
            ctx.broken("correspondence:number model=%r impl=%r on %r" % (mv, iv, s))
    # fraction / mixed_integer: arithmetic of the documented forms
    ints = ["0", "1", "-1", "+2", "3", "10", "007"]
    for a in ints:
        for b in ints:
            for sep in ("/", " / "):
                s = a + sep + b
                got = pp_parse(ppc.fraction, s)
                if int(b) == 0:
                    if got[0] == "exc":
                        ctx.violation("fraction:zero-denominator", "fraction raises %s (not a ParseException) on %r" % (got[1], s),
                                      {"kind": "fraction", "s": s})
                    ctx.case(("frac", s), False, True)
                    continue
                want = float(int(a)) / float(int(b))
                if got[0] != "ok" or not same_value(got[1][0], want):
                    ctx.violation("fraction:%r" % s, "fraction gives %r on %r, expected %r" % (got, s, want), {"kind": "fraction", "s": s})
                ctx.case(("frac", s), True, True)
    for w in ["1", "-2", "+3"]:
        for a in ["1", "3"]:
            for b in ["2", "4"]:
                for sep in (" ", "-", " - "):
                    s = w + sep + a + "/" + b
                    got = pp_parse(ppc.mixed_integer, s)
                    want = int(w) + float(a) / float(b)          # documented: "integer - fraction" is summed
                    if got[0] != "ok" or not same_value(float(got[1][0]), want):
                        ctx.violation("mixed_integer:%r" % s, "mixed_integer gives %r on %r, expected %r" % (got, s, want),
                                      {"kind": "mixed", "s": s})
                    ctx.case(("mixed", s), True, True)


# ------------------------------------------------------------------------------------------------ plugin entry points
def correspond(ctx):
    info = gen_info()
    part_a(ctx, info)
    part_b(ctx, info)
    for part in (part_c, part_d, part_e):
        part(ctx, info)
    ctx.sample({"expr": "number", "s": "1e5", "impl": pp_parse(__import__("pyparsing").pyparsing_common.number, "1e5")})
    ctx.coverage_extra["exhaustive"] = True
    ctx.coverage_extra["partial"] = EXPLANATION


def part_c(ctx, info):
    pass


def part_d(ctx, info):
    pass


def part_e(ctx, info):
    pass


def search(ctx, reasons):
    """the tie is broken (a proof or a correspondence no longer checks): widen the oracles on the implementation"""
    from pyparsing import pyparsing_common as ppc
    info = gen_info()
    names = ["integer", "signed_integer", "hex_integer", "real", "sci_real", "number", "fnumber", "ieee_float"]
    for name in names:
        expr = getattr(ppc, name)
        for s in itertools.chain(all_strings("+-.eE09g", 5), all_strings("0aFgx", 3)):
            bad = numeric_oracle(name, expr, s, info)
            ctx.stat("search_cases")
            if bad and bad[0] not in ctx.known:
                ctx.violation(bad[0], bad[1], {"kind": "numeric", "expr": name, "s": s})
                break


def replay(ctx, obj):
    from pyparsing import pyparsing_common as ppc
    r = obj["replay"]
    info = gen_info()
    if r.get("kind") == "numeric":
        bad = numeric_oracle(r["expr"], getattr(ppc, r["expr"]), r["s"], info)
        if bad:
            print(bad[1])
        return bad is None
    if r.get("kind") == "fraction":
        got = pp_parse(ppc.fraction, r["s"])
        print("fraction on %r: %r" % (r["s"], got))
        return got[0] != "exc"
    print("replay names a broken proof/correspondence obligation: %r" % (r,))
    return False
