"""C14 — locations index the parsed string and agree with line/column."""
import itertools
from tools import vlib
from tools.harness import history

PROP = "C14"
GEN = ["gen_loc", "gen_entry"]
RULE = ("all strings up to length n over {a, space, TAB, NL, CR} x all loc in 0..len: model (regenerated from util.py) vs "
        "util.col/lineno/line, plus the consistency oracle against s.split('\\n') on the implementation; "
        "expandtabs model vs str.expandtabs; non-trivial = string has a newline and length >= 2")
TRUSTED = ["Model/Str.v primitives (py_idx, py_slice, py_find, py_rfind, py_count, expandtabs) stand for the CPython str methods; "
           "validated against CPython on every run by exhaustive small-scope comparison"]
ALPHA = "a \t\n\r"


def impl_triple(s, loc):
    import pyparsing.util as U
    fn = lambda f: getattr(f, "__wrapped__", f)
    return (fn(U.col)(loc, s), fn(U.lineno)(loc, s), fn(U.line)(loc, s))


def oracle(s, loc):
    """the property itself, evaluated on the implementation; returns None or a description of the failure"""
    try:
        c, ln, tx = impl_triple(s, loc)
    except Exception as e:
        return "raised %s: %s" % (type(e).__name__, e)
    ls = s.split("\n")
    if not (1 <= ln <= len(ls)):
        return "lineno %r outside 1..%d" % (ln, len(ls))
    if ls[ln - 1] != tx:
        return "line() %r is not line %d of the string (%r)" % (tx, ln, ls[ln - 1])
    if not (1 <= c <= len(tx) + 1):
        return "col %r outside 1..len(line)+1" % (c,)
    if loc != sum(len(l) + 1 for l in ls[:ln - 1]) + (c - 1):
        return "loc %d is not (lineno %d, col %d)" % (loc, ln, c)
    return None


def all_strings(n):
    for k in range(n + 1):
        for t in itertools.product(ALPHA, repeat=k):
            yield "".join(t)


def correspond(ctx):
    # entry points are independent of what the same grammar object was asked before (tools/harness/history.py)
    history.run(ctx, 'C14', ["none", "packrat128"], 250 if not ctx.thorough else 2500, mode_switches=False, with_action=False, seed_salt=14)
    n = 6 if ctx.thorough else 5
    strs = list(all_strings(n))
    # --- model side: one vm_compute per length class to keep outputs small
    pre = ("From Coq Require Import List ZArith NArith.\nFrom PP Require Import Model.Str Model.Enum Gen.GenLoc.\n"
           "Import ListNotations.\nLocal Open Scope Z_scope.\n"
           "Definition alpha : list char := %s.\n"
           "Definition triples (s : str) := map (fun k => let loc := Z.of_nat k in (gen_col loc s, gen_lineno loc s, gen_line loc s)) (seq 0 (S (length s))).\n"
           % vlib.coq_str(ALPHA))
    model = None
    if "translator:gen_loc" not in " ".join(ctx.tie_broken):
        try:
            exprs = ["map triples (strings_exact alpha %d)" % k for k in range(n + 1)]
            exprs.append("map expandtabs (strings_upto alpha %d)" % n)
            res = vlib.coq_eval_terms("c14_cases", pre, exprs, timeout=1200)
            model = [t for part in res[:-1] for t in part]
            model_tabs = res[-1]
        except Exception as e:
            ctx.broken("correspondence:model-eval (%s)" % str(e)[:200])
    # --- implementation side + oracle
    for i, s in enumerate(strs):
        for loc in range(len(s) + 1):
            bad = oracle(s, loc)
            key = "%r@%d" % (s, loc)
            nontriv = "\n" in s and len(s) >= 2
            agreed = True
            if bad:
                ctx.violation("input:" + key, "col/lineno/line inconsistent on s=%r loc=%d: %s" % (s, loc, bad),
                              {"kind": "loc", "s": s, "loc": loc})
            if model is not None:
                c, ln, tx = impl_triple(s, loc)
                mc, mln, mtx = model[i][loc]
                if (c, ln, tx) != (mc, mln, vlib.from_coq_str(mtx)):
                    agreed = False
                    ctx.broken("correspondence:col/lineno/line model!=impl on s=%r loc=%d impl=%r model=%r" % (
                        s, loc, (c, ln, tx), (mc, mln, vlib.from_coq_str(mtx))))
            ctx.case(key, nontriv, agreed)
        if model is not None:
            if vlib.from_coq_str(model_tabs[i]) != s.expandtabs():
                ctx.broken("correspondence:expandtabs model!=impl on %r" % s)
            ctx.stat("expandtabs_compared")
    parse_level_oracle(ctx)
    parse_level_model(ctx)
    ctx.sample({"s": "a\n\tb", "loc": 3, "impl": list(impl_triple("a\n\tb", 3))})
    ctx.sample({"s": "\n\n", "loc": 1, "impl": list(impl_triple("\n\n", 1))})
    ctx.stat("strings", len(strs))
    ctx.coverage_extra["exhaustive"] = True
    ctx.coverage_extra["scope"] = "all strings of length <= %d over %r, all loc" % (n, ALPHA)


def parse_level_model(ctx):
    """the theorems C14_token_slice / C14_action_loc / C14_located / C14_scan_locs / C14_parsed_string speak about the parser
    model (Model/Core.v, Model/Entry.v): run the extracted model beside the implementation on grammars whose results CARRY
    locations (Located, actions returning their `loc`, scan_string's start/end), on inputs with tabs and newlines, with and
    without parse_with_tabs"""
    from tools.harness import corr, gen, pcommon
    corr.ensure_driver()
    rng = ctx.rng
    W, N_ = ("word", "ab"), ("word", "12")
    shapes = [("located", W), ("located", ("and", W, N_)), ("and", ("located", W), ("located", N_)), ("plus", ("located", ("mf", W, N_))),
              ("act", ("loc",), W), ("and", ("act", ("loc",), W), ("act", ("loc",), N_)), ("plus", ("mf", ("act", ("loc",), W), N_)),
              ("group", ("and", ("located", ("opt", W)), N_)), ("dlist", ("located", W), ","), ("and", ("star", ("lit", "(")), ("located", W))]
    inputs = ["ab 12", "\tab\t12", "a\nb", "  ab", "ab\t\tba 1", "\n\tb 2\n", "a\tb", "(a\tb)", "a,\tb", "12\tab\n\tab", "x\tab", "\t\t", "ab\t"]
    groups = []
    for g in shapes:
        for keep in (False, True):
            gg = ("keeptabs", g) if keep else g
            groups.append((gg, {}, inputs, [("none",)], [("parse", False), ("parse", True), ("scan", None, False, True)]))
    for i in range(30 if not ctx.thorough else 300):
        g = gen.rand_grammar(rng, rng.randint(2, 4), dict(names=False, actions=False, fwd=True, extra=True))
        g = ("located", g) if i % 2 == 0 else ("and", ("act", ("loc",), W), g)
        if i % 3 == 0:
            g = ("keeptabs", g)
        ins = sorted({gen.sample_input(rng, g, gen.ENV0) for _ in range(2)} | {gen.mutate_input(rng, gen.sample_input(rng, g, gen.ENV0), "ab\t\n 1") for _ in range(2)})
        groups.append((g, gen.ENV0, ins, [("none",)], [("parse", False), ("scan", None, False, True)]))
    stats = {}
    recs = corr.run_groups(groups, stats=stats)
    pcommon.model_agreement(ctx, recs, "location-outcomes")
    for r in recs:
        ctx.case("loc-model:" + pcommon.key_of(r), nontrivial=("\t" in r["inp"] or "\n" in r["inp"]), agreed=r.get("agree", True))
    ctx.stat("location_model_cases", len(recs))


# ---- parse level: reported locations index the parsed string -------------------------------------------------------------
def parse_level_cases():
    import pyparsing as pp
    W = lambda: pp.Word("ab")          # fresh objects per use: root settings and debug flags must not leak between cases
    num = lambda: pp.Word("12")
    exprs = [
        ("word", lambda: W()), ("seq", lambda: W() + num()), ("group", lambda: pp.Group(W() + pp.Opt(num()))), ("alt", lambda: num() | W()),
        ("rep", lambda: pp.OneOrMore(W() | num())), ("lit", lambda: pp.Literal("ab") + pp.Literal("1")),
        ("notin", lambda: pp.CharsNotIn(" \n") + W()), ("delim", lambda: pp.DelimitedList(W())),
        ("nested", lambda: pp.Group("(" + pp.ZeroOrMore(W()) + ")") | W()),
    ]
    inputs = ["ab 12", "\tab\t12", "a\nb", "  ab", "ab\t\tba 1", "\n\tb 2\n", "a\tb", "(a\tb)", "a,\tb", "12\tab\n\tab", "x\tab"]
    return exprs, inputs


def parse_level_oracle(ctx):
    import pyparsing as pp
    exprs, inputs = parse_level_cases()
    for name, mk in exprs:
        for dbg in (False, True):
            for keep in (False, True):
                for inp in inputs:
                    base = mk().copy()          # root-level settings (parse_with_tabs, debug) must not leak into the shared pool objects
                    parsed = inp if keep else inp.expandtabs()
                    seen = []

                    def rec_action(s, l, t):
                        seen.append((s, l, list(t)))
                    leaf = pp.Word("ab").add_parse_action(rec_action)
                    g = pp.OneOrMore(leaf | pp.Word("12") | pp.one_of("( ) ,"))
                    loc_e = pp.Located(mk().copy())
                    otf = pp.original_text_for(mk().copy())
                    if keep:
                        for x in (g, loc_e, otf, base):
                            x.parse_with_tabs()
                    if dbg:
                        # the debug / fail-action branch of _parseNoCache must report the same locations (quiet debug actions on every node)
                        quiet = lambda *a: None
                        for x in (g, loc_e, otf, base):
                            for node in x.visit_all():
                                node.set_debug_actions(quiet, quiet, quiet)
                    key = "parse|%s|%s|%r|%d" % (name, keep, inp, dbg)
                    bad = None
                    try:
                        # (1) action locations index the parsed string and the token is the slice at that location
                        try:
                            g.parse_string(inp)
                        except pp.ParseBaseException:
                            pass
                        for (s_, l, t) in seen:
                            if s_ != parsed:
                                bad = "the string handed to the action is not the parsed string"
                            elif not (0 <= l <= len(parsed)) or parsed[l:l + len(t[0])] != t[0]:
                                bad = "action loc %d does not index the token %r in %r" % (l, t[0], parsed)
                        # (2) scan_string: slice start..end is what original_text_for returns there, and Located agrees
                        for toks, st, en in base.scan_string(inp):
                            if not (0 <= st <= en <= len(parsed)):
                                bad = "scan_string reports (%d,%d) outside the parsed string" % (st, en)
                                continue
                            try:
                                o = otf.parse_string(parsed[st:] if keep or "\t" not in parsed[st:] else parsed[st:])
                                if o[0] != parsed[st:en] and base.parse_string(parsed[st:]).as_list() == toks.as_list():
                                    bad = "original_text_for gives %r, the slice %d..%d is %r" % (o[0], st, en, parsed[st:en])
                            except pp.ParseBaseException:
                                pass
                        # (3) Located: locn_start..locn_end delimit the matched text
                        try:
                            r = loc_e.parse_string(inp)
                            st, en = r["locn_start"], r["locn_end"]
                            if not (0 <= st <= en <= len(parsed)):
                                bad = "Located reports (%d,%d) outside the parsed string" % (st, en)
                            else:
                                try:
                                    # (a MatchFirst/Or does not pre-parse, so Located may start before the skipped whitespace)
                                    if otf.parse_string(inp)[0] != parsed[st:en].lstrip(" \t\n\r"):
                                        bad = "original_text_for %r != parsed[%d:%d] %r" % (otf.parse_string(inp)[0], st, en, parsed[st:en])
                                except pp.ParseBaseException:
                                    pass
                        except pp.ParseBaseException as e:
                            if not (0 <= e.loc <= len(parsed)):
                                bad = "exception loc %d outside the parsed string" % e.loc
                    except Exception as ex:
                        bad = "internal %s: %s" % (type(ex).__name__, ex)
                    ctx.case(key, nontrivial=("\t" in inp or "\n" in inp), agreed=True)
                    if bad:
                        ctx.violation("parse-level:%s|%s|%r%s" % (name, keep, inp, "|debug" if dbg else ""),
                                      "%s keep_tabs=%s%s on %r: %s" % (name, keep, " with debug actions set" if dbg else "", inp, bad),
                                      {"kind": "parse-level", "name": name, "keep": keep, "input": inp})
    # (4) a Located that its container enters WITHOUT pre-parsing (SkipTo's target, AtLineStart / AtStringStart): the wrapped
    # expression must be matched exactly where the Located was entered, so locn_start..locn_end is the matched text itself
    for name, mk in exprs:
        if name in ("alt", "rep", "nested"):
            continue                # a MatchFirst / repetition root pre-parses late: Located may legitimately start before the blanks
        containers = [("skipto-include", lambda e: pp.SkipTo(pp.Located(e), include=True), ["12 \t ab 1", "  ab 1", ",,   ab\t1", "12\n\n ab 12", "(( ab"]),
                      ("atlinestart", lambda e: pp.AtLineStart(pp.Located(e)), ["ab 1", "ab\t12"]),
                      ("atstringstart", lambda e: pp.AtStringStart(pp.Located(e)), ["ab 1", "ab\t12"]),
                      ("skipto-then", lambda e: pp.SkipTo(pp.Located(e)) + pp.Located(e), ["12   ab 1", "1\t ab\t1"])]
        for cname, wrap, cinputs in containers:
            for keep in (False, True):
                for inp in cinputs:
                    g = wrap(mk().copy())
                    if keep:
                        g.parse_with_tabs()
                    parsed = inp if keep else inp.expandtabs()
                    try:
                        r = g.parse_string(inp)
                    except pp.ParseBaseException:
                        continue
                    st, en = r["locn_start"], r["locn_end"]
                    ctx.case("located-noprep|%s|%s|%s|%r" % (name, cname, keep, inp), True, True)
                    ctx.stat("located_without_preparse_cases")
                    # (the END may lie behind blanks that an unmatched trailing repetition consumed: only the start is decided here)
                    if not (0 <= st <= en <= len(parsed)) or parsed[st:st + 1].isspace():
                        ctx.violation("located-noprep:%s|%s|%s|%r" % (name, cname, keep, inp),
                                      "%s(Located(%s)) keep_tabs=%s on %r: locn_start..locn_end = %d..%d delimits %r, not the matched text" % (
                                          cname, name, keep, inp, st, en, parsed[st:en]),
                                      {"kind": "located-noprep", "name": name, "container": cname, "keep": keep, "input": inp})
    # original_text_for must return the slice between the first and the last matched character also when ignorables are
    # configured on the wrapped expression AFTER it was wrapped (its start marker shares the expression's ignore list)
    nlate = 0
    for name, mk in exprs:
        for inp in ["/* c */ ab 12", "ab /* d */ 12", " /*c*/ab\t12 /*e*/", "/*c*/ (a b)", "/* c */\n a,b", "ab"]:
            def variant(late):
                inner = mk()
                if not late:
                    inner.ignore(pp.c_style_comment)
                otf = pp.original_text_for(inner)
                if late:
                    inner.ignore(pp.c_style_comment)
                try:
                    return ("ok", otf.parse_string(inp)[0])
                except pp.ParseBaseException as e:
                    return ("err", e.loc)
            early, late = variant(False), variant(True)
            nlate += 1
            ctx.case("otf-late-ignore|%s|%r" % (name, inp), nontrivial=True, agreed=True)
            if early != late:
                ctx.violation("otf-late-ignore:%s|%r" % (name, inp),
                              "original_text_for(%s) on %r: %r when ignore(comment) is set before wrapping, %r when it is set on the wrapped expression afterwards" % (
                                  name, inp, early, late), {"kind": "otf-late", "name": name, "input": inp})
            elif early[0] == "ok" and (early[1].startswith("/*") or early[1] != early[1].lstrip()):
                ctx.violation("otf-includes-ignorable:%s|%r" % (name, inp), "original_text_for(%s) on %r returns %r (starts with skipped text)" % (name, inp, early[1]),
                              {"kind": "otf-late", "name": name, "input": inp})
    ctx.stat("otf_late_ignore_cases", nlate)
    # the end location of a repetition is the end of its last item, also when ignorables follow it
    nrep = 0
    for rname, mkrep in (("OneOrMore", lambda x: pp.OneOrMore(x)), ("ZeroOrMore", lambda x: pp.ZeroOrMore(x)),
                         ("OneOrMore+stop_on", lambda x: pp.OneOrMore(x, stop_on=pp.Literal("end"))), ("DelimitedList", lambda x: pp.DelimitedList(x, delim=","))):
        for keep in (False, True):
            for inp in ["ab ba /* note */ 12", "ab ba/*n*/12", "ab\tba /* a\tb */\t12", "ab ba /* note */", "ab ba 12", "ab ba /*x*/ /*y*/ 12 ab", "ab,ba /* n */ 12"]:
                if (rname == "DelimitedList") != ("," in inp):
                    continue
                seen = []
                leaf = pp.Word("ab").add_parse_action(lambda s_, l, t: seen.append((l, t[0])))
                rep = mkrep(leaf)
                e = (pp.Located(rep)("rep") + pp.Opt(pp.Word("12"))).ignore(pp.c_style_comment)
                if keep:
                    e.parse_with_tabs()
                parsed = inp if keep else inp.expandtabs()
                try:
                    r = e.parse_string(inp)
                except pp.ParseBaseException:
                    continue
                nrep += 1
                ctx.case("rep-end|%s|%s|%r" % (rname, keep, inp), True, True)
                want = max(l + len(t) for l, t in seen) if seen else None
                got = r["rep"]["locn_end"]
                if want is not None and got != want:
                    ctx.violation("rep-end:%s|%s|%r" % (rname, keep, inp),
                                  "%s(Word('ab')) with ignore(c_style_comment)%s on %r: the last item ends at %d (%r) but the repetition reports end %d (%r)" % (
                                      rname, " and parse_with_tabs" if keep else "", inp, want, parsed[:want], got, parsed[:got]),
                                  {"kind": "rep-end"})
    ctx.stat("rep_end_cases", nrep)
    ctx.stat("parse_level_cases", len(exprs) * 4 * len(inputs))


def search(ctx, reasons):
    history.run(ctx, 'C14', ["none", "packrat128"], 400 if not ctx.thorough else 4000, mode_switches=False, with_action=False, seed_salt=114)
    # widen: longer strings (random) on the implementation oracle
    rng = ctx.rng
    for _ in range(20000 if not ctx.thorough else 200000):
        s = "".join(rng.choice(ALPHA + "bc") for _ in range(rng.randint(0, 14)))
        loc = rng.randint(0, len(s))
        bad = oracle(s, loc)
        ctx.stat("search_cases")
        if bad:
            ctx.violation("input:%r@%d" % (s, loc), "col/lineno/line inconsistent on s=%r loc=%d: %s" % (s, loc, bad),
                          {"kind": "loc", "s": s, "loc": loc})
            return


def replay(ctx, obj):
    r = obj["replay"]
    if r.get("kind") == "history":
        return history.replay(r)
    if r.get("kind") == "parse-level":
        c2 = vlib.Ctx(PROP, "quick", 0)
        c2.known = {}
        parse_level_oracle(c2)
        hits = [v for v in c2.violations if v["replay"] == r]
        for v in hits:
            print(v["what"])
        return not hits
    if r.get("kind") == "loc":
        bad = oracle(r["s"], r["loc"])
        if bad:
            print("s=%r loc=%d: %s" % (r["s"], r["loc"], bad))
        return bad is None
    if r.get("kind") == "rep-end":
        c2 = vlib.Ctx(PROP, "quick", 0)
        c2.known = {}
        parse_level_oracle(c2)
        bad = [v for v in c2.violations if v["key"].startswith("rep-end")]
        for v in bad:
            print(v["what"])
        return not bad
    if r.get("kind") == "otf-late":
        c2 = vlib.Ctx(PROP, "quick", 0)
        c2.known = {}
        parse_level_oracle(c2)
        bad = [v for v in c2.violations if v["key"].startswith("otf-")]
        for v in bad:
            print(v["what"])
        return not bad
    print("replay names a broken proof/correspondence obligation: %r" % (r,))
    return False
