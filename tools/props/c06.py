"""C06 — parsing is total: only ParseBaseException escapes, with sane diagnostics."""
import itertools
from tools import vlib
from tools.harness import gen, corr, pcommon, views, build

PROP = "C06"
GEN = ["gen_loc"]
RULE = ("(a) extracted model vs implementation on random grammars over every modelled class with boundary-heavy inputs "
        "(empty, whitespace-only, tabs, newlines, non-ASCII, matches at and beyond the end) for parse_string / parse_all / scan_string; "
        "(b) implementation-only oracle over a zoo of every exported ParserElement class and helper x boundary inputs x "
        "{parse_string, parse_all, scan_string, search_string, transform_string, split, matches, run_tests}: only ParseBaseException "
        "escapes, 0 <= loc <= len (+1 after an end anchor), str()/line/lineno/col/column/found/mark_input_line()/explain() evaluate and "
        "agree with the string at loc; non-trivial = input of length >= 1 on a grammar of >= 2 nodes")
TRUSTED = pcommon.TRUSTED_PARSE + [
    "the location bound 0 <= loc <= len+1 is proved on the model for _parse / parse_string on grammars without GoToColumn "
    "(C06_loc_bound_partial, C06_parse_string_loc_bound_partial; GoToColumn violates it: F-06, C06_loc_bound_gotocolumn_refuted); "
    "for the other entry points, unmodelled classes and GoToColumn grammars it is checked on the implementation by the oracle only",
    "classes outside the model (Regex, QuotedString, CloseMatch, Dict, IndentedBlock, helpers) are exercised by the oracle only"]

BOUNDARY = ["", " ", "\n", "\t", "a", "ab", " a", "a ", "a\n", "\na", "a\tb", "\t\ta", "é", "aé", "a b", "ab\n\nab", "(", "(a", "a,",
            "a,b", ",", "  ", "\r\n", "a\r\nb", "ab ab ab", "aaaa", "'a", "\"a\"", "1", "12 3", "-1.5e3", "0x1F", "a1_b",
            "\u017f", "\u0130", "\u212a", "i\u017f", "\u017ft", "\u0131"]


def _locless(pp, read):
    def act(s, l, t):
        raise pp.ParseException("rejected by the action")
    e = pp.Word("ab").set_parse_action(act)
    if read:
        quiet = lambda *a: None
        e.set_debug_actions(quiet, quiet, lambda s, l, el, err, cache=False: str(err))
    return e


def _fwd_of(pp, e):
    f = pp.Forward()
    f <<= e
    return f


def zoo():
    """(name, constructor) for every exported element class / helper; built lazily so that import errors are local"""
    import pyparsing as pp
    from pyparsing import common as ppc
    W, L = pp.Word, pp.Literal
    z = [
        ("Literal", lambda: L("ab")), ("CaselessLiteral", lambda: pp.CaselessLiteral("ab")), ("Keyword", lambda: pp.Keyword("ab")),
        ("CaselessKeyword", lambda: pp.CaselessKeyword("ab")), ("Word", lambda: W("ab")), ("Word.max", lambda: W("ab", max=2)),
        ("Word.exact", lambda: W("ab", exact=2)), ("Word.askw", lambda: W("ab", as_keyword=True)), ("Char", lambda: pp.Char("ab")),
        # character sets containing a space cannot become a regular expression: the character-loop path of Word.parseImpl
        ("Word.loop", lambda: W("ab ")), ("Word.loop.askw", lambda: W("ab ", as_keyword=True)), ("Word.loop.max", lambda: W("ab ", max=2)),
        ("Word.loop.exact", lambda: W("ab ", exact=2)), ("Word.loop.min", lambda: W("ab ", min=2)), ("Word.loop.body", lambda: W("a", "b ", as_keyword=True)),
        ("Word.loop.group", lambda: pp.Group(W("ab ", as_keyword=True))[1, ...]), ("Word.excl", lambda: W("abc", exclude_chars="c")),
        ("Word.min", lambda: W("ab", min=2)), ("Word.body", lambda: W("a", "b")), ("Word.body.askw", lambda: W("a", "b", as_keyword=True, max=3)),
        ("Char.askw", lambda: pp.Char("ab", as_keyword=True)), ("Char.loop", lambda: pp.Char("a ")), ("CharsNotIn.max", lambda: pp.CharsNotIn(",", max=2)),
        ("CharsNotIn.exact", lambda: pp.CharsNotIn(",", exact=2)), ("White.max", lambda: pp.White(" ", max=2)), ("White.exact", lambda: pp.White(" \t", exact=2)),
        ("CharsNotIn", lambda: pp.CharsNotIn(",")), ("White", lambda: pp.White()), ("Regex", lambda: pp.Regex(r"a+b?")),
        ("Regex.empty", lambda: pp.Regex(r"a*")), ("QuotedString", lambda: pp.QuotedString('"')), ("QuotedString.esc", lambda: pp.QuotedString("'", esc_char="\\")),
        ("CloseMatch", lambda: pp.CloseMatch("abab")), ("Empty", lambda: pp.Empty()), ("NoMatch", lambda: pp.NoMatch()),
        ("LineStart", lambda: pp.LineStart() + W("ab")), ("LineEnd", lambda: W("ab") + pp.LineEnd()), ("StringStart", lambda: pp.StringStart() + W("ab")),
        ("StringEnd", lambda: W("ab") + pp.StringEnd()), ("StringEnd2", lambda: pp.StringEnd() + pp.StringEnd()),
        ("StringEnd2.then", lambda: W("ab") + pp.StringEnd() + pp.StringEnd() + W("12")), ("LineEnd.StringEnd.then", lambda: W("ab") + pp.LineEnd() + pp.StringEnd() + W("12")),
        ("LineEnd.StringEnd.stop", lambda: W("ab") + pp.LineEnd() - pp.StringEnd() - W("12")), ("StringEnd3.or", lambda: (pp.StringEnd() + pp.StringEnd() + pp.StringEnd() + W("12")) ^ L("zz")),
        ("StringEnd2.then.lit", lambda: W("ab") + pp.StringEnd() + pp.StringEnd() + L("a")), ("StringEnd5.regex", lambda: W("ab") + pp.StringEnd() * 5 + pp.Regex("[0-9]+")), ("LineEnd2", lambda: pp.LineEnd() + pp.LineEnd() + L("a")),
        ("WordStart", lambda: pp.WordStart("ab") + W("ab")), ("WordEnd", lambda: W("ab") + pp.WordEnd("ab")), ("WordEnd0", lambda: pp.WordEnd("ab")),
        ("GoToColumn", lambda: pp.GoToColumn(3) + W("ab")), ("Tag", lambda: W("ab") + pp.Tag("t")),
        ("And", lambda: L("a") + "b"), ("And.stop", lambda: L("a") - "b"), ("MatchFirst", lambda: L("a") | "b"), ("Or", lambda: L("a") ^ "ab"),
        ("Each", lambda: L("a") & "b"), ("Each.opt", lambda: pp.Opt("a") & "b" & pp.ZeroOrMore("c")),
        ("Opt", lambda: pp.Opt("a") + "b"), ("ZeroOrMore", lambda: pp.ZeroOrMore("a")), ("OneOrMore", lambda: pp.OneOrMore(W("ab"))),
        ("OneOrMore.stop", lambda: pp.OneOrMore(W("ab"), stop_on="b")), ("NotAny", lambda: ~L("a") + W("ab")), ("FollowedBy", lambda: pp.FollowedBy("a") + W("ab")),
        # a lookbehind tried where fewer characters precede than it needs (start of the text, right after a short token)
        ("PrecededBy.first", lambda: pp.PrecededBy("b") + W("ab12")), ("PrecededBy.first2", lambda: pp.PrecededBy("ab") + W("ab12,")),
        ("PrecededBy.first3", lambda: pp.PrecededBy("abc") + pp.Regex(r"(?s).")), ("PrecededBy.short", lambda: pp.Opt("a") + pp.PrecededBy("aab") + W("ab1")),
        ("PrecededBy.kw", lambda: pp.PrecededBy(pp.Keyword("ab")) + W(" ab")), ("PrecededBy.alt", lambda: (pp.PrecededBy("ab") | pp.PrecededBy(",")) + W("ab1")),
        ("PrecededBy", lambda: W("ab") + pp.PrecededBy("b") + ","), ("PrecededBy.win", lambda: W("ab") + pp.PrecededBy(W("ab"), retreat=2) + ","),
        ("Group", lambda: pp.Group(W("ab") + ",")), ("Suppress", lambda: pp.Suppress("a") + "b"), ("Combine", lambda: pp.Combine(W("a") + W("b"))),
        # a parse action that raises a ParseException WITHOUT a location (the one-argument form), below wrappers that fill the
        # location in afterwards, with a debug fail action that reads the diagnostics before they do (F-06e)
        ("locless.Group", lambda: pp.Opt(W("ab") + pp.LineEnd()) + pp.Group(_locless(pp, False))),
        ("locless.Group.read", lambda: pp.Opt(W("ab") + pp.LineEnd()) + pp.Group(_locless(pp, True))),
        ("locless.Forward.read", lambda: pp.Opt(W("ab") + pp.LineEnd()) + _fwd_of(pp, _locless(pp, True))),
        ("locless.Opt.read", lambda: pp.Opt(W("ab") + pp.LineEnd()) + pp.Opt(pp.Suppress(_locless(pp, True))) + W("ab")),
        ("locless.bare.read", lambda: pp.Opt(W("ab") + pp.LineEnd()) + _locless(pp, True)),
        ("Dict", lambda: pp.Dict(pp.OneOrMore(pp.Group(W("ab") + W("ab"))))),
        # token converters run postParse OUTSIDE the IndexError net of parseImpl: contents that produce empty groups / no tokens / bare tokens
        ("Dict.emptygroup", lambda: pp.Dict(pp.Group(pp.Opt(W("ab"))) + pp.Group(W("ab")[...]))),
        ("Dict.delim.emptygroup", lambda: pp.Dict(pp.DelimitedList(pp.Group(pp.Opt(W("ab") + "=" + W("ab")))))),
        # (Dict over bare tokens raises a deliberate TypeError "Dict expression must contain Grouped expressions": a documented
        #  diagnostic of grammar misuse, not an internal leak - not a zoo member)
        ("Dict.onetoken", lambda: pp.Dict(pp.Group(W("ab"))[...])),
        ("Dict.nested", lambda: pp.Dict(pp.Group(W("ab") + pp.Group(pp.Opt(W("ab"))))[...])), ("Dict.named", lambda: pp.Dict(pp.Group(pp.Opt(W("ab")))("g") + pp.Opt(","))),
        ("dict_of.optvalue", lambda: pp.dict_of(W("a"), pp.Opt(W("b")))), ("ungroup.empty", lambda: pp.ungroup(pp.Group(pp.Opt("a")))),
        ("ungroup.none", lambda: pp.ungroup(pp.Opt("a"))), ("Combine.empty", lambda: pp.Combine(pp.Opt("a") + pp.Opt("b"))),
        ("Group.empty", lambda: pp.Group(pp.Empty())), ("Suppress.empty", lambda: pp.Suppress(pp.Opt("a")) + pp.Opt("b")),
        ("original_text_for.empty", lambda: pp.original_text_for(pp.Opt("a"))), ("Located.empty", lambda: pp.Located(pp.Opt("a"))), ("Located", lambda: pp.Located(W("ab"))),
        ("SkipTo", lambda: pp.SkipTo("b")), ("SkipTo.incl", lambda: pp.SkipTo(",", include=True)), ("SkipTo.fail", lambda: pp.SkipTo("b", fail_on=",")),
        ("DelimitedList", lambda: pp.DelimitedList(W("ab"))), ("DelimitedList.trail", lambda: pp.DelimitedList(W("ab"), allow_trailing_delim=True)),
        ("AtStringStart", lambda: pp.AtStringStart(W("ab"))), ("AtLineStart", lambda: pp.AtLineStart(W("ab"))),
        ("Forward", lambda: _fwd()), ("Forward.empty", lambda: pp.Forward()), ("IndentedBlock", lambda: W("ab") + pp.IndentedBlock(W("ab"))),
        ("one_of", lambda: pp.one_of("a ab b")), ("one_of.caseless", lambda: pp.one_of("a AB", caseless=True)),
        # characters that re.IGNORECASE equates with an ASCII letter while str.lower()/upper() do not (F-06c)
        ("one_of.caseless.fold", lambda: pp.one_of("s k i st", caseless=True)), ("one_of.caseless.kw", lambda: pp.one_of("s k i", caseless=True, as_keyword=True)),
        ("CaselessLiteral.fold", lambda: pp.CaselessLiteral("s")), ("CaselessKeyword.fold", lambda: pp.CaselessKeyword("is")),
        ("nested_expr", lambda: pp.nested_expr()),
        ("counted_array", lambda: pp.counted_array(W("ab"))), ("infix", lambda: pp.infix_notation(W("ab"), [(",", 2, pp.OpAssoc.LEFT)])),
        ("original_text_for", lambda: pp.original_text_for(W("ab") + ",")), ("ungroup", lambda: pp.ungroup(pp.Group(W("ab")))),
        ("match_previous_literal", lambda: _mpl()), ("dict_of", lambda: pp.dict_of(W("a"), W("b"))), ("make_html_tags", lambda: pp.make_html_tags("a")[0]),
        ("c_style_comment", lambda: pp.c_style_comment), ("python_style_comment", lambda: pp.python_style_comment), ("html_comment", lambda: pp.html_comment),
        ("quoted_string", lambda: pp.quoted_string), ("common.integer", lambda: ppc.integer), ("common.real", lambda: ppc.real), ("common.number", lambda: ppc.number),
        ("common.identifier", lambda: ppc.identifier), ("common.ipv4", lambda: ppc.ipv4_address), ("common.ipv6", lambda: ppc.ipv6_address),
        ("common.uuid", lambda: ppc.uuid), ("common.iso8601_date", lambda: ppc.iso8601_date), ("common.comma_separated_list", lambda: ppc.comma_separated_list),
        ("common.url", lambda: ppc.url), ("ignore", lambda: pp.OneOrMore(W("ab")).ignore(pp.c_style_comment)),
        ("leave_ws", lambda: (L("a") + "b").leave_whitespace()), ("keeptabs", lambda: (W("ab") + W("ab")).parse_with_tabs()),
        ("cond", lambda: W("ab").add_condition(lambda t: len(t[0]) > 1)), ("cond.fatal", lambda: W("ab").add_condition(lambda t: len(t[0]) > 1, fatal=True)),
    ]
    return z


def _fwd():
    import pyparsing as pp
    f = pp.Forward()
    f <<= pp.Group("(" + pp.ZeroOrMore(f) + ")") | pp.Word("ab")
    return f


def _mpl():
    import pyparsing as pp
    first = pp.Word("ab")
    return first + "," + pp.match_previous_literal(first)


def anchored_at_end(e):
    """may the location legitimately be len+1?  (an end-of-text / end-of-line anchor had matched at len)"""
    import pyparsing as pp
    try:
        return any(isinstance(x, (pp.StringEnd, pp.LineEnd)) for x in e.visit_all())
    except Exception:
        return True


def check_exception(exc, parsed, expr_name, entry, inp, anchors):
    """property oracle on one escaping exception; returns None or a description"""
    import pyparsing as pp
    if not isinstance(exc, pp.ParseBaseException):
        return "internal %s escaped: %s" % (type(exc).__name__, str(exc)[:80])
    n = len(parsed)
    hi = n + 1 if anchors else n
    if not (0 <= exc.loc <= hi):
        return "loc %r outside 0..%d (raised by %s)" % (exc.loc, hi, type(exc.parser_element).__name__)
    try:
        s1, ln, lno, c, c2, fnd = str(exc), exc.line, exc.lineno, exc.col, exc.column, exc.found
        mk = exc.mark_input_line()
        ex = exc.explain(depth=0)
    except Exception as e2:
        return "diagnostic raised %s: %s" % (type(e2).__name__, e2)
    if exc.pstr == parsed and exc.loc <= n:
        ls = parsed.split("\n")
        if not (1 <= lno <= len(ls)) or ls[lno - 1] != ln:
            return "line/lineno disagree with the string: lineno=%r line=%r" % (lno, ln)
        if c != c2 or not (1 <= c <= len(ln) + 1):
            return "col %r / column %r outside the line" % (c, c2)
        if exc.loc != sum(len(l) + 1 for l in ls[:lno - 1]) + c - 1:
            return "loc %r is not (lineno %r, col %r)" % (exc.loc, lno, c)
        if exc.loc < n and fnd and not parsed[exc.loc:].startswith(fnd.strip("'")[:1]) and fnd not in ("end of text",):
            pass  # `found` is a rendering, not compared further
    return None


def defect_key(exc, bad, expr=None):
    """a stable key naming the defect (the raising site), so that a different defect gets a different key"""
    import traceback, pyparsing as pp
    if not isinstance(exc, pp.ParseBaseException):
        frames = [f for f in traceback.extract_tb(exc.__traceback__)
                  if "/pyparsing/" in f.filename and not f.filename.endswith("results.py")]
        site = "%s:%s" % (frames[-1].name, (frames[-1].line or "").strip()) if frames else "?"
        return "internal:%s@%s" % (type(exc).__name__, site.replace(" ", "_"))
    if bad.startswith("loc ") and " outside " in bad:
        try:
            if expr is not None and any(isinstance(x, pp.GoToColumn) for x in expr.visit_all()):
                return "loc-out-of-range:after-GoToColumn"
        except Exception:
            pass
        return "loc-out-of-range:%s" % type(exc.parser_element).__name__
    import re
    return "diagnostic:%s" % re.sub(r"[0-9]+", "N", bad.split(":")[0]).replace(" ", "_")[:60]


def run_entries(e, inp):
    """every entry point on the real implementation; yields (entry_name, exception_or_None, parsed_string)"""
    import pyparsing as pp
    parsed = inp if e.keepTabs else inp.expandtabs()
    calls = [
        ("parse_string", lambda: e.parse_string(inp)), ("parse_all", lambda: e.parse_string(inp, parse_all=True)),
        ("scan_string", lambda: list(e.scan_string(inp))), ("scan_overlap", lambda: list(e.scan_string(inp, overlap=True, max_matches=5))),
        ("search_string", lambda: e.search_string(inp)), ("matches", lambda: e.matches(inp)),
        ("split", lambda: list(e.split(inp))), ("split_seps", lambda: list(e.split(inp, include_separators=True, maxsplit=2))),
        ("transform_string", lambda: e.copy().transform_string(inp)),
        ("run_tests", lambda: e.run_tests([inp], print_results=False, comment=None)),
        # the other documented shapes of the test list: one multi-line string with comment lines and blank lines, numbered lines
        ("run_tests_text", lambda: e.run_tests("# note\n\n" + inp.replace("\n", " ").replace("\r", " ") + "\n\n# end\n", print_results=False, with_line_numbers=True)),
        ("run_tests_fail", lambda: e.run_tests(["# c", "", inp], print_results=False, failure_tests=True, with_line_numbers=True, full_dump=False)),
    ]
    for name, f in calls:
        try:
            f()
            yield name, None, parsed
        except RecursionError:
            yield name, None, parsed
        except Exception as exc:
            yield name, exc, (inp if name == "transform_string" else parsed)


class _Timeout(BaseException):
    pass


def oracle_zoo(ctx, inputs):
    import signal
    import pyparsing as pp

    def on_alarm(sig, frm):
        raise _Timeout()
    old = signal.signal(signal.SIGPROF, on_alarm)
    try:
        quiet = lambda *a: None
        for name, mk in [(n_, m_, ) for (n_, m_) in zoo()] + [(n_ + "+debug", m_) for (n_, m_) in zoo()]:
            try:
                e = mk()
                if name.endswith("+debug"):
                    # the debug / fail-action branch of _parseNoCache (a copy: several zoo members are module-level objects)
                    e = e.copy()
                    e.set_debug_actions(quiet, quiet, quiet)
                    e.set_fail_action(quiet)
            except Exception as ex:
                ctx.stat("zoo_unbuildable")
                continue
            anchors = anchored_at_end(e)
            for inp in inputs:
                try:
                    try:
                        signal.setitimer(signal.ITIMER_PROF, 2.0, 0.25)     # repeating: an alarm raised inside a __del__ / weakref callback is swallowed
                        for entry, exc, parsed in run_entries(e, inp):
                            key = "%s|%s|%r" % (name, entry, inp)
                            ctx.case(key, nontrivial=len(inp) >= 1, agreed=True)
                            if exc is None:
                                continue
                            ctx.stat("zoo_exceptions")
                            bad = check_exception(exc, parsed, name, entry, inp, anchors)
                            if bad:
                                ctx.violation(defect_key(exc, bad, e),
                                              "%s.%s(%r): %s" % (name, entry, inp, bad),
                                              {"kind": "zoo", "element": name, "entry": entry, "input": inp})
                    finally:
                        signal.setitimer(signal.ITIMER_PROF, 0)
                except _Timeout:
                    ctx.stat("zoo_timeouts")
                pp.ParserElement.disable_memoization()
    finally:
        signal.signal(signal.SIGPROF, old)


def correspond(ctx):
    corr.ensure_driver()
    rng = ctx.rng
    # (a) model vs implementation, boundary-heavy
    n = 400 if not ctx.thorough else 3000
    groups = []
    for i in range(n):
        g = gen.rand_grammar(rng, rng.randint(2, 4), dict(names=(i % 2 == 0), actions=(i % 3 == 0), stops=True, fwd=True, extra=True, ws=(i % 4 == 0), fatal=True))
        env = rng.choice([gen.ENV0, gen.ENV_EXPR])
        inputs = set(rng.sample(BOUNDARY, 7))
        inputs.add(gen.sample_input(rng, g, env))
        groups.append((g, env, sorted(inputs), [("none",)], [("parse", False), ("parse", True), ("scan", None, False, True)]))
    stats = {}
    recs = corr.run_groups(groups, stats=stats)
    ctx.coverage_extra["class_histogram"] = stats.get("classes", {})
    pcommon.outcome_hist(ctx, recs)
    pcommon.model_agreement(ctx, recs, "totality-outcomes")
    for r in recs:
        ctx.case(pcommon.key_of(r), nontrivial=len(r["inp"]) >= 1 and gen.size(r["g"]) >= 2, agreed=r.get("agree", True))
        o = r["real"]
        fin = o[2] if o[0] == "scan" else o
        if isinstance(fin, tuple) and fin[0] == "err" and fin[1] not in corr.PBE:
            has_raise = "raise" in repr(r["g"]) or "cond" in repr(r["g"])
            if not has_raise:
                ctx.violation("internal:%r|%r|%r" % (r["g"], r["inp"], r["entry"]),
                              "internal %s escapes %r on %r (%r)" % (fin[1], r["g"], r["inp"], r["entry"]),
                              {"kind": "case", "grammar": r["g"], "env": r["env"], "input": r["inp"], "entry": r["entry"]})
    # (b) the zoo, implementation only
    extra = ["".join(t) for t in itertools.product("a ,\n", repeat=3)] if ctx.thorough else []
    oracle_zoo(ctx, BOUNDARY + extra)
    ctx.sample({"element": "StringEnd", "entry": "parse_all", "input": "ab x", "note": "exception loc within the string, diagnostics evaluated"})
    ctx.sample({"grammar": recs[0]["g"], "input": recs[0]["inp"], "impl": corr.proj_all(recs[0]["real"])[:3]})


def search(ctx, reasons):
    import random
    rng = random.Random(ctx.seed + 77)
    more = ["".join(rng.choice("ab ,\n\t(") for _ in range(rng.randint(0, 8))) for _ in range(60 if not ctx.thorough else 400)]
    oracle_zoo(ctx, more)


def _tuplify(x):
    return tuple(_tuplify(y) for y in x) if isinstance(x, list) else x


def replay(ctx, obj):
    r = obj["replay"]
    if r.get("kind") == "zoo":
        for name, mk in zoo():
            if name == r["element"]:
                e = mk()
                for entry, exc, parsed in run_entries(e, r["input"]):
                    if entry == r["entry"] and exc is not None:
                        bad = check_exception(exc, parsed, name, entry, r["input"], anchored_at_end(e))
                        print("%s.%s(%r): %r -> %s" % (name, entry, r["input"], exc, bad or "ok"))
                        return bad is None
                return True
    if r.get("kind") == "case":
        g, env = _tuplify(r["grammar"]), {int(k): _tuplify(v) for k, v in (r.get("env") or {}).items()}
        x = pcommon.single(g, env, r["input"], ("none",), _tuplify(r["entry"]))
        print(corr.proj_all(x["real"]))
        o = x["real"]
        fin = o[2] if o[0] == "scan" else o
        return not (isinstance(fin, tuple) and fin[0] == "err" and fin[1] not in corr.PBE)
    print("replay names a broken proof/correspondence obligation: %r" % (r,))
    return False
