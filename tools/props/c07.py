"""C07 — error stops and fatal exceptions are never backtracked over."""
from tools import vlib
from tools.harness import gen, corr, pcommon, build, observe

PROP = "C07"
GEN = ["gen_exc", "gen_memo"]
RULE = ("seeded random grammars with '-' (error stop) at random positions of sequences nested in every container, fatal conditions "
        "and fatal-raising actions; inputs sampled from the grammar and mutated; (i) extracted model vs implementation (exception "
        "class, location, message, tokens); (ii) implementation-only oracle on grammars built from transparent containers only: every "
        "construction of a ParseFatalException/ParseSyntaxException during parse_string is recorded from outside, and if one was "
        "constructed the call must raise a fatal exception at the location of the first one; non-trivial = a fatal exception was "
        "constructed during the parse; the oracle and the model comparison are repeated with packrat on and, for a left-recursive rule "
        "E <<= (E + '+' - N) | N placed inside the same containers, with enable_left_recursion(None / 1); (iii) the elements that do "
        "not simply let a fatal exception through (Proofs/FatalAlt.v): a family of Or / Each grammars over alternatives with error "
        "stops, fatal / non-fatal conditions and fatal actions, and repetitions with stop_on / SkipTo with fail_on whose sentinel has an "
        "error stop, compared with the model, plus implementation oracles stating the theorems on the real objects: the outcome of "
        "the real Or (Each) against what C07_or_no_match / C07_or_some_match (C07_each_no_match / C07_each_some_match) predict from the "
        "outcomes of try_parse(raise_fatal=True) / _parse of the real alternatives; a repetition / SkipTo whose stop_on / fail_on / "
        "ignore expression raises a fatal exception against its twin whose sentinel has '+' in place of '-' (same outcome on every input)")
TRUSTED = pcommon.TRUSTED_PARSE + [
    "the oracle's recorder wraps ParseFatalException.__init__ from the harness (no change to /repo)",
    "the Or/Each oracle calls try_parse(raise_fatal=True) and _parse on the alternatives of the built object, as Or/Each.parseImpl do"]

TRANSPARENT_UNARY = ["opt", "star", "plus", "group", "suppress", "fb", "combine", "located"]


def rand_transparent(rng, depth):
    """grammar over And (with '-'), MatchFirst, Opt, ZeroOrMore, OneOrMore, Group, Suppress, FollowedBy, Combine, Located, Forward"""
    def leaf():
        return rng.choice([gen.A, gen.B, gen.AB, ("word", "ab"), ("lit", ","), ("kw", "a"), ("fwd", 0), ("empty",)])

    def go(d):
        if d <= 1 or rng.random() < 0.15:
            g = leaf()
        else:
            r = rng.random()
            if r < 0.45:
                n = rng.choice([2, 3, 3])
                parts = tuple(go(d - 1) for _ in range(n))
                g = ("andstop", rng.randint(1, n - 1)) + parts if rng.random() < 0.6 else ("and",) + parts
            elif r < 0.65:
                g = ("mf",) + tuple(go(d - 1) for _ in range(rng.choice([2, 3])))
            else:
                u = rng.choice(TRANSPARENT_UNARY)
                body = go(d - 1)
                if u in ("star", "plus") and gen.nullable(body, ENV_T):
                    body = ("and", rng.choice([gen.A, gen.B, ("word", "ab")]), body)     # the property excludes nullable repetition bodies
                g = (u, body)
        if rng.random() < 0.12:
            g = ("act", rng.choice([("raise", "fatal", 2), ("cond", 2, True, 3), ("cond", 2, False, 4), ("raise", "parse", 1)]), g)
        return g
    return go(depth)


ENV_T0 = None
ENV_T = {0: ("mf", ("andstop", 1, ("lit", "("), ("fwd", 0), ("lit", ")")), ("word", "ab"))}
ENV_LR = {0: ("mf", ("andstop", 2, ("fwd", 0), ("lit", ","), ("word", "ab")), ("word", "ab"))}     # E <<= (E + ',' - W) | W
LR_INPUTS = ["a,b", "a,b,a", "a,b,,", "a,,b", "ab , ba , ,", "a,b,a,(", "a b,", "a,"]


class Recorder:
    """records every construction of a fatal exception while active"""
    def __init__(self):
        import pyparsing as pp
        self.pp = pp
        self.events = []

    def __enter__(self):
        pp = self.pp
        self.orig = pp.ParseBaseException.__init__
        rec = self

        def init(exc, pstr, loc=0, msg=None, elem=None):
            rec.orig(exc, pstr, loc, msg, elem)
            if isinstance(exc, pp.ParseFatalException):
                rec.events.append((type(exc).__name__, exc.loc))
        pp.ParseBaseException.__init__ = init
        return self

    def __exit__(self, *a):
        self.pp.ParseBaseException.__init__ = self.orig


class _Timeout(BaseException):
    pass


def outcome_with_debug(g, env, inp, debug):
    """(class, loc) of parse_string on a fresh build, optionally with quiet debug actions set on every node (individually, before
    the first parse): diagnostics must not change what is an error stop"""
    import pyparsing as pp

    def run():
        root = build.Builder(env).build_all(g)
        if debug:
            quiet = lambda *a: None
            nodes = list(root.visit_all())
            inner = set()
            if debug == "outer":          # every node except the direct members of a sequence (those are what streamline() flattens)
                for n in nodes:
                    if isinstance(n, pp.And):
                        inner.update(id(c) for c in n.exprs)
            for node in nodes:
                if id(node) not in inner:
                    node.set_debug_actions(quiet, quiet, quiet)
        try:
            root.parse_string(inp)
            return ("ok",)
        except pp.ParseBaseException as e:
            return (type(e).__name__, e.loc)
        except RecursionError:
            return ("div",)
        except Exception as e:
            return ("other", type(e).__name__)
    from tools.props.c04 import guarded
    return guarded(run, 0.75)


def oracle_case(g, env, inp, mode=("none",)):
    """returns (n_fatal_constructed, failure-or-None); a parse that spins (nullable repetition body) is skipped"""
    import signal

    def on_alarm(sig, frm):
        raise _Timeout()
    old = signal.signal(signal.SIGALRM, on_alarm)
    signal.setitimer(signal.ITIMER_REAL, 0.75)
    try:
        return _oracle_case(g, env, inp, mode)
    except _Timeout:
        return 0, None
    finally:
        signal.setitimer(signal.ITIMER_REAL, 0)
        signal.signal(signal.SIGALRM, old)


def _oracle_case(g, env, inp, mode=("none",)):
    import pyparsing as pp
    b = build.Builder(env)
    root = b.build_all(g)
    observe.set_mode(mode)
    try:
        return _oracle_run(pp, root, inp)
    finally:
        pp.ParserElement.disable_memoization()


def _oracle_run(pp, root, inp):
    with Recorder() as rec:
        try:
            root.parse_string(inp)
            out = ("ok",)
        except pp.ParseFatalException as e:
            out = ("fatal", type(e).__name__, e.loc)
        except pp.ParseException as e:
            out = ("fail", e.loc)
        except RecursionError:
            return 0, None
        except Exception as e:
            out = ("other", type(e).__name__)
    if not rec.events:
        return 0, None
    first = rec.events[0]
    if out[0] != "fatal":
        return len(rec.events), "a %s was raised at loc %d during the parse but parse_string ended with %r" % (first[0], first[1], out)
    if out[2] != first[1] and first[1] != 0:
        return len(rec.events), "the first fatal exception was raised at loc %d but parse_string reports loc %d" % (first[1], out[2])
    return len(rec.events), None


# ---------------------------------------------------------------------------------------------------------------------
# Or / Each / stop_on / fail_on: the elements that collect or ignore fatal exceptions (theorems in Proofs/FatalAlt.v)
# ---------------------------------------------------------------------------------------------------------------------
C_, D_, X_ = ("lit", "c"), ("lit", "d"), ("lit", "x")
W_AB = ("word", "ab")
S_AB = ("andstop", 1, gen.A, gen.B)                   # 'a' - 'b'
S_ACD = ("andstop", 2, gen.A, C_, D_)                 # 'a' + 'c' - 'd'
S_BC = ("andstop", 1, gen.B, C_)                      # 'b' - 'c'
S_ABC = ("andstop", 1, gen.A, gen.B, C_)              # 'a' - 'b' + 'c'
ALT_PLAIN = [gen.A, gen.B, C_, ("and", gen.A, C_), ("and", gen.A, gen.B), W_AB, ("lit", "ab"), ("and", gen.B, C_), ("word", "abc")]
ALT_STOP = [S_AB, S_ACD, S_BC, S_ABC, ("group", S_AB), ("andstop", 1, W_AB, C_)]
ALT_ACT = [("act", ("cond", 3, True, 7), W_AB), ("act", ("cond", 3, False, 8), W_AB), ("act", ("raise", "fatal", 2), gen.A),
           ("act", ("cond", 2, True, 9), ("word", "abc")), ("act", ("raise", "parse", 3), ("and", gen.A, C_))]
ALT_INPUTS = ["ac", "ab", "a", "acx", "acd", "ad", "ac ab", "b", "bc", "bx", "abc", " ac", "a c", "c ab", "ab c", "c ad", "ad c", "",
              "abx", "ab ac", "c", "bc ad", "ad bc", "aab", "ba c"]
ALT_FIXED = [                                            # the instances of Props/C07.v
    (("or", S_AB, gen.B), ["ac"]), (("or", S_AB, S_ACD), ["acx", "ac", "ad"]), (("or", S_AB, gen.A), ["ac"]),
    (("or", S_AB, ("and", gen.A, C_)), ["ac"]), (("or", ALT_ACT[0], gen.A), ["ab", "a", "aba"]), (("or", gen.A, ALT_ACT[0]), ["ab"]),
    (("or", S_AB, ALT_ACT[1]), ["ac", "ab"]), (("each", S_AB, C_), ["ad", "c ad", "ab c", "c ab"]),
    (("each", S_AB, ("and", gen.A, C_)), ["ac ab", "ad", "ab ac", "ac ad"]), (("each", ("opt", S_AB), C_), ["c ad", "ad c", "c"]),
    (("each", S_AB, ("and", gen.A, C_), ("opt", D_)), ["ac ab", "ac d ab", "d ac ab", "ac d ad"]),
    (("each", S_ACD, ("and", gen.A, C_)), ["ac acd", "ac acx", "acd ac"]), (("each", S_BC, gen.B, ("opt", gen.A)), ["b bc", "b a bc", "b bx"]),
    (("and", ("plusstop", W_AB, S_BC), ("opt", S_BC)), ["a b x", "a b c", "b x", "a bc"]),
    (("and", ("starstop", W_AB, S_BC), ("opt", S_BC)), ["b x", "b c", "a b x"]),
    (("plusstop", S_AB, C_), ["ab ax", "ab c", "ab ab"]),
    (("and", ("skiptof", X_, S_AB), ("opt", S_AB)), ["ac x", "ab x", "c ac x"]),
    (("skipto", S_AB), ["x ac", "x ab"]), (("skiptoi", S_AB), ["x ac", "x ab"]),
]


def rand_alt(rng):
    """('or' | 'each', alternatives...) at top level, or a repetition / SkipTo with a sentinel that has an error stop (the sentinel is
    used a second time in a streamlined position: streamline() does not reach not_ender / failOn, and an unflattened `x - y` stops nothing)"""
    r = rng.random()
    if r < 0.45 or r >= 0.85:
        kind = "or" if r < 0.45 else "mfor"
        n = rng.choice([2, 2, 3])
        pool = ALT_PLAIN + ALT_STOP * 2 + ALT_ACT * 2 + [("opt", S_AB)]
        alts = []
        while len(alts) < n:
            a = rng.choice(pool)
            if a not in alts:
                alts.append(a)
        if kind == "mfor":                       # an Or below the transparent containers
            return ("and", rng.choice([("opt", ("or",) + tuple(alts)), ("group", ("or",) + tuple(alts)), ("star", ("and", ("or",) + tuple(alts), D_))]),
                    rng.choice([("empty",), ("opt", C_)]))
        return ("or",) + tuple(alts)
    if r < 0.7:
        n = rng.choice([2, 2, 3])
        pool = [a for a in ALT_PLAIN + ALT_STOP * 2 + ALT_ACT[:3]]
        ops = []
        while len(ops) < n:
            a = rng.choice(pool)
            if a not in ops and ("opt", a) not in ops:
                ops.append(("opt", a) if rng.random() < 0.3 else a)
        return ("each",) + tuple(ops)
    sent = rng.choice([S_BC, S_AB, S_ACD])
    body = rng.choice([W_AB, gen.A, ("mf", gen.A, gen.B), S_AB, ("word", "abc")])
    if r < 0.8:
        return ("and", (rng.choice(["plusstop", "starstop"]), body, sent), ("opt", sent))
    return ("and", ("skiptof", rng.choice([X_, C_, D_]), sent), ("opt", sent))


def _o(fn):
    import pyparsing as pp
    try:
        return ("ok", fn())
    except pp.ParseFatalException as e:
        return ("fatal", e.loc)
    except pp.ParseException as e:
        return ("fail", e.loc)


def or_expect(root, inp):
    """what C07_or_no_match / C07_or_some_match_noact / C07_or_some_match say the Or does, from the outcomes of the real alternatives"""
    alts = list(root.exprs)
    p1 = [_o(lambda e=e: e.try_parse(inp, 0, raise_fatal=True)) for e in alts]
    m1 = [i for i, o in enumerate(p1) if o[0] == "ok"]
    f1 = [o[1] for o in p1 if o[0] == "fatal"]
    info = {"pass1": p1, "pass2": {}}
    if not m1:
        return (("fatal", max(f1)), "C07_or_no_match", info) if f1 else (("fail",), "no alternative matches, none fatal", info)

    def second(e):
        loc, toks = e._parse(inp, 0)
        return (loc, toks.as_list())
    p2 = {i: _o(lambda e=alts[i]: second(e)) for i in m1}
    info["pass2"] = p2
    i0 = sorted(m1, key=lambda i: -p1[i][1])[0]              # the longest match of the first pass, the first of the longest
    o0 = p2[i0]
    if o0[0] == "fatal":
        return ("fatal", o0[1]), "C07_or_some_match: a fatal exception of the second pass propagates", info
    if o0[0] == "ok" and o0[1][0] >= p1[i0][1]:
        return ("ok", o0[1][1]), "C07_or_some_match: the longest alternative matches again, fatal exceptions dropped", info
    if all(p2[i][0] == "fail" for i in m1):
        return (("fatal", max(f1)) if f1 else ("fail",)), "C07_or_some_match: every match is lost in the second pass", info
    return None, "unconstrained", info


def each_expect(root, inp, has_act):
    """C07_each_no_match / C07_each_some_match: the rounds of Each.parseImpl replayed from try_parse(raise_fatal=True) of the real operands"""
    import pyparsing as pp
    ops = list(root.exprs)
    is_opt = [isinstance(e, pp.Opt) for e in ops]
    tryx = [e.expr if o else e for e, o in zip(ops, is_opt)]
    rem_r = [i for i in range(len(ops)) if not is_opt[i]]
    rem_o = [i for i in range(len(ops)) if is_opt[i]]
    tl, rounds = 0, []
    while True:
        matched, fat = [], []
        for i in rem_r + rem_o:
            o = _o(lambda e=tryx[i]: e.try_parse(inp, tl, raise_fatal=True))
            if o[0] == "ok":
                tl = o[1]
                matched.append(i)
            elif o[0] == "fatal":
                fat.append(o[1])
        rounds.append((matched, fat))
        if not matched:
            break
        rem_r = [i for i in rem_r if i not in matched]
        rem_o = [i for i in rem_o if i not in matched]
    info = {"rounds": rounds, "dropped": any(m and f for m, f in rounds)}
    if fat:
        return ("fatal", max(fat)), "C07_each_no_match", info
    if rem_r:
        return ("fail",), "a required operand is missing, no fatal exception in the last round", info
    return (None if has_act else ("ok",)), "C07_each_some_match: every round with a fatal exception also had a match", info


def alt_oracle(g, inp):
    """(nontrivial, failure text or None, expectation label, 'fatal although an alternative matches' witness or None)"""
    import pyparsing as pp
    root = build.Builder({}).build_all(g)
    root.streamline()
    if len(root.exprs) != len(g) - 1:
        return False, None, "not flat", None
    real = _o(lambda: root.parse_string(inp).as_list())
    if g[0] == "or":
        exp, why, info = or_expect(root, inp)
        nontrivial = any(o[0] == "fatal" for o in info["pass1"]) or any(o[0] == "fatal" for o in info["pass2"].values())
        despite = None
        if real[0] == "fatal" and any(o[0] == "ok" for o in info["pass2"].values()):
            despite = "%r on %r raises a fatal exception at %d although an alternative matches: first pass %r, with actions %r" % (
                g, inp, real[1], info["pass1"], info["pass2"])
    else:
        exp, why, info = each_expect(root, inp, "'act'" in repr(g))
        nontrivial = any(f for _, f in info["rounds"])
        despite = None
    if exp is None:
        return nontrivial, None, why, despite
    ok = (real[0] == exp[0]) and (exp[0] == "fail" or len(exp) == 1 or real[1] == exp[1])
    bad = None if ok else "%r on %r: the implementation gives %r, expected %r (%s; %r)" % (g, inp, real, exp, why, info)
    return nontrivial, bad, why, despite


def _seq(pp, chars, stop_at):
    es = [pp.Literal(c) for c in chars]
    r = es[0]
    for j, x in enumerate(es[1:], 1):
        r = (r - x) if j == stop_at else (r + x)
    return r.streamline()            # streamline() never reaches not_ender / failOn / the ignorer: an unflattened `x - y` stops nothing


TWIN_KINDS = ["plus", "star", "skipto_failon", "skipto_failon_include"]    # not SkipTo(ignore=): a fatal exception there also cancels what the same ignorer call skipped before (notes/C07.md)
TWIN_BODIES = ["word:ab", "word:abc", "lit:a", "seq:ab"]
TWIN_SENTINELS = [("bc", 1), ("ab", 1), ("acd", 2), ("abc", 1), ("bcd", 1)]


def build_twin(spec, fatal):
    import pyparsing as pp
    kind, body, (chars, stop_at) = spec
    sent = _seq(pp, chars, stop_at if fatal else 0)
    if body.startswith("word:"):
        b = pp.Word(body[5:])
    elif body.startswith("lit:"):
        b = pp.Literal(body[4:])
    else:
        b = pp.Literal(body[4]) - pp.Literal(body[5])        # an error stop in the body / target: this one must propagate
    if kind == "plus": return pp.OneOrMore(b, stop_on=sent)
    if kind == "star": return pp.ZeroOrMore(b, stop_on=sent) + pp.Opt(pp.Literal("x"))
    if kind == "skipto_failon": return pp.SkipTo(b, fail_on=sent)
    if kind == "skipto_failon_include": return pp.SkipTo(b, fail_on=sent, include=True)
    return pp.SkipTo(b, ignore=sent)


def twin_oracle(spec, inp):
    """a fatal exception of a stop_on / fail_on / ignore expression = that expression does not match: same outcome as the twin"""
    def out(e, rec=None):
        import pyparsing as pp
        try:
            return ("ok", e.parse_string(inp).as_list())
        except pp.ParseBaseException as x:
            return (type(x).__name__, x.loc)          # the message of NotAny names the sentinel: str() differs between the twins
    with Recorder() as rec:
        a = out(build_twin(spec, True))
        n_all = len(rec.events)
    with Recorder() as rec2:
        b = out(build_twin(spec, False))
        n_body = len(rec2.events)                              # fatal exceptions of the body / target (they propagate in both)
    bad = None if a == b else "%r on %r: %r with the error stop in the sentinel, %r with '+' in its place" % (spec, inp, a, b)
    return n_all > n_body, bad


def inert_error_stop(ctx):
    """F-07c: an error stop only works once streamline() has flattened `a - b` (built as And([And([a, _ErrorStop]), b])), and
    streamline() never reaches the expressions held in SkipTo(ignore=...), stop_on= or fail_on=.  For stop_on / fail_on this cannot
    be observed (they treat a fatal exception as a non-match anyway); an ignore expression of SkipTo can show it."""
    import pyparsing as pp

    def run(e, s):
        try:
            return ("ok", e.parse_string(s).as_list())
        except pp.ParseBaseException as x:
            return (type(x).__name__, x.loc)
    a = run(pp.SkipTo("x", ignore=pp.Literal("#") - "!"), "a # b x")
    b = run(pp.OneOrMore(pp.Word("ab")).ignore(pp.Literal("#") - "!"), "a # b")
    ctx.case("inert-error-stop:skipto-ignore", True, True)
    if b[0] == "ParseSyntaxException" and a[0] != "ParseSyntaxException":
        ctx.violation("error-stop-inert:skipto-ignore-expression-not-streamlined",
                      "the ignorable `Literal('#') - '!'` fails after its error stop: as OneOrMore(...).ignore(...) on 'a # b' it raises %r, as SkipTo('x', ignore=...) on "
                      "'a # b x' it gives %r" % (b, a), {"kind": "inert"})


def sub_operator_family(ctx):
    """`a - b` inserts an error stop whatever class `a` is (several classes override the sequence operators): once `a` has
    matched, a failure of `b` is a ParseSyntaxException that no enclosing alternative may swallow.  Implementation only."""
    import pyparsing as pp
    from pyparsing import common as ppc
    W, L = pp.Word, pp.Literal

    def fwd():
        f = pp.Forward()
        f <<= W("ab")
        return f
    lefts = [
        ("Literal", lambda: L("a"), "a"), ("CaselessLiteral", lambda: pp.CaselessLiteral("a"), "A"), ("Keyword", lambda: pp.Keyword("a"), "a"),
        ("CaselessKeyword", lambda: pp.CaselessKeyword("a"), "A"), ("Word", lambda: W("ab"), "ab"), ("Char", lambda: pp.Char("ab"), "a"),
        ("Regex", lambda: pp.Regex("a+"), "aa"), ("QuotedString", lambda: pp.QuotedString("'"), "'a'"), ("CharsNotIn", lambda: pp.CharsNotIn("?! "), "ab"),
        ("White", lambda: pp.White(" "), " "), ("Empty", lambda: pp.Empty(), ""), ("StringStart", lambda: pp.StringStart(), ""),
        ("LineStart", lambda: pp.LineStart(), ""), ("Suppress", lambda: pp.Suppress("a"), "a"), ("Suppress.word", lambda: pp.Suppress(W("ab")), "ab"),
        ("Suppress.method", lambda: L("a").suppress(), "a"), ("Group", lambda: pp.Group(W("ab")), "ab"), ("Opt", lambda: pp.Opt("a"), "a"),
        ("Opt.absent", lambda: pp.Opt("z"), ""), ("ZeroOrMore", lambda: pp.ZeroOrMore("a"), "a a"), ("OneOrMore", lambda: pp.OneOrMore("a"), "a a"),
        ("And", lambda: L("a") + "b", "a b"), ("And.stop", lambda: L("a") - "b", "a b"), ("MatchFirst", lambda: L("a") | "b", "b"),
        ("Or", lambda: L("a") ^ "ab", "ab"), ("Each", lambda: L("a") & "b", "b a"), ("Forward", fwd, "ab"), ("Combine", lambda: pp.Combine(W("a") + W("b")), "ab"),
        ("Located", lambda: pp.Located(W("ab")), "ab"), ("Dict", lambda: pp.Dict(pp.Group(W("a") + W("b"))), "a b"), ("FollowedBy", lambda: pp.FollowedBy("?"), ""),
        ("NotAny", lambda: ~L("z"), ""), ("SkipTo", lambda: pp.SkipTo("?"), "a "), ("DelimitedList", lambda: pp.DelimitedList(W("ab")), "a, b"),
        ("one_of", lambda: pp.one_of("a ab"), "ab"), ("common.integer", lambda: ppc.integer, "12"), ("original_text_for", lambda: pp.original_text_for(W("ab")), "ab"),
        ("ungroup", lambda: pp.ungroup(pp.Group(W("ab"))), "ab"), ("Tag", lambda: pp.Tag("t"), ""), ("AtStringStart", lambda: pp.AtStringStart(W("ab")), "ab"),
        ("named", lambda: W("ab")("n"), "ab"), ("copy", lambda: pp.Suppress("a").copy(), "a"), ("repeat", lambda: L("a") * 2, "a a"), ("slice", lambda: L("a")[1, 2], "a"),
    ]
    rights = [("str", lambda: "!"), ("Literal", lambda: L("!")), ("Suppress", lambda: pp.Suppress("!")), ("And", lambda: L("!") + "!")]
    fallback = lambda: pp.Regex(r"(?s).*")
    for lname, mk, prefix in lefts:
        for rname, mkr in rights:
            for form in ("sub", "sub-then-add", "in-group", "rsub", "forward-late", "forward-redefined", "forward-printed"):
                try:
                    if form == "forward-late":
                        # the Forward was streamlined while still empty; the body arrives afterwards
                        seq = pp.Forward()
                        seq.streamline()
                        seq <<= mk() - mkr()
                    elif form == "forward-redefined":
                        seq = pp.Forward()
                        seq <<= pp.Literal("\x01")
                        try:
                            seq.parse_string("\x01")
                        except pp.ParseBaseException:
                            pass
                        seq <<= mk() - mkr()
                    elif form == "forward-printed":
                        seq = pp.Forward()
                        str(pp.DelimitedList(seq)), repr(seq | "x")
                        seq <<= mk() - mkr()
                    elif form == "sub":
                        seq = mk() - mkr()
                    elif form == "sub-then-add":
                        seq = mk() - mkr() + "."
                    elif form == "in-group":
                        seq = pp.Group(mk() - mkr())
                    else:
                        if rname != "str":
                            continue
                        seq, prefix_ = ("(" - mk()), None
                    g = seq | fallback()
                    inp = (prefix + " ?") if form != "rsub" else "( \x00"
                    if form == "rsub" and lname in ("Empty", "StringStart", "LineStart", "Opt", "Opt.absent", "ZeroOrMore", "FollowedBy", "NotAny", "SkipTo",
                                                    "Tag", "CharsNotIn", "White"):
                        continue            # these match (or skip to) anything after "(": no failure to observe
                    try:
                        g.parse_string(inp)
                        out = ("ok",)
                    except pp.ParseSyntaxException as e:
                        out = ("syntax", e.loc)
                    except pp.ParseBaseException as e:
                        out = (type(e).__name__, e.loc)
                except Exception as e:
                    out = ("internal", type(e).__name__, str(e)[:60])
                ctx.stat("sub_operator_cases")
                ctx.case("sub-operator|%s|%s|%s" % (lname, rname, form), True, True)
                if out[0] != "syntax":
                    ctx.violation("sub-operator:%s:%s:%s" % (lname, rname, form),
                                  "(%s - %s) [%s] | <anything> on %r: the left operand matches, the right one fails, yet the outcome is %r instead of a "
                                  "ParseSyntaxException (the `-` did not leave an error stop)" % (lname, rname, form, inp, out),
                                  {"kind": "sub-operator", "left": lname, "right": rname, "form": form})


def correspond(ctx):
    sub_operator_family(ctx)
    corr.ensure_driver()
    rng = ctx.rng
    n = 600 if not ctx.thorough else 5000
    groups, cases = [], []
    for i in range(n):
        if i % 3 == 0:
            g = gen.rand_grammar(rng, rng.randint(2, 5), dict(actions=True, stops=True, fatal=True, names=(i % 2 == 0)))
            env = rng.choice([gen.ENV0, gen.ENV_EXPR])
            transparent = False
        else:
            g = rand_transparent(rng, rng.randint(2, 5))
            env = ENV_T
            transparent = True
        inputs = set()
        for _ in range(4):
            s = gen.sample_input(rng, g, env)
            inputs.add(s)
            inputs.add(gen.mutate_input(rng, s))
            inputs.add(gen.mutate_input(rng, gen.mutate_input(rng, s)))
        inputs = sorted(inputs)[:8]
        groups.append((g, env, inputs, [("none",)], [("parse", False), ("parse", True)] if i % 4 == 0 else [("parse", False)]))
        if transparent:
            cases.extend((g, env, s) for s in inputs)
    # fixed witnesses
    groups.append((("mf", ("andstop", 1, gen.A, gen.B), gen.A), {}, ["ac", "ab", "a"], [("none",)], [("parse", False)]))
    cases.append((("mf", ("andstop", 1, gen.A, gen.B), gen.A), {}, "ac"))
    cases.append((("star", ("andstop", 1, gen.A, gen.B)), {}, "ab ab ac"))
    cases.append((("opt", ("group", ("andstop", 1, gen.A, gen.B))), {}, "ac"))
    # Or / Each / stop_on / fail_on (Proofs/FatalAlt.v): the instances of Props/C07.v, then random members of the family
    alt_cases = []
    for g, inputs in ALT_FIXED:
        groups.append((g, {}, inputs, [("none",)], [("parse", False)]))
        if g[0] in ("or", "each"):
            alt_cases.extend((g, s) for s in inputs)
    for s in ("ab ax", "ab c", "ab ab", "ax"):
        cases.append((("plusstop", S_AB, C_), {}, s))                 # a fatal exception of the BODY of a repetition with stop_on propagates
        cases.append((("skipto", S_AB), {}, "x " + s))                # ... and of the target of SkipTo
    for i in range(120 if not ctx.thorough else 1200):
        g = rand_alt(rng)
        inputs = sorted({rng.choice(ALT_INPUTS) for _ in range(4)} | {gen.mutate_input(rng, rng.choice(ALT_INPUTS), "abcd x") for _ in range(2)})
        groups.append((g, {}, inputs, [("none",), ("packrat", 128)] if i % 5 == 0 else [("none",)], [("parse", False)]))
        if g[0] in ("or", "each"):
            alt_cases.extend((g, s) for s in inputs)
    # the same containers around a left-recursive rule with an error stop, bounded-recursion mode
    lr_groups, lr_cases = [], []
    for i in range(40 if not ctx.thorough else 400):
        g = ("fwd", 0) if i == 0 else rand_transparent(rng, rng.randint(2, 4))
        if "('fwd', 0)" not in repr(g):
            continue
        inputs = sorted({rng.choice(LR_INPUTS) for _ in range(3)} | {gen.mutate_input(rng, rng.choice(LR_INPUTS), "ab,( ") for _ in range(2)})
        lr_groups.append((g, ENV_LR, inputs, [("lr", None), ("lr", 1)], [("parse", False)]))
        lr_cases.extend((g, ENV_LR, s2) for s2 in inputs)
    stats = {}
    recs = corr.run_groups(groups, stats=stats)
    recs += corr.run_groups(lr_groups, stats=stats, skip_spins=False)
    ctx.coverage_extra["class_histogram"] = stats.get("classes", {})
    pcommon.outcome_hist(ctx, recs)
    pcommon.model_agreement(ctx, recs, "fatal-outcomes")
    for r in recs:
        fatal = r["real"][0] == "err" and r["real"][1] in ("ParseFatalException", "ParseSyntaxException")
        ctx.case(pcommon.key_of(r), nontrivial=fatal, agreed=r.get("agree", True))
    # implementation-only oracle
    nfatal = 0
    for (g, env, inp) in cases:
        try:
            k, bad = oracle_case(g, env, inp)
        except build.Unbuildable:
            continue
        ctx.case("oracle:%r|%r" % (g, inp), nontrivial=k > 0, agreed=True)
        nfatal += k > 0
        if bad:
            ctx.violation("swallowed:%r|%r" % (g, inp), "%r on %r: %s" % (g, inp, bad),
                          {"kind": "oracle", "grammar": g, "env": env, "input": inp})
    for (g, env, inp) in cases[::7]:
        try:
            k, bad = oracle_case(g, env, inp, ("packrat", 128))
        except build.Unbuildable:
            continue
        ctx.case("oracle-packrat:%r|%r" % (g, inp), nontrivial=k > 0, agreed=True)
        if bad:
            ctx.violation("swallowed-packrat:%r|%r" % (g, inp), "%r on %r with packrat: %s" % (g, inp, bad),
                          {"kind": "oracle", "grammar": g, "env": env, "input": inp, "mode": ["packrat", 128]})
    ndbg = 0
    for (g, env, inp) in cases[::3]:
        try:
            a, b, c = (outcome_with_debug(g, env, inp, d) for d in (False, "all", "outer"))
        except build.Unbuildable:
            continue
        if any(x[0] in ("timeout", "div") for x in (a, b, c)):
            continue
        ndbg += 1
        ctx.case("oracle-debug:%r|%r" % (g, inp), nontrivial=a[0] in ("ParseSyntaxException", "ParseFatalException"), agreed=True)
        FAT = ("ParseSyntaxException", "ParseFatalException")
        fat = lambda o: o if o[0] in FAT else None          # C07 is about fatal exceptions: where an ordinary failure is reported is not its business
        if fat(a) != fat(c):
            ctx.violation("debug-changes-outcome:%r|%r" % (g, inp),
                          "%r on %r: %r without debug actions, %r with quiet debug actions on every node that is not a member of a sequence" % (g, inp, a, c),
                          {"kind": "debug", "grammar": g, "env": env, "input": inp, "which": "outer"})
        elif fat(a) != fat(b):
            # F-07b: streamline() does not flatten a nested sequence that has debug set, so the `-` of `a - b + c` (built as
            # And([And([And([a, _ErrorStop]), b]), c])) stays last in its own And and stops nothing
            lost = a[0] == "ParseSyntaxException" and b[0] != "ParseSyntaxException"
            ctx.violation("debug-changes-outcome:error-stop-lost-in-unflattened-sequence" if lost else "debug-changes-outcome-all:%r|%r" % (g, inp),
                          "%r on %r: %r without debug actions, %r with quiet debug actions on every node" % (g, inp, a, b),
                          {"kind": "debug", "grammar": g, "env": env, "input": inp, "which": "all"})
    ctx.stat("oracle_debug_cases", ndbg)
    nlr = 0
    for (g, env, inp) in lr_cases:
        for mode in (("lr", None), ("lr", 1)):
            try:
                k, bad = oracle_case(g, env, inp, mode)
            except build.Unbuildable:
                continue
            ctx.case("oracle-lr:%r|%r|%r" % (g, inp, mode), nontrivial=k > 0, agreed=True)
            nlr += k > 0
            if bad:
                ctx.violation("swallowed-lr:%r|%r" % (g, inp), "%r (env %r) on %r with enable_left_recursion(%r): %s" % (g, env, inp, mode[1], bad),
                              {"kind": "oracle", "grammar": g, "env": env, "input": inp, "mode": list(mode)})
                break
    # Or / Each: the real element against what the theorems predict from the outcomes of its real alternatives
    labels, despite_first = {}, None
    for (g, inp) in alt_cases:
        try:
            nontrivial, bad, why, despite = alt_oracle(g, inp)
        except build.Unbuildable:
            continue
        ctx.case("oracle-alt:%r|%r" % (g, inp), nontrivial=nontrivial, agreed=bad is None)
        if nontrivial:
            labels[why] = labels.get(why, 0) + 1
        if despite:
            ctx.stat("oracle_alt_fatal_although_an_alternative_matches")
            if despite_first is None or len(despite) < len(despite_first):
                despite_first = despite
        if bad:
            ctx.violation("or-each:%r|%r" % (g, inp), bad, {"kind": "alt", "grammar": g, "input": inp})
    ctx.stat("oracle_alt_cases", len(alt_cases))
    ctx.coverage_extra["oracle_alt_nontrivial_by_theorem"] = labels
    if despite_first:
        ctx.sample({"observation": "Or raises a fatal exception of its second pass although another alternative matches", "first": despite_first})
    # stop_on / fail_on / ignore: a sentinel with an error stop against its twin without
    ntw = 0
    for kind in TWIN_KINDS:
        for body in TWIN_BODIES:
            for sent in TWIN_SENTINELS:
                spec = (kind, body, sent)
                inputs = {rng.choice(ALT_INPUTS) for _ in range(2)} | {gen.mutate_input(rng, rng.choice(ALT_INPUTS), "abcd x") for _ in range(2 if not ctx.thorough else 12)}
                inputs |= {"a b x", "ab ac x"} if kind in ("plus", "star") else {"ac x", "b x"}
                for inp in sorted(inputs):
                    nontrivial, bad = twin_oracle(spec, inp)
                    ctx.case("oracle-twin:%r|%r" % (spec, inp), nontrivial=nontrivial, agreed=bad is None)
                    ntw += nontrivial
                    if bad:
                        ctx.violation("lookahead-twin:%r|%r" % (spec, inp), bad, {"kind": "twin", "spec": spec, "input": inp})
    ctx.stat("oracle_twin_cases_with_fatal_sentinel", ntw)
    ctx.stat("oracle_lr_cases_with_fatal", nlr)
    inert_error_stop(ctx)
    ctx.stat("oracle_cases", len(cases))
    ctx.stat("oracle_cases_with_fatal", nfatal)
    ctx.sample({"grammar": ("mf", ("andstop", 1, gen.A, gen.B), gen.A), "input": "ac", "impl": oracle_case(("mf", ("andstop", 1, gen.A, gen.B), gen.A), {}, "ac")})


def search(ctx, reasons):
    import random, time
    rng = random.Random(ctx.seed + 4242)
    t0 = time.time()
    # the Or / Each / lookahead family first (small, exhaustive over the fixed input list)
    for _ in range(400 if not ctx.thorough else 3000):
        if time.time() - t0 > (30 if not ctx.thorough else 200):
            break
        g = rand_alt(rng)
        if g[0] not in ("or", "each"):
            spec = (rng.choice(TWIN_KINDS), rng.choice(TWIN_BODIES), rng.choice(TWIN_SENTINELS))
            inp = gen.mutate_input(rng, rng.choice(ALT_INPUTS + ["a b x", "ac x"]), "abcd x")
            ctx.stat("search_cases")
            _, bad = twin_oracle(spec, inp)
            if bad:
                ctx.violation("lookahead-twin:%r|%r" % (spec, inp), bad, {"kind": "twin", "spec": spec, "input": inp})
                return
            continue
        for inp in ALT_INPUTS:
            try:
                _, bad, _, _ = alt_oracle(g, inp)
            except Exception:
                continue
            ctx.stat("search_cases")
            if bad:
                ctx.violation("or-each:%r|%r" % (g, inp), bad, {"kind": "alt", "grammar": g, "input": inp})
                return
    for _ in range(1500 if not ctx.thorough else 12000):
        if time.time() - t0 > (90 if not ctx.thorough else 600):
            break
        g = rand_transparent(rng, rng.randint(2, 6))
        s = gen.sample_input(rng, g, ENV_T)
        for inp in (s, gen.mutate_input(rng, s)):
            try:
                k, bad = oracle_case(g, ENV_T, inp)
            except Exception:
                continue
            ctx.stat("search_cases")
            if bad:
                ctx.violation("swallowed:%r|%r" % (g, inp), "%r on %r: %s" % (g, inp, bad),
                              {"kind": "oracle", "grammar": g, "env": ENV_T, "input": inp})
                return


def _tuplify(x):
    return tuple(_tuplify(y) for y in x) if isinstance(x, list) else x


def replay(ctx, obj):
    r = obj["replay"]
    if r.get("kind") == "inert":
        c2 = vlib.Ctx(PROP, "quick", 0)
        c2.known = {}
        inert_error_stop(c2)
        for v in c2.violations:
            print(v["what"])
        return not c2.violations
    if r.get("kind") == "sub-operator":
        print("re-run `./check C07`: sub_operator_family(ctx) regenerates %r" % (r,))
        return False
    if r.get("kind") == "debug":
        g, env = _tuplify(r["grammar"]), {int(k): _tuplify(v) for k, v in (r.get("env") or {}).items()}
        a, b = outcome_with_debug(g, env, r["input"], False), outcome_with_debug(g, env, r["input"], r.get("which") or "all")
        print("without debug:", a, " with debug:", b)
        return a == b
    if r.get("kind") == "alt":
        nontrivial, bad, why, despite = alt_oracle(_tuplify(r["grammar"]), r["input"])
        print(bad or ("as predicted (%s)" % why))
        return bad is None
    if r.get("kind") == "twin":
        nontrivial, bad = twin_oracle(_tuplify(r["spec"]), r["input"])
        print(bad or "same outcome with and without the error stop in the sentinel")
        return bad is None
    if r.get("kind") == "oracle":
        g, env = _tuplify(r["grammar"]), {int(k): _tuplify(v) for k, v in (r.get("env") or {}).items()}
        k, bad = oracle_case(g, env, r["input"], _tuplify(r.get("mode") or ["none"]))
        print("fatal exceptions constructed: %d; %s" % (k, bad or "propagated correctly"))
        return bad is None
    print("replay names a broken proof/correspondence obligation: %r" % (r,))
    return False
