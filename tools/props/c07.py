"""C07 — error stops and fatal exceptions are never backtracked over."""
from tools import vlib
from tools.harness import gen, corr, pcommon, build, observe

PROP = "C07"
GEN = ["gen_exc", "gen_memo"]
RULE = ("seeded random grammars with '-' (error stop) at random positions of sequences nested in every container, fatal conditions "
        "and fatal-raising actions; inputs sampled from the grammar and mutated; (i) extracted model vs implementation (exception "
        "class, location, message, tokens); (ii) implementation-only oracle on grammars built from transparent containers only: every "
        "construction of a ParseFatalException/ParseSyntaxException during parse_string is recorded from outside, and if one was "
        "constructed the call must raise a fatal exception at the location of the first one; non-trivial = a fatal exception was "
        "constructed during the parse; the oracle and the model comparison are repeated with packrat on and, for a left-recursive rule "
        "E <<= (E + '+' - N) | N placed inside the same containers, with enable_left_recursion(None / 1)")
TRUSTED = pcommon.TRUSTED_PARSE + [
    "the oracle's recorder wraps ParseFatalException.__init__ from the harness (no change to /repo)"]

TRANSPARENT_UNARY = ["opt", "star", "plus", "group", "suppress", "fb", "combine", "located"]


def rand_transparent(rng, depth):
    """grammar over And (with '-'), MatchFirst, Opt, ZeroOrMore, OneOrMore, Group, Suppress, FollowedBy, Combine, Located, Forward"""
    def leaf():
        return rng.choice([gen.A, gen.B, gen.AB, ("word", "ab"), ("lit", ","), ("kw", "a"), ("fwd", 0), ("empty",)])

    def go(d):
        if d <= 1 or rng.random() < 0.15:
            g = leaf()
        else:
            r = rng.random()
            if r < 0.45:
                n = rng.choice([2, 3, 3])
                parts = tuple(go(d - 1) for _ in range(n))
                g = ("andstop", rng.randint(1, n - 1)) + parts if rng.random() < 0.6 else ("and",) + parts
            elif r < 0.65:
                g = ("mf",) + tuple(go(d - 1) for _ in range(rng.choice([2, 3])))
            else:
                u = rng.choice(TRANSPARENT_UNARY)
                body = go(d - 1)
                if u in ("star", "plus") and gen.nullable(body, ENV_T):
                    body = ("and", rng.choice([gen.A, gen.B, ("word", "ab")]), body)     # the property excludes nullable repetition bodies
                g = (u, body)
        if rng.random() < 0.12:
            g = ("act", rng.choice([("raise", "fatal", 2), ("cond", 2, True, 3), ("cond", 2, False, 4), ("raise", "parse", 1)]), g)
        return g
    return go(depth)


ENV_T0 = None
ENV_T = {0: ("mf", ("andstop", 1, ("lit", "("), ("fwd", 0), ("lit", ")")), ("word", "ab"))}
ENV_LR = {0: ("mf", ("andstop", 2, ("fwd", 0), ("lit", ","), ("word", "ab")), ("word", "ab"))}     # E <<= (E + ',' - W) | W
LR_INPUTS = ["a,b", "a,b,a", "a,b,,", "a,,b", "ab , ba , ,", "a,b,a,(", "a b,", "a,"]


class Recorder:
    """records every construction of a fatal exception while active"""
    def __init__(self):
        import pyparsing as pp
        self.pp = pp
        self.events = []

    def __enter__(self):
        pp = self.pp
        self.orig = pp.ParseBaseException.__init__
        rec = self

        def init(exc, pstr, loc=0, msg=None, elem=None):
            rec.orig(exc, pstr, loc, msg, elem)
            if isinstance(exc, pp.ParseFatalException):
                rec.events.append((type(exc).__name__, exc.loc))
        pp.ParseBaseException.__init__ = init
        return self

    def __exit__(self, *a):
        self.pp.ParseBaseException.__init__ = self.orig


class _Timeout(BaseException):
    pass


def outcome_with_debug(g, env, inp, debug):
    """(class, loc) of parse_string on a fresh build, optionally with quiet debug actions set on every node (individually, before
    the first parse): diagnostics must not change what is an error stop"""
    import pyparsing as pp

    def run():
        root = build.Builder(env).build_all(g)
        if debug:
            quiet = lambda *a: None
            nodes = list(root.visit_all())
            inner = set()
            if debug == "outer":          # every node except the direct members of a sequence (those are what streamline() flattens)
                for n in nodes:
                    if isinstance(n, pp.And):
                        inner.update(id(c) for c in n.exprs)
            for node in nodes:
                if id(node) not in inner:
                    node.set_debug_actions(quiet, quiet, quiet)
        try:
            root.parse_string(inp)
            return ("ok",)
        except pp.ParseBaseException as e:
            return (type(e).__name__, e.loc)
        except RecursionError:
            return ("div",)
        except Exception as e:
            return ("other", type(e).__name__)
    from tools.props.c04 import guarded
    return guarded(run, 0.75)


def oracle_case(g, env, inp, mode=("none",)):
    """returns (n_fatal_constructed, failure-or-None); a parse that spins (nullable repetition body) is skipped"""
    import signal

    def on_alarm(sig, frm):
        raise _Timeout()
    old = signal.signal(signal.SIGALRM, on_alarm)
    signal.setitimer(signal.ITIMER_REAL, 0.75)
    try:
        return _oracle_case(g, env, inp, mode)
    except _Timeout:
        return 0, None
    finally:
        signal.setitimer(signal.ITIMER_REAL, 0)
        signal.signal(signal.SIGALRM, old)


def _oracle_case(g, env, inp, mode=("none",)):
    import pyparsing as pp
    b = build.Builder(env)
    root = b.build_all(g)
    observe.set_mode(mode)
    try:
        return _oracle_run(pp, root, inp)
    finally:
        pp.ParserElement.disable_memoization()


def _oracle_run(pp, root, inp):
    with Recorder() as rec:
        try:
            root.parse_string(inp)
            out = ("ok",)
        except pp.ParseFatalException as e:
            out = ("fatal", type(e).__name__, e.loc)
        except pp.ParseException as e:
            out = ("fail", e.loc)
        except RecursionError:
            return 0, None
        except Exception as e:
            out = ("other", type(e).__name__)
    if not rec.events:
        return 0, None
    first = rec.events[0]
    if out[0] != "fatal":
        return len(rec.events), "a %s was raised at loc %d during the parse but parse_string ended with %r" % (first[0], first[1], out)
    if out[2] != first[1] and first[1] != 0:
        return len(rec.events), "the first fatal exception was raised at loc %d but parse_string reports loc %d" % (first[1], out[2])
    return len(rec.events), None


def correspond(ctx):
    corr.ensure_driver()
    rng = ctx.rng
    n = 600 if not ctx.thorough else 5000
    groups, cases = [], []
    for i in range(n):
        if i % 3 == 0:
            g = gen.rand_grammar(rng, rng.randint(2, 5), dict(actions=True, stops=True, fatal=True, names=(i % 2 == 0)))
            env = rng.choice([gen.ENV0, gen.ENV_EXPR])
            transparent = False
        else:
            g = rand_transparent(rng, rng.randint(2, 5))
            env = ENV_T
            transparent = True
        inputs = set()
        for _ in range(4):
            s = gen.sample_input(rng, g, env)
            inputs.add(s)
            inputs.add(gen.mutate_input(rng, s))
            inputs.add(gen.mutate_input(rng, gen.mutate_input(rng, s)))
        inputs = sorted(inputs)[:8]
        groups.append((g, env, inputs, [("none",)], [("parse", False), ("parse", True)] if i % 4 == 0 else [("parse", False)]))
        if transparent:
            cases.extend((g, env, s) for s in inputs)
    # fixed witnesses
    groups.append((("mf", ("andstop", 1, gen.A, gen.B), gen.A), {}, ["ac", "ab", "a"], [("none",)], [("parse", False)]))
    cases.append((("mf", ("andstop", 1, gen.A, gen.B), gen.A), {}, "ac"))
    cases.append((("star", ("andstop", 1, gen.A, gen.B)), {}, "ab ab ac"))
    cases.append((("opt", ("group", ("andstop", 1, gen.A, gen.B))), {}, "ac"))
    # the same containers around a left-recursive rule with an error stop, bounded-recursion mode
    lr_groups, lr_cases = [], []
    for i in range(40 if not ctx.thorough else 400):
        g = ("fwd", 0) if i == 0 else rand_transparent(rng, rng.randint(2, 4))
        if "('fwd', 0)" not in repr(g):
            continue
        inputs = sorted({rng.choice(LR_INPUTS) for _ in range(3)} | {gen.mutate_input(rng, rng.choice(LR_INPUTS), "ab,( ") for _ in range(2)})
        lr_groups.append((g, ENV_LR, inputs, [("lr", None), ("lr", 1)], [("parse", False)]))
        lr_cases.extend((g, ENV_LR, s2) for s2 in inputs)
    stats = {}
    recs = corr.run_groups(groups, stats=stats)
    recs += corr.run_groups(lr_groups, stats=stats, skip_spins=False)
    ctx.coverage_extra["class_histogram"] = stats.get("classes", {})
    pcommon.outcome_hist(ctx, recs)
    pcommon.model_agreement(ctx, recs, "fatal-outcomes")
    for r in recs:
        fatal = r["real"][0] == "err" and r["real"][1] in ("ParseFatalException", "ParseSyntaxException")
        ctx.case(pcommon.key_of(r), nontrivial=fatal, agreed=r.get("agree", True))
    # implementation-only oracle
    nfatal = 0
    for (g, env, inp) in cases:
        try:
            k, bad = oracle_case(g, env, inp)
        except build.Unbuildable:
            continue
        ctx.case("oracle:%r|%r" % (g, inp), nontrivial=k > 0, agreed=True)
        nfatal += k > 0
        if bad:
            ctx.violation("swallowed:%r|%r" % (g, inp), "%r on %r: %s" % (g, inp, bad),
                          {"kind": "oracle", "grammar": g, "env": env, "input": inp})
    for (g, env, inp) in cases[::7]:
        try:
            k, bad = oracle_case(g, env, inp, ("packrat", 128))
        except build.Unbuildable:
            continue
        ctx.case("oracle-packrat:%r|%r" % (g, inp), nontrivial=k > 0, agreed=True)
        if bad:
            ctx.violation("swallowed-packrat:%r|%r" % (g, inp), "%r on %r with packrat: %s" % (g, inp, bad),
                          {"kind": "oracle", "grammar": g, "env": env, "input": inp, "mode": ["packrat", 128]})
    ndbg = 0
    for (g, env, inp) in cases[::3]:
        try:
            a, b, c = (outcome_with_debug(g, env, inp, d) for d in (False, "all", "outer"))
        except build.Unbuildable:
            continue
        if any(x[0] in ("timeout", "div") for x in (a, b, c)):
            continue
        ndbg += 1
        ctx.case("oracle-debug:%r|%r" % (g, inp), nontrivial=a[0] in ("ParseSyntaxException", "ParseFatalException"), agreed=True)
        FAT = ("ParseSyntaxException", "ParseFatalException")
        fat = lambda o: o if o[0] in FAT else None          # C07 is about fatal exceptions: where an ordinary failure is reported is not its business
        if fat(a) != fat(c):
            ctx.violation("debug-changes-outcome:%r|%r" % (g, inp),
                          "%r on %r: %r without debug actions, %r with quiet debug actions on every node that is not a member of a sequence" % (g, inp, a, c),
                          {"kind": "debug", "grammar": g, "env": env, "input": inp, "which": "outer"})
        elif fat(a) != fat(b):
            # F-07b: streamline() does not flatten a nested sequence that has debug set, so the `-` of `a - b + c` (built as
            # And([And([And([a, _ErrorStop]), b]), c])) stays last in its own And and stops nothing
            lost = a[0] == "ParseSyntaxException" and b[0] != "ParseSyntaxException"
            ctx.violation("debug-changes-outcome:error-stop-lost-in-unflattened-sequence" if lost else "debug-changes-outcome-all:%r|%r" % (g, inp),
                          "%r on %r: %r without debug actions, %r with quiet debug actions on every node" % (g, inp, a, b),
                          {"kind": "debug", "grammar": g, "env": env, "input": inp, "which": "all"})
    ctx.stat("oracle_debug_cases", ndbg)
    nlr = 0
    for (g, env, inp) in lr_cases:
        for mode in (("lr", None), ("lr", 1)):
            try:
                k, bad = oracle_case(g, env, inp, mode)
            except build.Unbuildable:
                continue
            ctx.case("oracle-lr:%r|%r|%r" % (g, inp, mode), nontrivial=k > 0, agreed=True)
            nlr += k > 0
            if bad:
                ctx.violation("swallowed-lr:%r|%r" % (g, inp), "%r (env %r) on %r with enable_left_recursion(%r): %s" % (g, env, inp, mode[1], bad),
                              {"kind": "oracle", "grammar": g, "env": env, "input": inp, "mode": list(mode)})
                break
    ctx.stat("oracle_lr_cases_with_fatal", nlr)
    ctx.stat("oracle_cases", len(cases))
    ctx.stat("oracle_cases_with_fatal", nfatal)
    ctx.sample({"grammar": ("mf", ("andstop", 1, gen.A, gen.B), gen.A), "input": "ac", "impl": oracle_case(("mf", ("andstop", 1, gen.A, gen.B), gen.A), {}, "ac")})


def search(ctx, reasons):
    import random, time
    rng = random.Random(ctx.seed + 4242)
    t0 = time.time()
    for _ in range(1500 if not ctx.thorough else 12000):
        if time.time() - t0 > (90 if not ctx.thorough else 600):
            break
        g = rand_transparent(rng, rng.randint(2, 6))
        s = gen.sample_input(rng, g, ENV_T)
        for inp in (s, gen.mutate_input(rng, s)):
            try:
                k, bad = oracle_case(g, ENV_T, inp)
            except Exception:
                continue
            ctx.stat("search_cases")
            if bad:
                ctx.violation("swallowed:%r|%r" % (g, inp), "%r on %r: %s" % (g, inp, bad),
                              {"kind": "oracle", "grammar": g, "env": ENV_T, "input": inp})
                return


def _tuplify(x):
    return tuple(_tuplify(y) for y in x) if isinstance(x, list) else x


def replay(ctx, obj):
    r = obj["replay"]
    if r.get("kind") == "debug":
        g, env = _tuplify(r["grammar"]), {int(k): _tuplify(v) for k, v in (r.get("env") or {}).items()}
        a, b = outcome_with_debug(g, env, r["input"], False), outcome_with_debug(g, env, r["input"], r.get("which") or "all")
        print("without debug:", a, " with debug:", b)
        return a == b
    if r.get("kind") == "oracle":
        g, env = _tuplify(r["grammar"]), {int(k): _tuplify(v) for k, v in (r.get("env") or {}).items()}
        k, bad = oracle_case(g, env, r["input"], _tuplify(r.get("mode") or ["none"]))
        print("fatal exceptions constructed: %d; %s" % (k, bad or "propagated correctly"))
        return bad is None
    print("replay names a broken proof/correspondence obligation: %r" % (r,))
    return False
