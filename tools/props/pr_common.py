"""Shared by c10.py / c11.py: encoding of real ParseResults objects as Coq terms of Model/Results.v, decoding of
vm_compute output, canonical observations, the operation alphabet (Python executor + Coq syntax), and the
plain list + ordered multimap shadow (`spec_op` of Model/ResultsSpec.v transcribed to Python).

Canonical value forms (both sides are projected to these before comparison):
    ('s', str) ('i', int) ('b', bool) ('n',) ('l', [items]) ('pr', [items], [(name, [(value, pos)])], [sorted all_names], name|None)
"""
from tools import vlib


# ------------------------------------------------------------------------------------------------
# real objects -> canonical form / Coq term
# ------------------------------------------------------------------------------------------------
def PRcls():
    import pyparsing
    return pyparsing.ParseResults


def canon(v):
    PR = PRcls()
    if isinstance(v, PR):
        return ('pr', [canon(x) for x in v._toklist],
                [(k, [(canon(o[0]), o[1]) for o in occ]) for k, occ in v._tokdict.items()],
                sorted(v._all_names), v._name)
    if isinstance(v, bool):
        return ('b', v)
    if isinstance(v, int):
        return ('i', v)
    if isinstance(v, str):
        return ('s', v)
    if v is None:
        return ('n',)
    if isinstance(v, (list, tuple)):
        return ('l', [canon(x) for x in v])
    if isinstance(v, dict):
        return ('d', [(k, canon(x)) for k, x in v.items()])
    raise TypeError("canon: unsupported %r" % type(v))


def canon_modal(v):
    """_modal of the top object (absent after copy.copy / unpickling: __init__ is not run) """
    return getattr(v, "_modal", None)


def coq_tok(c):
    t = c[0]
    if t == 's':
        return "(TStr %s)" % vlib.coq_str(c[1])
    if t == 'i':
        return "(TInt (%d))" % c[1]
    if t == 'b':
        return "(TBool %s)" % ("true" if c[1] else "false")
    if t == 'n':
        return "TNone"
    if t == 'l':
        return "(TList [%s])" % ";".join(coq_tok(x) for x in c[1])
    if t == 'pr':
        return "(TPR %s)" % coq_pres(c)
    raise TypeError(t)


def coq_pres(c, modal=True):
    assert c[0] == 'pr'
    toks = ";".join(coq_tok(x) for x in c[1])
    d = ";".join("(%s, [%s])" % (vlib.coq_str(k), ";".join("(%s, (%d)%%Z)" % (coq_tok(v), p) for v, p in occ))
                 for k, occ in c[2])
    an = ";".join(vlib.coq_str(n) for n in c[3])
    nm = "None" if c[4] is None else "(Some %s)" % vlib.coq_str(c[4])
    return "(PR [%s] [%s] [%s] %s %s)" % (toks, d, an, nm, "true" if modal else "false")


def coq_opt_str(s):
    return "None" if s is None else "(Some %s)" % vlib.coq_str(s)


def coq_opt_z(z):
    return "None" if z is None else "(Some (%d)%%Z)" % z


# ------------------------------------------------------------------------------------------------
# vm_compute output -> canonical form
# ------------------------------------------------------------------------------------------------
def dec_str(t):
    if t in ("nil",):
        return ""
    return vlib.from_coq_str(t)


def dec_tok(t):
    if t == 'TNone' or t == ('TNone',):
        return ('n',)
    h = t[0]
    if h == 'TStr':
        return ('s', dec_str(t[1]))
    if h == 'TInt':
        return ('i', t[1])
    if h == 'TBool':
        return ('b', t[1])
    if h == 'TList':
        return ('l', [dec_tok(x) for x in t[1]])
    if h == 'TPR':
        return dec_pres(t[1])
    raise ValueError("dec_tok %r" % (t,))


def dec_opt(t, f=lambda x: x):
    if t == 'None' or t == ('None',):
        return None
    assert t[0] == 'Some', t
    return f(t[1])


def dec_pres(t):
    assert t[0] == 'PR', t
    _, toks, d, an, nm, modal = t
    return ('pr', [dec_tok(x) for x in toks],
            [(dec_str(k), [(dec_tok(v), p) for (v, p) in occ]) for (k, occ) in d],
            sorted(set(dec_str(n) for n in an)), dec_opt(nm, dec_str))


def dec_pres_modal(t):
    return t[5]


PREAMBLE = ("From Coq Require Import List ZArith NArith Bool.\n"
            "From PP Require Import Model.Str Model.Results.\n"
            "Import ListNotations.\nUnset Printing Records.\nLocal Open Scope N_scope.\n")


# ------------------------------------------------------------------------------------------------
# building real objects from canonical forms (operation parameters, replay)
# ------------------------------------------------------------------------------------------------
def norm(x):
    """lists/tuples -> tuples recursively (canonical forms survive a JSON round trip)"""
    if isinstance(x, (list, tuple)):
        return tuple(norm(y) for y in x)
    return x


def build(c):
    import pyparsing.results as R
    t = c[0]
    if t in ('s', 'i', 'b'):
        return c[1]
    if t == 'n':
        return None
    if t == 'l':
        return [build(x) for x in c[1]]
    if t == 'pr':
        r = R.ParseResults.__new__(R.ParseResults)
        r._toklist = [build(x) for x in c[1]]
        r._tokdict = {k: [R._ParseResultsWithOffset(build(v), p) for v, p in occ] for k, occ in c[2]}
        r._all_names = set(c[3])
        r._name = c[4]
        r._modal = True
        r._parent = None
        return r
    raise TypeError(t)


# ------------------------------------------------------------------------------------------------
# operations: Coq syntax, execution on the real object, decoding of model results
# ------------------------------------------------------------------------------------------------
def coq_slice(sl):
    return "(Slice %s %s %s)" % tuple(coq_opt_z(z) for z in sl)


def coq_list(items):
    return "[" + ";".join(items) + "]"


def coq_popkey(a0):
    if not a0:
        return "None"
    a = a0[0]
    return "(Some (PKInt (%d)%%Z))" % a if isinstance(a, int) else "(Some (PKName %s))" % vlib.coq_str(a)


def coq_op(op):
    k = op[0]
    S = vlib.coq_str
    if k == 'getint': return "(OGetInt (%d)%%Z)" % op[1]
    if k == 'getslice': return "(OGetSlice %s)" % coq_slice(op[1])
    if k == 'getname': return "(OGetName %s)" % S(op[1])
    if k == 'setint': return "(OSetInt (%d)%%Z %s)" % (op[1], coq_tok(op[2]))
    if k == 'setslice': return "(OSetSlice %s %s)" % (coq_slice(op[1]), coq_list(coq_tok(v) for v in op[2]))
    if k == 'setname': return "(OSetName %s %s)" % (S(op[1]), coq_tok(op[2]))
    if k == 'setnameoff': return "(OSetNameOff %s %s (%d)%%Z)" % (S(op[1]), coq_tok(op[2]), op[3])
    if k == 'delint': return "(ODelInt (%d)%%Z)" % op[1]
    if k == 'delslice': return "(ODelSlice %s)" % coq_slice(op[1])
    if k == 'delname': return "(ODelName %s)" % S(op[1])
    if k == 'contains': return "(OContains %s)" % S(op[1])
    if k in ('len', 'bool', 'iter', 'reversed', 'keys', 'values', 'items', 'haskeys', 'clear'):
        return "O" + k.capitalize()
    if k == 'pop':
        return "(OPop %s %s %s %s)" % (coq_popkey(op[1]), coq_list(coq_tok(v) for v in op[2]),
                                      ("(Some %s)" % coq_tok(op[3][0])) if op[3] else "None", "true" if op[4] else "false")
    if k == 'get': return "(OGet %s %s)" % (S(op[1]), coq_tok(op[2]))
    if k == 'insert': return "(OInsert (%d)%%Z %s)" % (op[1], coq_tok(op[2]))
    if k == 'append': return "(OAppend %s)" % coq_tok(op[1])
    if k == 'extendlist': return "(OExtendList %s)" % coq_list(coq_tok(v) for v in op[1])
    if k == 'extendpr': return "(OExtendPR %s)" % coq_pres(op[1])
    if k == 'getattr': return "(OGetAttr %s)" % S(op[1])
    if k == 'add': return "(OAdd %s)" % coq_pres(op[1])
    if k == 'iadd': return "(OIAdd %s)" % coq_pres(op[1])
    if k == 'raddzero': return "ORAddZero"
    if k == 'raddpr': return "(ORAddPR %s)" % coq_pres(op[1])
    if k == 'aslist': return "OAsList"
    if k == 'asdict': return "OAsDict"
    if k == 'copy': return "OCopy"
    if k == 'deepcopy': return "ODeepcopy"
    if k == 'pickle': return "OPickle"
    if k == 'getnamem': return "OGetNameM"
    raise ValueError(op)


def py_slice(sl):
    return slice(sl[0], sl[1], sl[2])


EXC = (IndexError, KeyError, TypeError, ValueError, AttributeError)


def py_apply(r, op):
    """execute op on the real object r (mutating it); returns (r_after, canonical result).  r_after is r except for `+=`"""
    import pickle
    k = op[0]
    try:
        if k == 'getint': return r, ('tok', canon(r[op[1]]))
        if k == 'getslice': return r, ('toks', [canon(x) for x in r[py_slice(op[1])]])
        if k == 'getname': return r, ('tok', canon(r[op[1]]))
        if k == 'setint': r[op[1]] = build(op[2]); return r, ('none',)
        if k == 'setslice': r[py_slice(op[1])] = [build(v) for v in op[2]]; return r, ('none',)
        if k == 'setname': r[op[1]] = build(op[2]); return r, ('none',)
        if k == 'setnameoff':
            import pyparsing.results as R
            r[op[1]] = R._ParseResultsWithOffset(build(op[2]), op[3]); return r, ('none',)
        if k == 'delint': del r[op[1]]; return r, ('none',)
        if k == 'delslice': del r[py_slice(op[1])]; return r, ('none',)
        if k == 'delname': del r[op[1]]; return r, ('none',)
        if k == 'contains': return r, ('bool', op[1] in r)
        if k == 'len': return r, ('int', len(r))
        if k == 'bool': return r, ('bool', bool(r))
        if k == 'iter': return r, ('toks', [canon(x) for x in iter(r)])
        if k == 'reversed': return r, ('toks', [canon(x) for x in reversed(r)])
        if k == 'keys': return r, ('keys', list(r.keys()))
        if k == 'values': return r, ('toks', [canon(x) for x in r.values()])
        if k == 'items': return r, ('items', [(a, canon(b)) for a, b in r.items()])
        if k == 'haskeys': return r, ('bool', r.haskeys())
        if k == 'pop':
            args = list(op[1]) + [build(v) for v in op[2]]
            kw = {}
            if op[3]: kw['default'] = build(op[3][0])
            if op[4]: kw['dflt'] = 1
            v = r.pop(*args, **kw)
            # `pop(name, default)` on an absent name returns the default: the model distinguishes "no value" only for statements
            return r, ('tok', canon(v))
        if k == 'get': return r, ('tok', canon(r.get(op[1], build(op[2]))))
        if k == 'insert': r.insert(op[1], build(op[2])); return r, ('none',)
        if k == 'append': r.append(build(op[1])); return r, ('none',)
        if k == 'extendlist': r.extend([build(v) for v in op[1]]); return r, ('none',)
        if k == 'extendpr': r.extend(build(op[1])); return r, ('none',)
        if k == 'clear': r.clear(); return r, ('none',)
        if k == 'getattr': return r, ('tok', canon(getattr(r, op[1])))
        if k == 'add': return r, ('pres', canon(r + build(op[1])))
        if k == 'iadd': r += build(op[1]); return r, ('none',)
        if k == 'raddzero': return r, ('pres', canon(0 + r))
        if k == 'raddpr': return r, ('pres', canon(sum([build(op[1]), r])))      # (0 + other) + r
        if k == 'aslist': return r, ('toks', [canon(x) for x in r.as_list()])
        if k == 'asdict': return r, ('dict', canon(r.as_dict()))
        if k == 'copy': return r, ('pres', canon(r.copy()))
        if k == 'deepcopy': return r, ('pres', canon(r.deepcopy()))
        if k == 'pickle': return r, ('pres', canon(pickle.loads(pickle.dumps(r))))
        if k == 'getnamem': return r, ('optstr', r.get_name())
    except EXC as e:
        return r, ('exc', type(e).__name__)
    raise ValueError(op)


def dec_dval(t):
    h = t[0]
    if h == 'DTok': return dec_tok(t[1])
    if h == 'DList': return ('l', [dec_dval(x) for x in t[1]])
    if h == 'DDict': return ('d', [(dec_str(k), dec_dval(v)) for k, v in t[1]])
    raise ValueError(t)


def dec_result(t):
    if t == 'RNone' or t == ('RNone',): return ('none',)
    h = t[0]
    if h == 'RTok': return ('tok', dec_tok(t[1]))
    if h == 'RToks': return ('toks', [dec_tok(x) for x in t[1]])
    if h == 'RBoolR': return ('bool', t[1])
    if h == 'RIntR': return ('int', t[1])
    if h == 'RKeys': return ('keys', [dec_str(x) for x in t[1]])
    if h == 'RItems': return ('items', [(dec_str(a), dec_tok(b)) for a, b in t[1]])
    if h == 'RDict': return ('dict', ('d', [(dec_str(k), dec_dval(v)) for k, v in t[1]]))
    if h == 'RPres': return ('pres', dec_pres(t[1]))
    if h == 'ROptStr': return ('optstr', dec_opt(t[1], dec_str))
    if h == 'RExc':
        e = t[1]
        return ('exc', e if isinstance(e, str) else e[0])
    raise ValueError(t)


# ------------------------------------------------------------------------------------------------
# the observation bundle of a state (model: `observe` in Model/ResultsSpec.v)
# ------------------------------------------------------------------------------------------------
def py_observe(r):
    return {
        'keys': list(r.keys()), 'len': len(r), 'bool': bool(r), 'haskeys': r.haskeys(),
        'str': shash(str(r)), 'repr': shash(repr(r)), 'dump': shash(r.dump()),
        'get_name': r.get_name(),
    }


def shash(s):
    acc = 5381
    for ch in s:
        acc = ((acc << 5) + acc + ord(ch) + 1) & 2305843009213693951
    return acc


def unlimbs(l):
    return sum(x << (9 * i) for i, x in enumerate(l))


def dec_observe(t):
    ks, ln, bl, hk, s, rp, dp, gn = t
    s, rp, dp = unlimbs(s), unlimbs(rp), unlimbs(dp)
    return {
        'keys': [dec_str(x) for x in ks], 'len': ln, 'bool': bl, 'haskeys': hk,
        'str': s, 'repr': rp, 'dump': dp,
        'get_name': dec_opt(gn, dec_str),
    }


# ------------------------------------------------------------------------------------------------
# C10 oracle: a plain Python list + an ordered multimap put through the same operations
# (transcription of spec_op in Model/ResultsSpec.v; uses the real `list` and `dict` of CPython)
# ------------------------------------------------------------------------------------------------
def vcanon(c):
    """canonical form -> view form: positions, _name dropped"""
    if c[0] == 'pr':
        return ('vpr', [vcanon(x) for x in c[1]], [(k, [vcanon(v) for v, _ in occ]) for k, occ in c[2]], sorted(c[3]))
    if c[0] == 'l':
        return ('l', [vcanon(x) for x in c[1]])
    if c[0] == 'd':
        return ('d', [(k, vcanon(v)) for k, v in c[1]])
    return c


class Shadow:
    def __init__(self, c):
        v = vcanon(c)
        self.lst = list(v[1])
        self.mm = {k: list(vs) for k, vs in v[2]}
        self.all = set(v[3])

    def state(self):
        return ('vpr', list(self.lst), [(k, list(vs)) for k, vs in self.mm.items()], sorted(self.all))

    def lookup(self, k):
        vs = self.mm[k]                                   # KeyError
        if k in self.all:
            return ('vpr', list(vs), [], [])
        return vs[-1]

    def truthy(self):
        return bool(self.lst) or bool(self.mm)

    def iadd(self, other):
        o = Shadow(other) if not isinstance(other, Shadow) else other
        if not o.truthy():
            return
        for k, vs in list(o.mm.items()):
            for v in vs:
                self.mm[k] = self.mm.get(k, []) + [v]
        self.lst += list(o.lst)
        self.all |= o.all

    def copy(self):
        s = Shadow(('pr', [], [], [], None))
        s.lst, s.mm, s.all = list(self.lst), {k: list(v) for k, v in self.mm.items()}, set(self.all)
        return s

    def to_item(self, v):
        if v[0] == 'vpr':
            if v[2]:
                return Shadow.of_view(v).as_dict()
            return ('l', [self.to_item(x) for x in v[1]])
        return v

    @staticmethod
    def of_view(v):
        s = Shadow(('pr', [], [], [], None))
        s.lst, s.mm, s.all = list(v[1]), {k: list(vs) for k, vs in v[2]}, set(v[3])
        return s

    def as_dict(self):
        return ('d', [(k, self.to_item(self.lookup(k))) for k in self.mm])

    @staticmethod
    def as_list_item(v):
        if v[0] == 'vpr':
            return ('l', [Shadow.as_list_item(x) for x in v[1]])
        return v

    def apply(self, op):
        k = op[0]
        V = lambda c: vcanon(c)
        try:
            if k == 'getint': return ('tok', self.lst[op[1]])
            if k == 'getslice': return ('toks', self.lst[py_slice(op[1])])
            if k == 'getname': return ('tok', self.lookup(op[1]))
            if k == 'setint': self.lst[op[1]] = V(op[2]); return ('none',)
            if k == 'setslice': self.lst[py_slice(op[1])] = [V(v) for v in op[2]]; return ('none',)
            if k in ('setname', 'setnameoff'): self.mm[op[1]] = self.mm.get(op[1], []) + [V(op[2])]; return ('none',)
            if k == 'delint': del self.lst[op[1]]; return ('none',)
            if k == 'delslice': del self.lst[py_slice(op[1])]; return ('none',)
            if k == 'delname': del self.mm[op[1]]; return ('none',)
            if k == 'contains': return ('bool', op[1] in self.mm)
            if k == 'len': return ('int', len(self.lst))
            if k == 'bool': return ('bool', self.truthy())
            if k == 'iter': return ('toks', list(self.lst))
            if k == 'reversed': return ('toks', list(reversed(self.lst)))
            if k == 'keys': return ('keys', list(self.mm))
            if k == 'values': return ('toks', [self.lookup(x) for x in self.mm])
            if k == 'items': return ('items', [(x, self.lookup(x)) for x in self.mm])
            if k == 'haskeys': return ('bool', bool(self.mm))
            if k == 'pop':
                if op[4]:
                    raise TypeError("unexpected keyword")
                a0 = op[1][0] if op[1] else -1
                rest = [V(op[3][0])] if op[3] else [V(v) for v in op[2]]
                if isinstance(a0, int):
                    return ('tok', self.lst.pop(a0))                              # list.pop
                if not rest or a0 in self.mm:
                    v = self.lookup(a0)
                    del self.mm[a0]                                                # dict.pop
                    return ('tok', v)
                return ('tok', rest[0])
            if k == 'get': return ('tok', self.lookup(op[1]) if op[1] in self.mm else V(op[2]))
            if k == 'insert': self.lst.insert(op[1], V(op[2])); return ('none',)
            if k == 'append': self.lst.append(V(op[1])); return ('none',)
            if k == 'extendlist': self.lst.extend([V(v) for v in op[1]]); return ('none',)
            if k in ('extendpr', 'iadd'): self.iadd(op[1]); return ('none',)
            if k == 'clear': self.lst.clear(); self.mm.clear(); return ('none',)
            if k == 'getattr':
                if op[1] in self.mm: return ('tok', self.lookup(op[1]))
                if op[1].startswith("__"): raise AttributeError(op[1])
                return ('tok', ('s', ''))
            if k == 'add': c = self.copy(); c.iadd(op[1]); return ('pres', c.state())
            if k == 'raddzero': return ('pres', self.copy().state())
            if k == 'raddpr': c = Shadow(op[1]).copy(); c.iadd(self); return ('pres', c.state())
            if k == 'aslist': return ('toks', [Shadow.as_list_item(v) for v in self.lst])
            if k == 'asdict': return ('dict', self.as_dict())
            if k in ('copy', 'deepcopy', 'pickle'): return ('pres', self.copy().state())
            if k == 'getnamem': return ('none',)          # not a function of the views
        except EXC as e:
            return ('exc', type(e).__name__)
        raise ValueError(op)


def vresult(res):
    """canonical result -> view form"""
    k = res[0]
    if k == 'tok': return ('tok', vcanon(res[1]))
    if k == 'toks': return ('toks', [vcanon(x) for x in res[1]])
    if k == 'items': return ('items', [(a, vcanon(b)) for a, b in res[1]])
    if k == 'dict': return ('dict', vcanon(res[1]))
    if k == 'pres': return ('pres', vcanon(res[1]))
    return res


# ------------------------------------------------------------------------------------------------
# structural state hash (model: hash_pres in Model/ResultsSpec.v)
# ------------------------------------------------------------------------------------------------
MASK = 2305843009213693951


def hmix(a, b):
    return (a * 1114129 + b + 1) & MASK


def hash_z(z):
    return abs(z) * 2 + (1 if z < 0 else 0)


def hash_canon(c):
    t = c[0]
    if t == 's': return hmix(1, shash(c[1]))
    if t == 'b': return hmix(3, 1 if c[1] else 0)
    if t == 'i': return hmix(2, hash_z(c[1]))
    if t == 'n': return 4
    if t == 'l':
        acc = 5
        for x in c[1]:
            acc = hmix(acc, hash_canon(x))
        return acc
    if t == 'pr':
        ht = 6
        for x in c[1]:
            ht = hmix(ht, hash_canon(x))
        hd = 8
        for k, occ in c[2]:
            hd = hmix(hd, shash(k))
            for v, p in occ:
                hd = hmix(hmix(hd, hash_canon(v)), hash_z(p))
        return hmix(hmix(ht, hd), hmix(9, shash(c[4])) if c[4] is not None else 10)
    raise TypeError(t)
