"""C10 — ParseResults behaves as a list plus an ordered multimap of names.

Correspondence family 3: operation histories on real ParseResults objects vs the Coq model (Model/Results.v +
Model/ResultsAPI.v, evaluated with vm_compute), comparing after EVERY operation the operation's result (or exception
class), the complete internal state (_toklist, _tokdict with stored positions, _all_names, _name) and the
observation bundle keys/len/bool/haskeys/str/repr/dump/get_name.
Property oracle on the implementation: the same history executed on a plain Python list + an ordered multimap
(pr_common.Shadow = spec_op of Model/ResultsSpec.v transcribed) must give the same results and the same views.
"""
import json
from concurrent.futures import ThreadPoolExecutor
from tools import vlib
from tools.props import pr_common as C, pr_cases as K

PROP = "C10"
GEN = []
RULE = ("histories: every operation sequence of length <= d over a 14-operation alphabet from 8 start objects (real parses with "
        "Group/names/list-all names/Dict/nested groups/non-string tokens + constructed) and seeded random histories over the "
        "whole API (36 operations, all argument forms of pop, slices with steps, negative indices); "
        "non-trivial = the start object carries names and the history has >= 2 operations")
TRUSTED = ["tools/props/pr_common.py: encoding of real ParseResults objects as Coq terms / decoding, the Python executor of "
           "each operation, and the list+multimap shadow (transcription of spec_op)",
           "string formatting in str/repr/dump is modelled for str tokens without quote/backslash/non-printable characters"]
EXPLANATION = ("Theorems quantify over all results and all operation lists; the executable model they are about is compared with "
               "the real class on enumerated and random histories every run.")

PRE = ("From Coq Require Import List ZArith NArith Bool.\n"
       "From PP Require Import Model.Str Model.Results Model.ResultsAPI Model.ResultsSpec.\n"
       "Import ListNotations.\nUnset Printing Records.\nLocal Open Scope N_scope.\n")


def node_model(t):
    mres, mstate, mobs = t
    return (C.norm(C.dec_result(mres)), C.norm(C.dec_pres(mstate)), C.norm(sorted(C.dec_observe(mobs).items())))


def node_model_hashed(t):
    mres, (h, an), mobs = t
    return (C.norm(C.dec_result(mres)), (C.unlimbs(h), tuple(sorted(set(C.dec_str(n) for n in an)))), C.norm(sorted(C.dec_observe(mobs).items())))


def hashed(node):
    """impl node with the state replaced by (structural hash, sorted list-all names)"""
    res, st, obs = node
    obs = tuple((k, 0 if k in ("str", "repr") else v) for k, v in obs)
    return (res, (C.hash_canon(st), tuple(st[3])), obs)


def node_impl(r, ires):
    return (C.norm(ires), C.norm(C.canon(r)), C.norm(sorted(C.py_observe(r).items())))


def run_impl(start_factory, ops):
    """returns per step (impl node, shadow result, shadow state, impl view) ; stops at harness-level errors"""
    r = start_factory()
    sh = C.Shadow(C.canon(r))
    out = []
    for o in ops:
        r, ires = C.py_apply(r, o)
        sres = sh.apply(o)
        out.append((node_impl(r, ires), C.norm(sres), C.norm(sh.state()), C.norm(C.vresult(ires)), C.norm(C.vcanon(C.canon(r)))))
    return out


def oracle_step(o, step):
    """the property itself on the implementation: list+multimap shadow vs real object; None or a description"""
    _, sres, sstate, ires_v, istate_v = step
    if o[0] == 'getnamem':
        return None
    if sres != ires_v:
        return "result of %r: real object %r, list+multimap %r" % (o, ires_v, sres)
    if sstate != istate_v:
        return "views after %r: real object %r, list+multimap %r" % (o, istate_v, sstate)
    return None


def hist_key(sname, ops):
    return "hist:%s:%s" % (sname, json.dumps(ops, sort_keys=True, default=str, separators=(",", ":")))


def check_history(ctx, sname, factory, ops, model_nodes, last_only=False, use_hash=False):
    """compare one history; model_nodes = list of decoded model nodes for each step (or only the last one)"""
    steps = run_impl(factory, ops)
    rng_idx = [len(ops) - 1] if last_only else range(len(ops))
    agreed = True
    for j in rng_idx:
        bad = oracle_step(ops[j], steps[j])
        if bad:
            ctx.violation(hist_key(sname, ops[:j + 1]), "list+multimap view broken: " + bad,
                          {"kind": "history", "start": sname, "ops": ops[:j + 1]})
        m = model_nodes[0] if last_only else model_nodes[j]
        inode = hashed(steps[j][0]) if use_hash else steps[j][0]
        if m is not None and m != inode:
            agreed = False
            diff = [n for n, a, b in zip(("result", "state", "observations"), m, inode) if a != b]
            ctx.broken("correspondence:history model!=impl start=%s ops=%s differs in %s" % (
                sname, json.dumps(ops[:j + 1], default=str)[:300], diff))
            ctx.coverage_extra.setdefault("first_disagreement", {"start": sname, "ops": ops[:j + 1],
                                                                 "model": repr(m)[:1500], "impl": repr(steps[j][0])[:1500]})
            break
    return agreed


def correspond(ctx):
    starts = K.start_objects()
    names = sorted(starts)
    depth = 3
    alphabet = K.ALPHABET if not ctx.thorough else K.ALPHABET
    if ctx.thorough:
        depth = 4
        alphabet = K.ALPHABET[:10]
    n_random = 4000 if ctx.thorough else 640
    maxlen = 40 if ctx.thorough else 12
    # ---- cases
    rnd = []
    for i in range(n_random):
        s = names[i % len(names)]
        rnd.append((s, [K.random_op(ctx.rng) for _ in range(ctx.rng.randint(1, maxlen))]))
    start_terms = {s: C.coq_pres(C.canon(starts[s]())) for s in names}
    alpha_term = C.coq_list(C.coq_op(o) for o in alphabet)
    jobs = []
    for s in names:
        jobs.append(("enum", s, ["explore_hash %d %s %s" % (depth, alpha_term, start_terms[s])]))
    shard = 40
    for k in range(0, len(rnd), shard):
        part = rnd[k:k + shard]
        jobs.append(("rand", k, ["run_obs %s %s" % (start_terms[s], C.coq_list(C.coq_op(o) for o in ops)) for s, ops in part]))

    def work(job):
        kind, tag, exprs = job
        try:
            return vlib.coq_eval_terms("c10_%s_%s" % (kind, tag), PRE, exprs, timeout=1500)
        except Exception as e:          # model evaluation failed: reported as a broken tie below
            return e
    with ThreadPoolExecutor(max_workers=12) as ex:
        results = list(ex.map(work, jobs))
    model_ok = True
    for job, res in zip(jobs, results):
        if isinstance(res, Exception):
            model_ok = False
            ctx.broken("correspondence:model-eval %s/%s (%s)" % (job[0], job[1], str(res)[:200]))

    # ---- enumerated histories (DFS pre-order, the order of explore_obs)
    for job, res in zip(jobs, results):
        if job[0] != "enum":
            continue
        s = job[1]
        nodes = None if isinstance(res, Exception) else res[0]
        pos = [0]

        def walk(prefix, d):
            if d == 0:
                return
            for o in alphabet:
                ops = prefix + [o]
                m = None
                if nodes is not None:
                    m = node_model_hashed(nodes[pos[0]])
                    pos[0] += 1
                ok = check_history(ctx, s, starts[s], ops, [m], last_only=True, use_hash=True)
                ctx.case(hist_key(s, ops), nontrivial=(s not in ("empty", "plain") and len(ops) >= 2), agreed=ok and m is not None)
                ctx.stat("enumerated_histories")
                walk(ops, d - 1)
        walk([], depth)
        if nodes is not None and pos[0] != len(nodes):
            ctx.broken("correspondence:enumeration size mismatch for %s" % s)
    # ---- random histories
    for job, res in zip(jobs, results):
        if job[0] != "rand":
            continue
        part = rnd[job[1]:job[1] + shard]
        for idx, (s, ops) in enumerate(part):
            ms = [None] * len(ops) if isinstance(res, Exception) else [node_model(t) for t in res[idx]]
            ok = check_history(ctx, s, starts[s], ops, ms)
            ctx.case(hist_key(s, ops), nontrivial=(s not in ("empty", "plain") and len(ops) >= 2),
                     agreed=ok and not isinstance(res, Exception))
            ctx.stat("random_histories")
            ctx.stat("random_operations", len(ops))
            for o in ops:
                ctx.stat("op:" + o[0])
    ctx.sample({"start": "seq_names", "ops": [list(map(str, o)) for o in rnd[0][1][:4]]})
    ctx.coverage_extra["scope"] = "depth %d over %d operations x %d start objects; %d random histories of length <= %d" % (
        depth, len(alphabet), len(names), n_random, maxlen)
    ctx.coverage_extra["start_objects"] = {s: repr(C.canon(starts[s]()))[:300] for s in names}


def search(ctx, reasons):
    """widened search on the implementation with the list+multimap oracle only (no model needed)"""
    starts = K.start_objects()
    names = sorted(starts)
    n = 60000 if ctx.thorough else 8000
    for i in range(n):
        s = names[i % len(names)]
        ops = [K.random_op(ctx.rng) for _ in range(ctx.rng.randint(1, 10))]
        steps = run_impl(starts[s], ops)
        ctx.stat("search_histories")
        for j, o in enumerate(ops):
            bad = oracle_step(o, steps[j])
            if bad:
                # shrink: drop operations while the oracle still fails at the end
                cur = ops[:j + 1]
                changed = True
                while changed:
                    changed = False
                    for d in range(len(cur) - 1):
                        cand = cur[:d] + cur[d + 1:]
                        st = run_impl(starts[s], cand)
                        if oracle_step(cand[-1], st[-1]):
                            cur, changed = cand, True
                            break
                st = run_impl(starts[s], cur)
                ctx.violation(hist_key(s, cur), "list+multimap view broken: " + str(oracle_step(cur[-1], st[-1])),
                              {"kind": "history", "start": s, "ops": cur})
                return


def replay(ctx, obj):
    r = obj["replay"]
    if r.get("kind") == "history":
        starts = K.start_objects()
        ops = [tuple(_untuple(o)) for o in r["ops"]]
        steps = run_impl(starts[r["start"]], ops)
        ok = True
        for o, st in zip(ops, steps):
            bad = oracle_step(o, st)
            if bad:
                print("start=%s ops=%r: %s" % (r["start"], ops, bad))
                ok = False
                break
        return ok
    print("replay names a broken proof/correspondence obligation: %r" % (r,))
    return False


def _untuple(o):
    """JSON turned tuples into lists: canonical forms are position-typed, so lists are fine everywhere except the op head"""
    return [x for x in o]
