"""C08 — all parsing entry points agree with one another."""
from tools import vlib
from tools.harness import history
from tools.harness import gen, corr, pcommon, build, observe, dump

PROP = "C08"
GEN = ["gen_entry"]
RULE = ("seeded random grammars (names, pure actions, zero-width matches, anchors, ignorables) x sampled/mutated inputs (tabs and "
        "newlines included) x options (parse_all, max_matches, overlap, include_separators, maxsplit): (i) extracted model vs "
        "implementation for parse_string / parse_all / scan_string (overlap, max_matches, always_skip_whitespace); (ii) oracle on the "
        "implementation: parse_all <=> (expr + StringEnd()), matches / == str, scan matches ordered, each equal to a direct parse at its "
        "start, no skipped position would have matched, with overlap=True the reported list is exactly what the visit of the cursor positions (Proofs/ScanOverlap.v ovisit, walked on the implementation) reports, search_string / transform_string / split are the documented functions of the "
        "scan list, split pieces + matched separators restore the input; (iii) the And of the parse_all theorems (Model/EntryExtra.v "
        "and_se / and_se_gen) equals, tree for tree, the dumped real `expr + StringEnd()` (built before and after streamline); "
        "non-trivial = scan with >= 1 match on an input of length >= 2")
TRUSTED = pcommon.TRUSTED_PARSE


class _T(BaseException):
    pass


def with_timeout(f, default, t=1.0):
    import signal

    def on(sig, frm):
        raise _T()
    old = signal.signal(signal.SIGPROF, on)
    try:
        try:
            signal.setitimer(signal.ITIMER_PROF, t, 0.25)
            return f()
        finally:
            signal.setitimer(signal.ITIMER_PROF, 0)
    except _T:
        return default
    finally:
        signal.signal(signal.SIGPROF, old)


def outcome(f):
    import pyparsing as pp
    try:
        return ("ok", f())
    except pp.ParseBaseException as e:
        return ("err", type(e).__name__, e.loc)
    except RecursionError:
        return ("div",)
    except Exception as e:
        return ("other", type(e).__name__)


def overlap_walk(e, parsed):
    """Proofs/ScanOverlap.v `ovisit` / `oreport` / `onext` evaluated on the implementation's own preParse / _parse: the cursor
    positions an overlapping scan visits, what each reports, and how the walk ends ("done" = ran off the end of the text,
    "stop" = something other than a ParseException was raised).  After a reported match the cursor advances by one when the
    match began exactly at the cursor, and jumps to the END of the match when the pre-parse skipped something in front of it."""
    import pyparsing as pp
    pre = pp.Empty()
    pre.ignoreExprs = e.ignoreExprs
    pre.whiteChars = e.whiteChars
    loc, vis, reps = 0, [], []
    while loc <= len(parsed):
        vis.append(loc)
        pl = outcome(lambda: pre.preParse(parsed, loc))
        if pl[0] != "ok":
            return vis, reps, "stop"
        pl = pl[1]
        d = outcome(lambda: (lambda r: (r[0], r[1].as_list()))(e._parse(parsed, pl, callPreParse=False)))
        if d[0] == "ok":
            nl, t = d[1]
            if nl > loc:
                reps.append((t, pl, nl))
                loc = nl if pl > loc else loc + 1
            else:
                loc = pl + 1
        elif d[0] == "err" and d[1] == "ParseException":
            loc = pl + 1
        else:
            return vis, reps, "stop"
    return vis, reps, "done"


OVERLAP_PREAMBLE = """From Coq Require Import List ZArith NArith Bool.
From PP Require Import Model.Str Model.Results Model.Prog Model.Core Model.Entry Model.EntryExtra Proofs.EntryProofs Proofs.ScanOverlap.
Import ListNotations.
"""

# (grammar, input, spans, visited cursor positions); the first two are the values stated by the Examples
# C08_scan_overlap_word_instance / C08_scan_overlap_zero_width_instance of coq/Props/C08.v
OVERLAP_FIXED = [
    (("word", "ab"), "ab ab", [(0, 2), (1, 2), (3, 5)], [0, 1, 2, 5]),
    (("empty",), "  a ", [(2, 2), (4, 4)], [0, 2, 3, 4]),
    (("word", "ab"), "abab", [(0, 4), (1, 4), (2, 4), (3, 4)], [0, 1, 2, 3, 4]),
    (("word", "ab"), "ab  ab b", [(0, 2), (1, 2), (4, 6), (7, 8)], [0, 1, 2, 6, 8]),
    (("opt", ("lit", "a")), " a b a", [(1, 2), (3, 3), (5, 6)], None),
    (("mf", ("lit", "abc"), ("lit", "b")), "abc", [(0, 3), (1, 2)], [0, 1, 2, 3]),      # the ends are not increasing
    (("word", "ab"), "", [], [0]),
]


def overlap_fixed(ctx):
    """scan_string(overlap=True) on fixed cases, three ways: the real generator, the visit of Proofs/ScanOverlap.v walked on the
    implementation (overlap_walk), and the Coq model (`scan_string` of Model/Entry.v and `ovisit` of Proofs/ScanOverlap.v, both
    evaluated by vm_compute on the DUMPED real object); all must agree with one another and with the values the Examples of
    Props/C08.v state."""
    from tools.props import c16
    ok, log = vlib.build_target("Proofs/ScanOverlap.v")
    if not ok:
        ctx.broken("correspondence:scan-overlap (Proofs/ScanOverlap.v does not build)")
        return
    terms, keys = [], []
    for (g, inp, spans, visit) in OVERLAP_FIXED:
        e = build.Builder({}).build_all(g)
        e.streamline()
        real = outcome(lambda: [(s_, e_) for _, s_, e_ in e.scan_string(inp, overlap=True)])
        vis, reps, how = overlap_walk(e, inp)
        walked = [(s_, e_) for _, s_, e_ in reps]
        same = real == ("ok", spans) and walked == spans and how == "done" and (visit is None or vis == visit)
        ctx.case("overlap-fixed:%r|%r" % (g, inp), True, same)
        if not same:
            ctx.violation("scan-overlap-fixed:%r|%r" % (g, inp),
                          "%r on %r with overlap=True: scan_string gives %r, the visit of the cursor positions %r reports %r (%s); stated: %r, visit %r" % (
                              g, inp, real, vis, walked, how, spans, visit), {"kind": "overlap-fixed"})
        try:
            t = c16.sx_to_coq(observe.parse_sx(dump.Dumper().expr(e)))
        except (dump.Unsupported, c16.NotExpressible):
            ctx.broken("correspondence:scan-overlap (%r is not expressible in Gallina)" % (g,))
            continue
        s = vlib.coq_str(inp)
        terms.append("match drun (parse (step []) 60) (scan_string %s true %s None true true) with Some (res, SDone) => Some (spans res) | _ => None end" % (t, s))
        terms.append("ovisit (parse (step []) 60) %s %s true (length %s + 2) 0" % (t, s, s))
        keys.append((g, inp, spans, vis))
    if not terms:
        return
    try:
        res = vlib.coq_eval_terms("c08_overlap", OVERLAP_PREAMBLE, terms)
    except RuntimeError as ex:
        ctx.broken("correspondence:scan-overlap (model evaluation failed: %s)" % str(ex)[-300:])
        return
    for i, (g, inp, spans, vis) in enumerate(keys):
        m_spans, m_vis = res[2 * i], res[2 * i + 1]
        got = [tuple(x) for x in m_spans[1]] if isinstance(m_spans, tuple) and m_spans[0] == "Some" else None
        same = got == spans and list(m_vis) == vis
        ctx.case("overlap-fixed-model:%r|%r" % (g, inp), True, same)
        if not same:
            ctx.broken("correspondence:scan-overlap (model: spans %r visit %r; implementation: spans %r visit %r; %r on %r)" % (
                got, m_vis, spans, vis, g, inp))
    ctx.stat("overlap_fixed", len(keys))


def oracle(g, env, inp, opts, has_ignore):
    """returns list of (key_suffix, description) violations for one grammar/input"""
    import pyparsing as pp
    b = build.Builder(env)
    e = b.build_all(g)
    bad = []
    parsed = inp if e.keepTabs else inp.expandtabs()
    # (a) parse_all <=> expr + StringEnd()
    pa = outcome(lambda: e.parse_string(inp, parse_all=True).as_list())
    plain = outcome(lambda: e.parse_string(inp).as_list())
    # parse_with_tabs is a setting of the root element: the composed root must parse the same string as `e` does
    comp = (lambda x: x.parse_with_tabs()) if e.keepTabs else (lambda x: x)
    se = outcome(lambda: comp(e + pp.StringEnd()).parse_string(inp).as_list())
    if pa[0] == "div" or se[0] == "div" or plain[0] == "div":
        return None
    if (pa[0] == "ok") != (se[0] == "ok"):
        # F-08d: `expr + StringEnd()` wraps expr in an And that pre-skips whitespace with the DEFAULT whitespace set when expr's own
        # flag says "skips" - an Or / MatchFirst whose alternative begins with a nested White / LineEnd / LineStart (elements with their own whitespace set) then never sees the blanks or newlines
        white = (not has_ignore) and any(w in repr(g) for w in ("('white',", "('lineend'", "('linestart'", "('setws',"))     # either direction: the And's pre-skip changes which alternative sees the text
        bad.append(("parse_all-vs-StringEnd" + (":ignore" if has_ignore else ":nested-white" if white else ""),
                    "parse_string(parse_all=True) -> %r but (expr + StringEnd()).parse_string -> %r" % (pa, se)))
    elif pa[0] == "ok" and pa[1] != plain[1]:
        bad.append(("parse_all-tokens", "tokens differ: parse_all %r, plain parse %r" % (pa[1], plain[1])))
    # (b) matches / ==
    m = outcome(lambda: e.matches(inp))
    q = outcome(lambda: e == inp)
    if m != ("ok", pa[0] == "ok") or q != m:
        if pa[0] in ("ok", "err"):
            bad.append(("matches", "matches(s)=%r, (expr == s)=%r, parse_all=%r" % (m, q, pa[0])))
    # (c) scan_string
    for (mx, ov) in opts["scan"]:
        kw = {} if mx is None else {"max_matches": mx}
        sc = outcome(lambda: [(t.as_list(), s_, e_) for t, s_, e_ in e.scan_string(inp, overlap=ov, **kw)])
        if sc[0] != "ok":
            continue
        ms = sc[1]
        if mx is not None and len(ms) > mx:
            bad.append(("scan-max", "max_matches=%d but %d matches" % (mx, len(ms))))
        prev_end, prev_start = 0, -1
        for (t, st, en) in ms:
            if not (0 <= st <= en <= len(parsed) + 1):
                bad.append(("scan-range", "match (%d,%d) outside the parsed string of length %d" % (st, en, len(parsed))))
            if not ov and st < prev_end:
                bad.append(("scan-overlap", "matches overlap: start %d < previous end %d" % (st, prev_end)))
            if st <= prev_start:
                bad.append(("scan-order", "match starts not strictly increasing: (%r,%d,%d) reported after a match starting at %d" % (t, st, en, prev_start)))
            d = outcome(lambda: (lambda r: (r[0], r[1].as_list()))(e._parse(parsed, st, callPreParse=False)))
            if d != ("ok", (en, t)):
                bad.append(("scan-direct", "match (%r,%d,%d) but a direct parse at %d gives %r" % (t, st, en, st, d)))
            prev_end, prev_start = en, st
        # no skipped position would have matched (non-overlap, unlimited)
        if not ov and mx is None:
            pre = pp.Empty()
            pre.ignoreExprs = e.ignoreExprs
            pre.whiteChars = e.whiteChars
            loc, i = 0, 0
            while loc <= len(parsed):
                nxt = ms[i] if i < len(ms) else None
                pl = outcome(lambda: pre.preParse(parsed, loc))
                if pl[0] != "ok":
                    break
                pl = pl[1]
                if nxt is not None and pl == nxt[1]:
                    loc = nxt[2] if nxt[2] > loc else pl + 1
                    i += 1
                    continue
                d = outcome(lambda: e._parse(parsed, pl, callPreParse=False)[0])
                if d[0] == "ok" and d[1] > loc:
                    bad.append(("scan-complete", "position %d (pre-parsed %d) matches up to %d but scan_string skipped it" % (loc, pl, d[1])))
                    break
                loc = pl + 1
        # overlap, unlimited: the reported list is exactly what the visited cursor positions report (C08_scan_overlap_complete)
        if ov and mx is None:
            vis, reps, how = overlap_walk(e, parsed)
            if how == "done" and reps != ms:
                bad.append(("scan-overlap-complete", "scan_string(overlap=True) reports %r but the visit %r of the cursor positions reports %r" % (
                    [(a, b_) for _, a, b_ in ms], vis, [(a, b_) for _, a, b_ in reps])))
    # (d) search_string
    ss = outcome(lambda: e.search_string(inp).as_list())
    sc2 = outcome(lambda: [t.as_list() for t, _, _ in e.scan_string(inp, always_skip_whitespace=False)])
    if ss != sc2 and "div" not in (ss[0], sc2[0]):
        bad.append(("search", "search_string %r != scan_string(always_skip_whitespace=False) tokens %r" % (ss, sc2)))
    # (e) transform_string : unmatched text verbatim, each match replaced by its flattened tokens
    e2 = b.build_all(g).copy()
    tr = outcome(lambda: e2.transform_string(inp))
    e3 = b.build_all(g).copy()
    e3.keepTabs = True
    sc3 = outcome(lambda: [(t, s_, e_) for t, s_, e_ in e3.scan_string(inp)])
    if tr[0] == "ok" and sc3[0] == "ok":
        out, last = [], 0
        from pyparsing.util import _flatten
        for t, s_, e_ in sc3[1]:
            out.append(inp[last:s_])
            last = e_
            out.extend(str(x) for x in _flatten(t.as_list()) if x or x == 0)
        out.append(inp[last:])
        want = "".join(o for o in out if o)
        if tr[1] != want:
            # does dropping the falsy non-string tokens (0, 0.0, False: `out = [o for o in out if o]`) explain it?
            # the real filter `out = [o for o in out if o]` runs on the TOP-LEVEL entries (before flattening): a falsy entry
            # nested inside a group survives
            out2, last = [], 0
            for t, s_, e_ in sc3[1]:
                out2.append(inp[last:s_])
                last = e_
                out2.extend(t.as_list())
            out2.append(inp[last:])
            key = "transform:falsy-token-dropped" if tr[1] == "".join(str(x) for x in _flatten([o for o in out2 if o])) else "transform"
            bad.append((key, "transform_string %r but unmatched text + tokens give %r" % (tr[1], want)))
    # (f) split : pieces interleaved with the matched separators restore the input
    for mxs in opts["split"]:
        kw = {} if mxs is None else {"maxsplit": mxs}
        pieces = outcome(lambda: list(e.split(inp, **kw)))
        kw2 = {} if mxs is None else {"max_matches": mxs}
        seps = outcome(lambda: [(s_, e_) for _, s_, e_ in e.scan_string(inp, **kw2)])
        if pieces[0] == "ok" and seps[0] == "ok" and len(pieces[1]) == len(seps[1]) + 1:
            src = parsed
            rebuilt = "".join(p + src[s_:e_] for p, (s_, e_) in zip(pieces[1], seps[1])) + pieces[1][-1]
            if rebuilt != src:
                tabs = "\t" in inp and not e.keepTabs and bool(seps[1])
                bad.append(("split-rejoin" + (":tabs" if tabs else ""),
                            "split pieces %r + matched separators %r give %r, not the parsed input %r" % (pieces[1], seps[1], rebuilt, src)))
        elif pieces[0] == "ok" and seps[0] == "ok":
            bad.append(("split-count", "%d pieces for %d separators" % (len(pieces[1]), len(seps[1]))))
    return bad


def rand_case(rng, i):
    opts = dict(names=(i % 2 == 0), actions=(i % 5 == 0), stops=False, fwd=True, extra=True, ws=(i % 7 == 0))
    g = gen.rand_grammar(rng, rng.randint(1, 4), opts)
    has_ignore = False
    if i % 6 == 0:
        g = ("ignore", g, ("and", ("lit", "#"), ("word", "ab")))
        has_ignore = True
    if i % 9 == 0:
        g = ("keeptabs", g)
    env = rng.choice([gen.ENV0, gen.ENV_EXPR])
    inputs = set()
    for _ in range(3):
        s = gen.sample_input(rng, g, env)
        s2 = " ".join(gen.sample_input(rng, g, env) for _ in range(rng.randint(1, 3)))
        inputs.update([s, s2, gen.mutate_input(rng, s2, "ab, (\n\t)#")])
    return g, env, sorted(inputs)[:6], has_ignore


AND_SE_PREAMBLE = """From Coq Require Import List ZArith NArith Bool.
From PP Require Import Model.Str Model.Results Model.Prog Model.Core Model.Entry Model.EntryExtra Proofs.EqDec.
Import ListNotations.
"""


def and_se_tie(ctx, grammars, limit=120):
    """Model/EntryExtra.v `and_se_gen` / `and_se` ARE the object that `expr + StringEnd()` builds (And.__init__ + streamline):
    the real object is dumped, its root part handed to the model construction in Coq, and the two attributed trees compared with
    the decidable equality of Proofs/EqDec.v.  Two real constructions per grammar: (i) `expr + StringEnd()` on the never
    streamlined expr - the And inherits exprs[0].skipWhitespace / whiteChars as they are at that moment (for a MatchFirst / Or
    streamline() may recompute them later): compared with `and_se_gen` given the inherited pair read off the real And; (ii) the
    same on an already streamlined expr (as after any earlier parse_string, and as the oracle above builds it): compared with
    `and_se`, which takes the pair from the streamlined root.  Grammars the Gallina printer of c16 cannot express (names, actions,
    ignorables, Forward) are skipped."""
    import pyparsing as pp
    from tools.props import c16
    ok, log = vlib.build_target("Proofs/EqDec.v")
    if not ok:
        ctx.broken("correspondence:and_se (Proofs/EqDec.v does not build)")
        return
    terms, keys = [], []
    for (g, env) in grammars:
        if len(terms) >= 2 * limit:
            break
        try:
            both = []
            for pre_streamlined in (False, True):
                e = build.Builder(env).build_all(g)
                if pre_streamlined:
                    e.streamline()
                x = e + pp.StringEnd()
                x.streamline()
                d = dump.Dumper()
                and_sx = observe.parse_sx(d.dump(x)[0])
                root_sx = observe.parse_sx(d.expr(e))
                if and_sx[0] != "N" or and_sx[3] != "and" or and_sx[2] != [] or not and_sx[4] or and_sx[4][-1][3] != "stringend":
                    ctx.broken("correspondence:and_se (%r + StringEnd() is not an And ending in StringEnd: %r)" % (g, and_sx[:4]))
                    raise c16.NotExpressible("shape")
                kids = [c16.sx_to_coq(c) for c in and_sx[4][:-1]]
                se = and_sx[4][-1]
                if se[2] != []:
                    raise c16.NotExpressible("ignore on StringEnd")
                A = and_sx[1]
                and_t = "(Nary %s [] NAnd [%s])" % (c16.attrs_coq(A), "; ".join(kids + ["(Tok %s [] KStringEnd)" % c16.attrs_coq(se[1])]))
                root_t = c16.sx_to_coq(root_sx)
                if pre_streamlined:
                    model_t = "(and_se %s %s %s DWS %s)" % (A[1], se[1][1], A[13], root_t)
                else:
                    model_t = "(and_se_gen %s %s %s DWS %s %s %s)" % (A[1], se[1][1], A[13], c16._b(A[5]), c16._chars(A[6]), root_t)
                both.append("if expr_eq_dec %s %s then true else false" % (model_t, and_t))
        except (dump.Unsupported, build.Unbuildable, c16.NotExpressible, RecursionError):
            ctx.stat("and_se_skipped")
            continue
        terms.extend(both)
        keys.extend([(g, "and_se_gen / not streamlined before +"), (g, "and_se / streamlined before +")])
    if not terms:
        return
    try:
        res = vlib.coq_eval_terms("c08_and_se", AND_SE_PREAMBLE, terms)
    except RuntimeError as ex:
        ctx.broken("correspondence:and_se (model evaluation failed: %s)" % str(ex)[-300:])
        return
    for (g, which), r in zip(keys, res):
        same = r is True
        ctx.case("and_se:%r:%s" % (g, which), True, same)
        if not same:
            ctx.broken("correspondence:and_se (Model/EntryExtra.v %s differs from the real `expr + StringEnd()` for %r)" % (which, g))
    ctx.stat("and_se_compared", len(keys))


def settings_sequence(ctx):
    """the entry points must agree for a grammar built AFTER the default whitespace was changed, whatever was parsed before the
    change (parse_string builds its end-of-text test per call)"""
    import pyparsing as pp
    saved = pp.ParserElement.DEFAULT_WHITE_CHARS
    try:
        for first in ("parse_all", "matches", "eq", "none"):
            pp.ParserElement.set_default_whitespace_chars(saved)
            w0 = pp.Word("ab")
            if first == "parse_all":
                w0.parse_string("ab", parse_all=True)
            elif first == "matches":
                w0.matches("ab")
            elif first == "eq":
                w0 == "ab"
            for ws in (" \t", " ", " \n"):
                pp.ParserElement.set_default_whitespace_chars(ws)
                e = pp.OneOrMore(pp.Word("ab"))
                for inp in ("ab ba\n", "ab ba\t", "ab\nba", "ab ba", " ab"):
                    pa = outcome(lambda: e.parse_string(inp, parse_all=True).as_list())
                    se = outcome(lambda: (e + pp.StringEnd()).parse_string(inp).as_list())
                    m = outcome(lambda: e.matches(inp))
                    ctx.case("settings-seq|%s|%r|%r" % (first, ws, inp), True, True)
                    if (pa[0] == "ok") != (se[0] == "ok") or m != ("ok", pa[0] == "ok"):
                        ctx.violation("settings-sequence:%s|%r|%r" % (first, ws, inp),
                                      "after a first %s call, set_default_whitespace_chars(%r) and a grammar built afterwards: on %r parse_all gives %r, (expr + StringEnd()) gives %r, matches gives %r" % (
                                          first, ws, inp, pa, se, m), {"kind": "settings-seq"})
    finally:
        pp.ParserElement.set_default_whitespace_chars(saved)


def correspond(ctx):
    # entry points are independent of what the same grammar object was asked before (tools/harness/history.py)
    history.run(ctx, 'C08', list(history.MODES), 250 if not ctx.thorough else 2500, mode_switches=False, seed_salt=8)
    corr.ensure_driver()
    rng = ctx.rng
    n = 400 if not ctx.thorough else 3000
    cases = [rand_case(rng, i) for i in range(n)]
    # fixed shapes: zero-width matches, match at end of text, trailing ignorables
    cases += [(("empty",), {}, ["", "a", " a "], False), (("stringend",), {}, ["", "ab"], False), (("opt", gen.A), {}, ["a", "b a"], False),
              (("ignore", ("star", ("word", "ab")), ("and", ("lit", "#"), ("word", "ab"))), {}, ["a #b", "a #b ", "#a b"], True),
              (("word", "ab"), {}, ["a\tb", "\ta", "a\t"], False), (("lineend",), {}, ["a\nb", "\n"], False),
              # top-level expressions that do NOT skip whitespace and whose whitespace set is not the default one: the scan's own
              # pre-skip (always_skip_whitespace) must use the expression's set
              (("and", ("linestart",), ("lineend",)), {}, ["a\n\nb\n\n\nc", "\n\n", "a\nb", "\n a\n\n"], False),
              (("leavews", ("setws", " ", ("word", "ab"))), {}, ["a\nb", "\na", "a \n b", "\n\nab"], False),
              (("leavews", ("setws", "\n", ("mf", ("lit", " "), ("word", "ab")))), {}, ["a b", " a", "\n a\n b"], False),
              (("and", ("leavews", ("setws", "\t", ("lineend",))), ("opt", ("word", "ab"))), {}, ["a\n\nb", "\n\t\nab"], False)]
    entries = [("parse", False), ("parse", True), ("scan", None, False, True), ("scan", 2, False, True), ("scan", None, True, True),
               ("scan", None, False, False), ("transform",)]
    groups = [(g, env, inputs, [("none",)], entries) for (g, env, inputs, _) in cases]
    settings_sequence(ctx)
    overlap_fixed(ctx)
    stats = {}
    recs = corr.run_groups(groups, stats=stats)
    ctx.coverage_extra["class_histogram"] = stats.get("classes", {})
    pcommon.outcome_hist(ctx, recs)
    pcommon.model_agreement(ctx, recs, "entry-outcomes")
    for r in recs:
        nt = r["real"][0] == "scan" and len(r["real"][1]) >= 1 and len(r["inp"]) >= 2
        ctx.case(pcommon.key_of(r), nt, r.get("agree", True))
    opts = {"scan": [(None, False), (2, False), (None, True)], "split": [None, 1]}
    nbad = 0
    for (g, env, inputs, has_ignore) in cases:
        for inp in inputs:
            try:
                bad = with_timeout(lambda: oracle(g, env, inp, opts, has_ignore), None, 3.0)
            except build.Unbuildable:
                continue
            ctx.case("oracle:%r|%r" % (g, inp), len(inp) >= 2, True)
            for (k, what) in (bad or []):
                nbad += 1
                ctx.violation(k if (":" in k) else "%s:%r|%r" % (k, g, inp), "%r on %r: %s" % (g, inp, what),
                              {"kind": "oracle", "grammar": g, "env": env, "input": inp, "ignore": has_ignore})
    ctx.stat("oracle_violations", nbad)
    # the And of the parse_all theorems is the real `expr + StringEnd()`
    fixed = [(("word", "ab"), {}), (("and", ("word", "ab"), ("lit", ",")), {}), (("white", " "), {}),
             (("or", ("and", ("group", ("white", " ")), ("lit", "a"), ("lit", "b")), ("mf", ("lit", "a"), ("lit", "c"))), {}),
             (("mf", ("lit", "a"), ("lit", "c")), {}), (("star", ("word", "ab")), {}), (("opt", gen.A), {}), (("empty",), {})]
    and_se_tie(ctx, fixed + [(g, env) for (g, env, _, has_ignore) in cases if not has_ignore])
    ctx.sample({"grammar": cases[0][0], "inputs": cases[0][2]})


def search(ctx, reasons):
    history.run(ctx, 'C08', list(history.MODES), 400 if not ctx.thorough else 4000, mode_switches=False, seed_salt=108)
    import random, time
    rng = random.Random(ctx.seed + 808)
    t0 = time.time()
    opts = {"scan": [(None, False), (2, False), (None, True)], "split": [None, 1]}
    i = 0
    while time.time() - t0 < (90 if not ctx.thorough else 600):
        i += 1
        g, env, inputs, has_ignore = rand_case(rng, i)
        for inp in inputs:
            try:
                bad = with_timeout(lambda: oracle(g, env, inp, opts, has_ignore), None, 3.0)
            except Exception:
                continue
            ctx.stat("search_cases")
            for (k, what) in (bad or []):
                ctx.violation(k if (":" in k) else "%s:%r|%r" % (k, g, inp), "%r on %r: %s" % (g, inp, what),
                              {"kind": "oracle", "grammar": g, "env": env, "input": inp, "ignore": has_ignore})
            if bad and any(k not in ctx.known for k, _ in bad):
                return


def _tuplify(x):
    return tuple(_tuplify(y) for y in x) if isinstance(x, list) else x


def replay(ctx, obj):
    r = obj["replay"]
    if r.get("kind") == "history":
        return history.replay(r)
    if r.get("kind") == "settings-seq":
        c2 = vlib.Ctx(PROP, "quick", 0)
        c2.known = {}
        settings_sequence(c2)
        for v in c2.violations:
            print(v["what"])
        return not c2.violations
    if r.get("kind") == "overlap-fixed":
        c2 = vlib.Ctx(PROP, "quick", 0)
        c2.known = {}
        overlap_fixed(c2)
        for v in c2.violations:
            print(v["what"])
        return not c2.violations
    if r.get("kind") == "oracle":
        g, env = _tuplify(r["grammar"]), {int(k): _tuplify(v) for k, v in (r.get("env") or {}).items()}
        bad = oracle(g, env, r["input"], {"scan": [(None, False), (2, False), (None, True)], "split": [None, 1]}, r.get("ignore", False))
        for k, what in bad or []:
            print(k, "::", what)
        return not bad
    print("replay names a broken proof/correspondence obligation: %r" % (r,))
    return False
