"""C09 — results are insensitive to inter-token whitespace and ignored comments."""
from tools import vlib
from tools.harness import gen, corr, pcommon, build, views

PROP = "C09"
GEN = []
RULE = ("metamorphic: seeded random grammars over adjacency-insensitive tokens (Literal, Word, CaselessLiteral, Char, punctuation; "
        "Group/Suppress/Opt/repetition/alternation/Forward recursion, names) plus the JSON-like and arithmetic example grammars; every "
        "accepted input x every token boundary (found from the real parse with Located-style recording) x whitespace strings "
        "{' ', '\\t', '\\n', '\\r', '  \\n'} and, after expr.ignore(comment), comment text: token list and names must not change; and the "
        "converse for Combine(adjacent=True): whitespace inserted between two pieces it matched contiguously must change the outcome; "
        "model vs implementation on the original and the modified inputs; non-trivial = insertion strictly inside the input")
TRUSTED = pcommon.TRUSTED_PARSE

WS = [" ", "\t", "\n", "\r", "  \n"]
LEAVES = [("lit", "a"), ("lit", "ab"), ("word", "ab"), ("word", "a", "b"), ("clit", "aB"), ("char", "ab"), ("lit", ","), ("lit", "("), ("lit", ")"),
          ("fwd", 0)]
ENV = {0: ("mf", ("group", ("and", ("lit", "("), ("star", ("fwd", 0)), ("lit", ")"))), ("word", "ab"))}


def rand_grammar(rng, depth):
    def go(d):
        if d <= 1 or rng.random() < 0.2:
            g = rng.choice(LEAVES)
        else:
            r = rng.random()
            if r < 0.4:
                g = ("and",) + tuple(go(d - 1) for _ in range(rng.choice([2, 3])))
            elif r < 0.55:
                g = ("mf",) + tuple(go(d - 1) for _ in range(2))
            elif r < 0.62:
                g = ("or",) + tuple(go(d - 1) for _ in range(2))
            else:
                u = rng.choice(["opt", "star", "plus", "group", "suppress", "dlist"])
                body = go(d - 1)
                if u in ("star", "plus") and gen.nullable(body, ENV):
                    body = ("and", ("lit", ","), body)
                g = ("dlist", body, ",") if u == "dlist" else (u, body)
        if rng.random() < 0.2:
            g = (rng.choice(["name", "namestar"]), rng.choice(["x", "y"]), g)
        return g
    return go(depth)


def example_grammars():
    import pyparsing as pp
    # JSON-like
    val = pp.Forward()
    string = pp.Word("ab")
    num = pp.Word("12")
    arr = pp.Group(pp.Suppress("[") + pp.Opt(pp.DelimitedList(val)) + pp.Suppress("]"))
    member = pp.Group(string("k") + pp.Suppress(":") + val("v"))
    obj = pp.Group(pp.Suppress("{") + pp.Opt(pp.DelimitedList(member)) + pp.Suppress("}"))
    val <<= string | num | arr | obj
    # arithmetic
    expr = pp.Forward()
    atom = num | pp.Group(pp.Suppress("(") + expr + pp.Suppress(")"))
    term = atom + pp.ZeroOrMore(pp.one_of("* /") + atom)
    expr <<= term + pp.ZeroOrMore(pp.one_of("+ -") + term)
    # a Combine(adjacent=False) region: whitespace and comments ARE skipped between its pieces (only adjacent=True forbids them)
    path = pp.Combine(pp.Word("ab") + pp.ZeroOrMore("." + pp.Word("ab")), adjacent=False)
    use = pp.OneOrMore(pp.Group(pp.Literal("@") + path("p") + pp.Suppress(";")))
    # one compound used in several NAMED COPIES (expr("name") copies the element) around a Forward that is defined afterwards;
    # the comment is registered once, on the finished grammar
    block = pp.Forward()
    handler = pp.Word("ab")("ev") + block
    button = pp.Keyword("on") + pp.Group(handler("press")) + pp.Group(handler("release"))
    stmt = pp.Group(pp.Word("ab") + pp.Suppress("=") + pp.Word("12") + pp.Suppress(";")) | pp.Group(button) | pp.Group(block)
    block <<= pp.Suppress("{") + pp.ZeroOrMore(stmt) + pp.Suppress("}")
    prog = pp.OneOrMore(pp.Group(button))
    item = pp.Forward()
    pair = pp.Word("ab")("k") + pp.Suppress(":") + item
    both = pp.Group(pair("first")) + pp.Suppress(",") + pp.Group(pair.copy()) + pp.Suppress(",") + pp.Group(pair("third"))
    item <<= pp.Word("12") | pp.Group(pp.Suppress("(") + both + pp.Suppress(")"))
    # a repetition whose stop_on sentinel is a SEPARATE object from the element that follows it (ignore() does not reach the
    # sentinel) and also matches the repetition's body (F-09d)
    stop1 = pp.OneOrMore(pp.Word("ab"), stop_on=pp.Literal("ba")) + pp.Literal("ba") + pp.Suppress(";")
    stop2 = pp.Group(pp.ZeroOrMore(pp.Word("ab"), stop_on=pp.Keyword("b"))) + pp.Keyword("b") + pp.Word("12")
    return [("stop-on-separate-sentinel", stop1, ["a b ba;", "ab ba;"]), ("stop-on-separate-keyword", stop2, ["a ab b 1", "b 2"]),
            ("named-copies-forward", prog, ["on a{b=1;}b{a=2;}", "on a{}b{on b{}a{a=1;}}"]),
            ("named-copies-pair", both, ["a:1,b:2,a:12", "a:(a:1,b:2,b:1),b:2,a:1"]),
            ("json", val, ['{a:[1,2,{b:a}],b:12}', '[a,b,[1,[2]],{}]', 'ab']), ("arith", expr, ["1+2*(12-1)/2", "(1)", "1*2*2+1"]),
            ("combine-nonadjacent", use, ["@ab.ba;@a;", "@a.b.ab;"])]


def parse_view(e, s):
    import pyparsing as pp
    try:
        r = e.parse_string(s, parse_all=True)
        return ("ok", r.as_list(), r.as_dict())
    except pp.ParseBaseException as x:
        return ("fail",)
    except RecursionError:
        return ("div",)


def boundaries(e, s):
    """token boundaries of the accepted input: positions where a token starts or ends (from a copy of the grammar whose
    token elements record their start/end), excluding positions strictly inside a token"""
    import pyparsing as pp
    marks = set()
    c = e.copy()

    def instrument(x, seen):
        if id(x) in seen:
            return
        seen.add(id(x))
        for sub in x.recurse():
            instrument(sub, seen)
    # recording through scan of leaf tokens is intrusive; use the characters instead: a position is a boundary when it is not
    # between two alphanumeric characters
    n = len(s)
    for p in range(n + 1):
        left = s[p - 1] if p > 0 else " "
        right = s[p] if p < n else " "
        if not (left.isalnum() and right.isalnum()):
            marks.add(p)
    return sorted(marks)


class _T(BaseException):
    pass


def guarded(f, t=2.0):
    import signal

    def on(sig, frm):
        raise _T()
    old = signal.signal(signal.SIGPROF, on)
    try:
        try:
            signal.setitimer(signal.ITIMER_PROF, t, 0.25)
            return f()
        finally:
            signal.setitimer(signal.ITIMER_PROF, 0)
    except _T:
        return None
    finally:
        signal.signal(signal.SIGPROF, old)


def or_to_mf(g):
    if not isinstance(g, tuple):
        return g
    return tuple(("mf" if (i == 0 and x == "or") else or_to_mf(x)) for i, x in enumerate(g))


def explained_by_or(g, s, s2, ignore):
    """is the change caused by Or's longest-match counting whitespace that an empty-matching element skipped?
    (then the same grammar with every '^' replaced by '|' is insensitive to the insertion)"""
    import pyparsing as pp
    if g is None or "'or'" not in repr(g):
        return False
    try:
        e = build.Builder(ENV).build_all(or_to_mf(g))
        if ignore:
            e = e.ignore(pp.c_style_comment).ignore(pp.python_style_comment)
        return parse_view(e, s) == parse_view(e, s2)
    except Exception:
        return False


def metamorphic(ctx, name, e, e_ign, s, replay_obj, classify=None):
    """insert whitespace / comments at every boundary of an accepted input; returns number of checks"""
    base = parse_view(e, s)
    if base[0] != "ok":
        return 0
    n = 0
    for p in boundaries(e, s):
        for w in WS:
            s2 = s[:p] + w + s[p:]
            got = parse_view(e, s2)
            n += 1
            ctx.case("ws:%s|%r|%d|%r" % (name, s, p, w), nontrivial=0 < p < len(s), agreed=True)
            if got != base:
                key = "whitespace:%s|%r|%d|%r" % (name, s, p, w)
                if explained_by_or(replay_obj.get("grammar"), s, s2, False):
                    key = "whitespace:or-longest-counts-skipped-whitespace"
                ctx.violation(key,
                              "%s: inserting %r at %d of %r changes the result: %r -> %r" % (name, w, p, s, base[1:], got[1:] if got[0] == "ok" else got),
                              dict(replay_obj, input=s, pos=p, ins=w, kind="ws"))
        if e_ign is not None:
            base_i = parse_view(e_ign, s)
            for cm in ("/*c*/", " /* a b */ ", "#p\n/*c*/", " /*c*/ #p\n", "#p\n #q\n/*c*//*d*/"):
                s2 = s[:p] + cm + s[p:]
                got = parse_view(e_ign, s2)
                n += 1
                ctx.case("cm:%s|%r|%d|%r" % (name, s, p, cm), nontrivial=0 < p < len(s), agreed=True)
                if got != base_i:
                    key = "comment:%s|%r|%d|%r" % (name, s, p, cm)
                    if explained_by_or(replay_obj.get("grammar"), s, s2, True):
                        key = "whitespace:or-longest-counts-skipped-whitespace"
                    if classify is not None:
                        key = classify(s, p, key)
                    ctx.violation(key,
                                  "%s.ignore(c_style_comment).ignore(python_style_comment): inserting %r at %d of %r changes the result: %r -> %r" % (name, cm, p, s, base_i[1:], got[1:] if got[0] == "ok" else got),
                                  dict(replay_obj, input=s, pos=p, ins=cm, kind="comment"))
    return n


def combine_converse(ctx):
    """whitespace inside a Combine(adjacent=True) region must not be skipped"""
    import pyparsing as pp
    regions = [("combine-2", lambda: pp.Combine(pp.Word("ab") + pp.Word("12")), "ab12"),
               ("combine-3", lambda: pp.Combine(pp.Literal("a") + "-" + pp.Word("12")), "a-12"),
               ("combine-opt", lambda: pp.Combine(pp.Word("ab") + pp.Opt("." + pp.Word("12"))), "ab.12"),
               ("leavews", lambda: (pp.Word("ab") + pp.Word("12")).leave_whitespace(), "ab12")]
    for name, mk, s in regions:
        e = mk()
        base = parse_view(e, s)
        for p in range(1, len(s)):
            if s[p - 1].isalnum() and s[p].isalnum() and s[p - 1].isalpha() == s[p].isalpha():
                continue      # inside one token
            for w in WS:
                got = parse_view(e, s[:p] + w + s[p:])
                ctx.case("combine:%s|%d|%r" % (name, p, w), True, True)
                if got == base:
                    ctx.violation("combine:%s|%d|%r" % (name, p, w),
                                  "%s: whitespace %r inserted at %d of %r was skipped (same result %r)" % (name, w, p, s, base[1:]),
                                  {"kind": "combine", "name": name})


def shared_child_scenarios(ctx):
    """a token shared between a leave_whitespace()/Combine region and an ordinary whitespace-skipping rule (built with the API
    directly: the surface builder never shares children of in-place configured elements).  Inputs are given as pieces; whitespace
    is inserted between pieces (a tuple piece is a region that was matched contiguously and is kept atomic)."""
    import pyparsing as pp

    def sc_and():
        integer, ident = pp.Word("12"), pp.Word("ab")
        real = (integer + "." + integer).leave_whitespace()
        index = ident + "[" + integer + "]"
        return ident + "=" + (real | index | integer) + ";"

    def sc_mf():
        integer, ident = pp.Word("12"), pp.Word("ab")
        tight = pp.Literal("#") + (integer | ident).leave_whitespace()
        return pp.OneOrMore(pp.Group(tight | (ident + ":" + integer)))

    def sc_combine():
        integer, ident = pp.Word("12"), pp.Word("ab")
        real = pp.Combine(integer + "." + integer)
        return pp.DelimitedList(pp.Group(ident + "(" + (real | integer) + ")"))

    def sc_fwd():
        integer = pp.Word("12")
        e = pp.Forward()
        pair = (integer + "-" + integer).leave_whitespace()
        e <<= pp.Group("(" + e + ")") | pair | integer
        return pp.OneOrMore(e + pp.Opt(","))

    def sc_or_each():
        integer, ident = pp.Word("12"), pp.Word("ab")
        tight = (ident ^ integer).leave_whitespace()
        return (pp.Literal("@") + tight) | (ident & integer)

    table = [("shared:and.leave_whitespace", sc_and, [["a", "=", "b", "[", "12", "]", ";"], ["a", "=", ("1.2", "nolead"), ";"], ["a", "=", "12", ";"]]),
             ("shared:matchfirst.leave_whitespace", sc_mf, [["a", ":", "1", "b", ":", "2"], [("#1",), "b", ":", "1"]]),
             ("shared:combine", sc_combine, [["a", "(", "1", ")", ",", "b", "(", ("1.2",), ")"]]),
             ("shared:forward.leave_whitespace", sc_fwd, [["(", "1", ")", ",", ("1-2", "nolead"), ",", "(", "(", "2", ")", ")"]]),
             ("shared:or.leave_whitespace", sc_or_each, [["a", "1"], ["1", "a"], [("@a",)]])]
    n = 0
    for name, mk, inputs in table:
        e = mk()
        for pieces in inputs:
            flat = [p[0] if isinstance(p, tuple) else p for p in pieces]
            nolead = {i for i, p in enumerate(pieces) if isinstance(p, tuple) and "nolead" in p}      # a leave_whitespace() region does not skip in front of itself
            s = "".join(flat)
            base = parse_view(e, s)
            ctx.case("%s|%r" % (name, s), True, True)
            if base[0] != "ok":
                ctx.violation("%s|%r|reject" % (name, s), "%s: the unspaced input %r is not accepted" % (name, s), {"kind": "shared", "name": name})
                continue
            for i in range(len(flat) + 1):
                for w in WS:
                    s2 = "".join(flat[:i]) + w + "".join(flat[i:])
                    if i in nolead:
                        continue
                    got = parse_view(e, s2)
                    n += 1
                    if got != base:
                        ctx.violation("%s|%r|%d|%r" % (name, s, i, w),
                                      "%s: inserting %r before piece %d of %r changes the result: %r -> %r" % (name, w, i, flat, base[1:], got[1:] if got[0] == "ok" else got),
                                      {"kind": "shared", "name": name})
            # the converse: whitespace inside a region is never skipped
            for p in pieces:
                if isinstance(p, tuple):
                    r = p[0]
                    for k in range(1, len(r)):
                        if r[k - 1].isalnum() and r[k].isalnum():
                            continue
                        s2 = s.replace(r, r[:k] + " " + r[k:], 1)
                        got = parse_view(e, s2)
                        n += 1
                        if got == base:
                            ctx.violation("%s|%r|inside" % (name, s), "%s: whitespace inserted inside the region %r of %r was skipped" % (name, r, s),
                                          {"kind": "shared", "name": name})
    ctx.stat("shared_child_checks", n)


def ignore_returns_element(ctx):
    """`expr.ignore(comment)` is used as an expression throughout the property (and by this check): every class's ignore() must
    hand back the element it configured (F-09c: SkipTo.ignore returned None; fixed in /repo c1db87a)"""
    import pyparsing as pp
    W = lambda: pp.Word("ab")
    mk = {"Word": W, "Literal": lambda: pp.Literal("a"), "And": lambda: W() + W(), "MatchFirst": lambda: W() | "1", "Or": lambda: W() ^ "1",
          "Each": lambda: W() & pp.Literal("1"), "Opt": lambda: pp.Opt(W()), "ZeroOrMore": lambda: pp.ZeroOrMore(W()), "OneOrMore": lambda: pp.OneOrMore(W()),
          "Group": lambda: pp.Group(W()), "Suppress": lambda: pp.Suppress(W()), "Combine": lambda: pp.Combine(W() + W()), "Dict": lambda: pp.Dict(pp.Group(W() + W())),
          "Located": lambda: pp.Located(W()), "NotAny": lambda: ~W(), "FollowedBy": lambda: pp.FollowedBy(W()), "PrecededBy": lambda: pp.PrecededBy(W()),
          "SkipTo": lambda: pp.SkipTo(pp.LineEnd()), "SkipTo.include": lambda: pp.SkipTo(W(), include=True), "Forward": lambda: pp.Forward(W()),
          "DelimitedList": lambda: pp.DelimitedList(W()), "AtLineStart": lambda: pp.AtLineStart(W()), "Regex": lambda: pp.Regex("a+"),
          "QuotedString": lambda: pp.QuotedString('"'), "IndentedBlock": lambda: pp.IndentedBlock(W()), "nested_expr": lambda: pp.nested_expr()}
    for name, f in mk.items():
        for how, cm in (("element", lambda: pp.c_style_comment), ("string", lambda: "#")):
            e = f()
            try:
                r = e.ignore(cm())
            except Exception as x:
                r = x
            ctx.case("ignore-returns:%s:%s" % (name, how), True, True)
            if r is not e:
                ctx.violation("ignore-returns:%s" % name, "%s.ignore(%s) returned %r instead of the element" % (name, how, r), {"kind": "ignore-returns"})


def adjacency_scenarios(ctx):
    """tokens that look at their neighbours are sensitive to REMOVING whitespace between tokens (F-09)"""
    import pyparsing as pp
    g = pp.Group(pp.Keyword("a") + "b") | (pp.Literal("a") + "b")
    a, b = parse_view(g, "a b"), parse_view(g, "ab")
    ctx.case("adjacency:keyword", True, True)
    if a != b:
        ctx.violation("whitespace:keyword-adjacency",
                      "Group(Keyword('a')+'b') | Literal('a')+'b': %r on 'a b' but %r on 'ab'" % (a[1:], b[1:]),
                      {"kind": "adjacency"})


def correspond(ctx):
    from tools.harness import synonyms
    synonyms.check(ctx, {"leaveWhitespace", "ignoreWhitespace", "setWhitespaceChars", "setDefaultWhitespaceChars", "parseWithTabs"}, 'whitespace')
    corr.ensure_driver()
    rng = ctx.rng
    import pyparsing as pp
    adjacency_scenarios(ctx)
    n = 160 if not ctx.thorough else 1500
    groups, nchecks = [], 0
    for i in range(n):
        g = rand_grammar(rng, rng.randint(2, 5))
        inputs = sorted({gen.sample_input(rng, g, ENV) for _ in range(3)})
        mod = []
        for s in inputs:
            for _ in range(2):
                p = rng.randint(0, len(s))
                mod.append(s[:p] + rng.choice(WS) + s[p:])
        groups.append((g, ENV, sorted(set(inputs + mod))[:8], [("none",)], [("parse", True)]))
        try:
            e = build.Builder(ENV).build_all(g)
            e_ign = build.Builder(ENV).build_all(g).ignore(pp.c_style_comment).ignore(pp.python_style_comment) if i % 3 == 0 else None
        except build.Unbuildable:
            continue
        for s in inputs:
            k = guarded(lambda: metamorphic(ctx, repr(g), e, e_ign, s, {"grammar": g}), 5.0)
            nchecks += k or 0
    for name, e, inputs in example_grammars():
        e_ign = e.copy().ignore(pp.c_style_comment).ignore(pp.python_style_comment)
        for s in inputs:
            nchecks += guarded(lambda: metamorphic(ctx, name, e, e_ign, s, {"example": name}), 20.0) or 0
    # ignore() registered on a Forward BEFORE it receives its body (`f.ignore(c); f <<= ...`) must work like ignore() afterwards
    def arith(pre):
        num = pp.Word("12")
        expr = pp.Forward()
        if pre:
            expr.ignore(pp.c_style_comment).ignore(pp.python_style_comment)
        atom = num | pp.Group(pp.Suppress("(") + expr + pp.Suppress(")"))
        expr <<= atom + pp.ZeroOrMore(pp.one_of("+ -") + atom)
        return expr

    def listf(pre):
        item = pp.Forward()
        if pre:
            item.ignore(pp.c_style_comment).ignore(pp.python_style_comment)
        item <<= pp.Word("ab") | pp.Group(pp.Suppress("[") + pp.Opt(pp.DelimitedList(item)) + pp.Suppress("]"))
        return item
    # (F-09e: such an ignore() stays on the Forward and never reaches the body it receives later - nor is it consulted where an
    #  enclosing sequence enters the Forward without pre-parsing; what must still hold is that the ignorable is skipped where
    #  parse_string itself enters the Forward: at the front of the text)
    def before_define_key(s, p, key):
        return key if p == 0 else "comment:ignore-before-define:not-propagated-into-the-body"
    for name, mk, inputs in (("ignore-before-define:arith", arith, ["(1+2)-(1)", "1+(2-(1))"]), ("ignore-before-define:list", listf, ["[a,[b,ab],[]]", "ab"])):
        for s_ in inputs:
            nchecks += guarded(lambda: metamorphic(ctx, name, mk(False), mk(True), s_, {"example": name}, classify=before_define_key), 20.0) or 0
    combine_converse(ctx)
    shared_child_scenarios(ctx)
    ignore_returns_element(ctx)
    stats = {}
    recs = corr.run_groups(groups, stats=stats)
    ctx.coverage_extra["class_histogram"] = stats.get("classes", {})
    pcommon.outcome_hist(ctx, recs)
    pcommon.model_agreement(ctx, recs, "whitespace-outcomes")
    ctx.stat("metamorphic_checks", nchecks)
    ctx.sample({"example": "json", "input": '{a:[1,2,{b:a}],b:12}', "inserted": "  \n", "at": 3})


def search(ctx, reasons):
    import random, time
    import pyparsing as pp
    rng = random.Random(ctx.seed + 909)
    t0 = time.time()
    while time.time() - t0 < (90 if not ctx.thorough else 600):
        g = rand_grammar(rng, rng.randint(2, 6))
        try:
            e = build.Builder(ENV).build_all(g)
            e_ign = build.Builder(ENV).build_all(g).ignore(pp.c_style_comment)
        except Exception:
            continue
        before = len(ctx.violations)
        for s in {gen.sample_input(rng, g, ENV) for _ in range(3)}:
            guarded(lambda: metamorphic(ctx, repr(g), e, e_ign, s, {"grammar": g}), 5.0)
        ctx.stat("search_grammars")
        if len(ctx.violations) > before:
            return


def _tuplify(x):
    return tuple(_tuplify(y) for y in x) if isinstance(x, list) else x


def replay(ctx, obj):
    import pyparsing as pp
    r = obj["replay"]
    if r.get("kind") in ("ws", "comment"):
        if "grammar" in r:
            e = build.Builder(ENV).build_all(_tuplify(r["grammar"]))
        elif str(r.get("example", "")).startswith("ignore-before-define"):
            print("re-run `./check C09`: the example %r is rebuilt by correspond()" % r["example"])
            return False
        else:
            e = [x for x in example_grammars() if x[0] == r["example"]][0][1]
        if r["kind"] == "comment":
            e = e.copy().ignore(pp.c_style_comment).ignore(pp.python_style_comment)
        s, p, w = r["input"], r["pos"], r["ins"]
        a, b = parse_view(e, s), parse_view(e, s[:p] + w + s[p:])
        print(a, b)
        return a == b
    if r.get("kind") == "adjacency":
        c2 = vlib.Ctx(PROP, "quick", 0)
        c2.known = {}
        adjacency_scenarios(c2)
        for v in c2.violations:
            print(v["what"])
        return not c2.violations
    if r.get("kind") == "ignore-returns":
        c2 = vlib.Ctx(PROP, "quick", 0)
        c2.known = {}
        ignore_returns_element(c2)
        for v in c2.violations:
            print(v["what"])
        return not c2.violations
    if r.get("kind") == "shared":
        c2 = vlib.Ctx(PROP, "quick", 0)
        c2.known = {}
        shared_child_scenarios(c2)
        for v in c2.violations:
            print(v["what"])
        return not c2.violations
    if r.get("kind") == "combine":
        c2 = vlib.Ctx(PROP, "quick", 0)
        c2.known = {}
        combine_converse(c2)
        for v in c2.violations:
            print(v["what"])
        return not c2.violations
    print("replay names a broken proof/correspondence obligation: %r" % (r,))
    return False
