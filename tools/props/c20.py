"""C20 -- railroad diagram generation terminates and is referentially intact.

Correspondence: surface grammars (enumerated shapes + seeded random graphs) are built as REAL pyparsing objects; the real
pyparsing.diagram.to_railroad / railroad_to_html / ParserElement.create_diagram run against a structural stand-in of the
absent `railroad` package (tools/stubs/railroad.py, on sys.path only inside this harness); the object graph is dumped
(ids = object identity, class tag, names, children = recurse()) and handed to the Coq model Model/Diagram.v, whose output
(list of named diagrams: name, index, bookmark, item tree; recursion depth) is compared structurally with the
implementation's.  The property oracle is evaluated on the implementation's output; a violation that the faithful model
predicts as well gets the stable class key `model-predicted:<class>` (known findings); anything else gets a key naming
the concrete grammar.
"""
import itertools, json, os, signal, sys
from tools import vlib

PROP = "C20"
GEN = ["gen_diagram"]
RULE = ("enumerated minimal shapes (every element class, recursion through named/unnamed Forward, shared sub-expressions, "
        "helpers) + seeded random grammar graphs, each x option tuples (vertical, show_results_names, show_groups, show_hidden) "
        "x {as built, streamlined}: real to_railroad on the railroad stand-in vs Model/Diagram.v (names, indices, bookmarks, "
        "item trees, hrefs, RecursionError <-> model depth), property oracle on the implementation, railroad_to_html / "
        "create_diagram smoke; non-trivial = graph has a Forward cycle or a shared sub-expression or >= 2 output diagrams")
TRUSTED = [
    "tools/stubs/railroad.py: structural stand-in for the absent railroad-diagrams package (records constructor arguments, "
    "same constructor signatures, no layout); real rendering to SVG is NOT exercised",
    "jinja2: the real jinja2 installed in /venv is used by railroad_to_html; tools/stubs/fallback/jinja2.py is a minimal "
    "stand-in used only if jinja2 cannot be imported",
    "tools/props/c20.py graph dump: class tag by the isinstance chain of _to_diagram_element, element.recurse(), customName, "
    "resultsName, modalResults, show_in_diagram, default_name, Regex.pattern are read off the real objects",
    "Model/Diagram.v py_repr (repr of a results name without quotes/backslashes), lower/is_alpha (ASCII), dec/fmt4 (str(int), "
    ":04d) stand for the CPython string operations; compared with CPython on every run through bookmarks and labels",
]
EXPLANATION = ("partial: the real railroad/jinja2 rendering is replaced by a stand-in; OneOrMore/ZeroOrMore with stop_on "
               "(converter builds fresh elements) is oracle-only")

STUBS = os.path.join(vlib.VERIF, "tools", "stubs")
FUEL = 600            # model fuel: 600 nested _to_diagram_element calls = 1200 Python frames > recursion limit 1000
FUZZY_LO, FUZZY_HI = 400, 520   # model depths for which RecursionError on the implementation is not predicted


# ------------------------------------------------------------------------------------------------------------------
# stand-in installation
# ------------------------------------------------------------------------------------------------------------------
_D = None


def diagram_module():
    """import pyparsing.diagram with the railroad stand-in (and real jinja2, or the fallback stand-in)"""
    global _D
    if _D is not None:
        return _D
    old = sys.modules.get("railroad")
    if old is not None and not getattr(old, "__stand_in__", None):
        for k in [k for k in sys.modules if k == "railroad" or k.startswith("railroad.")]:
            del sys.modules[k]
    sys.path.insert(0, STUBS)
    try:
        try:
            import jinja2  # noqa: F401  (the real one when installed)
        except ImportError:
            sys.path.insert(1, os.path.join(STUBS, "fallback"))
        import railroad
        assert getattr(railroad, "__stand_in__", None), "railroad stand-in not picked up"
        import pyparsing.diagram as D
    finally:
        sys.path.remove(STUBS)
    assert D.railroad is railroad
    _D = D
    return D


def reset_bookmarks(D):
    if hasattr(D, "_bookmark_lookup"):
        D._bookmark_lookup.clear()
    if hasattr(getattr(D, "_make_bookmark", None), "cache_clear"):
        D._make_bookmark.cache_clear()
    D._bookmark_ids = itertools.count(start=1)


# ------------------------------------------------------------------------------------------------------------------
# surface grammars -> real pyparsing objects
#   spec = list of node dicts; node i refers to nodes by index; {"op": "Forward", "body": j} may refer to any index
#   (cycles); every other op only to smaller indices.  Attributes: name, rname ("x" or "x*"), hide.
# ------------------------------------------------------------------------------------------------------------------
LEAF_OPS = ("Lit", "Word", "Regex", "Keyword", "Empty", "NoMatch", "Tag", "StringEnd", "LineStart", "CharsNotIn",
            "QuotedString", "OneOf", "OneOfWords", "Number")
UNARY_OPS = ("Opt", "ZeroOrMore", "OneOrMore", "NotAny", "FollowedBy", "PrecededBy", "Group", "Suppress", "Combine",
             "Dict", "Located", "SkipTo", "DelimitedList", "AtLineStart", "AtStringStart", "TokenConverter", "Mul3",
             "PendingSkip", "Infix", "Index2", "StopOn1", "StopOn0")
NARY_OPS = ("And", "Or", "MatchFirst", "Each", "Plus", "Pipe", "Ellipsis")


def build(spec):
    import pyparsing as pp
    objs = [None] * len(spec)
    for i, nd in enumerate(spec):
        if nd["op"] == "Forward":
            objs[i] = pp.Forward()
    for i, nd in enumerate(spec):
        op = nd["op"]
        k = [objs[j] for j in nd.get("kids", [])]
        a = nd.get("arg")
        if op == "Forward":
            e = objs[i]
        elif op == "Lit":
            e = pp.Literal(a)
        elif op == "Word":
            e = pp.Word(a)
        elif op == "Regex":
            e = pp.Regex(a)
        elif op == "Keyword":
            e = pp.Keyword(a)
        elif op == "Empty":
            e = pp.Empty()
        elif op == "NoMatch":
            e = pp.NoMatch()
        elif op == "Tag":
            e = pp.Tag(a)
        elif op == "StringEnd":
            e = pp.StringEnd()
        elif op == "LineStart":
            e = pp.LineStart()
        elif op == "CharsNotIn":
            e = pp.CharsNotIn(a)
        elif op == "QuotedString":
            e = pp.QuotedString(a)
        elif op == "OneOf":
            e = pp.one_of(a)
        elif op == "OneOfWords":
            e = pp.one_of(a, as_keyword=True)
        elif op == "Number":
            e = pp.common.number.copy()
        elif op == "And":
            e = pp.And(k)
        elif op == "Or":
            e = pp.Or(k)
        elif op == "MatchFirst":
            e = pp.MatchFirst(k)
        elif op == "Each":
            e = pp.Each(k)
        elif op == "Plus":
            e = k[0]
            for x in k[1:]:
                e = e + x
        elif op == "Pipe":
            e = k[0]
            for x in k[1:]:
                e = e | x
        elif op == "Ellipsis":
            e = k[0] + ... + k[1]
        elif op == "Opt":
            e = pp.Opt(k[0])
        elif op == "ZeroOrMore":
            e = pp.ZeroOrMore(k[0])
        elif op == "OneOrMore":
            e = pp.OneOrMore(k[0])
        elif op == "StopOn1":
            e = pp.OneOrMore(k[0], stop_on=pp.Literal("end"))
        elif op == "StopOn0":
            e = pp.ZeroOrMore(k[0], stop_on=pp.Literal("end"))
        elif op == "NotAny":
            e = pp.NotAny(k[0])
        elif op == "FollowedBy":
            e = pp.FollowedBy(k[0])
        elif op == "PrecededBy":
            e = pp.PrecededBy(k[0], retreat=3)
        elif op == "Group":
            e = pp.Group(k[0])
        elif op == "Suppress":
            e = pp.Suppress(k[0])
        elif op == "Combine":
            e = pp.Combine(k[0])
        elif op == "Dict":
            e = pp.Dict(k[0])
        elif op == "Located":
            e = pp.Located(k[0])
        elif op == "SkipTo":
            e = pp.SkipTo(k[0])
        elif op == "DelimitedList":
            e = pp.DelimitedList(k[0])
        elif op == "AtLineStart":
            e = pp.AtLineStart(k[0])
        elif op == "AtStringStart":
            e = pp.AtStringStart(k[0])
        elif op == "TokenConverter":
            e = pp.TokenConverter(k[0])
        elif op == "Mul3":
            e = k[0] * 3
        elif op == "Index2":
            e = k[0][2, ...]
        elif op == "PendingSkip":
            e = k[0] + ...
        elif op == "Infix":
            e = pp.infix_notation(k[0], [(pp.one_of("* /"), 2, pp.OpAssoc.LEFT), (pp.Literal("-"), 1, pp.OpAssoc.RIGHT)])
        else:
            raise ValueError("unknown op %r" % op)
        if nd.get("name") is not None and op != "Forward":
            e = e.set_name(nd["name"])
        if nd.get("hide"):
            e.show_in_diagram = False
        if nd.get("rname") and op != "Forward":
            rn = nd["rname"]
            e = e.set_results_name(rn[:-1], list_all_matches=True) if rn.endswith("*") else e.set_results_name(rn)
        objs[i] = e
    for i, nd in enumerate(spec):
        if nd["op"] == "Forward":
            if nd.get("body") is not None:
                objs[i] <<= objs[nd["body"]]
            if nd.get("name") is not None:
                objs[i].set_name(nd["name"])
            if nd.get("hide"):
                objs[i].show_in_diagram = False
    return objs


# ------------------------------------------------------------------------------------------------------------------
# graph dump of the real objects
# ------------------------------------------------------------------------------------------------------------------
def kind_of(e):
    import pyparsing as pp
    if isinstance(e, pp.And):
        return "KAnd"
    if isinstance(e, (pp.Or, pp.MatchFirst)):
        return "KOr"
    if isinstance(e, pp.Each):
        return "KEach"
    if isinstance(e, pp.NotAny):
        return "KNotAny"
    if isinstance(e, pp.FollowedBy):
        return "KFollowedBy"
    if isinstance(e, pp.PrecededBy):
        return "KPrecededBy"
    if isinstance(e, pp.Group):
        return "KGroup"
    if isinstance(e, pp.TokenConverter):
        return "KTokConv"
    if isinstance(e, pp.Opt):
        return "KOpt"
    if isinstance(e, pp.OneOrMore):
        return "KOneOrMore"
    if isinstance(e, pp.ZeroOrMore):
        return "KZeroOrMore"
    if isinstance(e, pp.Empty):
        return "KEmpty"
    if isinstance(e, (pp.Forward, pp.Located)):
        return "KFwd"
    if isinstance(e, pp.ParseElementEnhance):
        return "KEnh"
    if isinstance(e, pp.Regex):
        return "KRegex"
    return "KOther"


def dump_graph(root):
    """-> (nodes: list of dicts in discovery order, index of id(element)), unmodelled: reason or None"""
    import pyparsing as pp
    # DelimitedList._generateDefaultName streamlines its content as a side effect, which can flatten Ands elsewhere in
    # the graph: force every default name first (until the set of reachable objects is stable), then dump
    for _ in range(4):
        seen, stack = {}, [root]
        while stack:
            e = stack.pop()
            if id(e) in seen:
                continue
            seen[id(e)] = e
            e.default_name
            stack.extend(e.recurse())
    order, ids, unmodelled = [], {}, None
    stack = [root]
    while stack:
        e = stack.pop()
        if id(e) in ids:
            continue
        ids[id(e)] = len(order)
        order.append(e)
        for c in reversed(e.recurse()):
            stack.append(c)
    nodes = []
    for e in order:
        if isinstance(e, pp.core._MultipleMatch) and e.not_ender is not None:
            unmodelled = "stop_on"
        pat = ""
        if isinstance(e, pp.Regex):
            pat = e.pattern
            if "\n" in pat:
                unmodelled = "verbose regex"
        for s in (e.resultsName or ""):
            if s in "'\\" or not s.isprintable():
                unmodelled = "results name needing repr escapes"
        nodes.append({
            "kind": kind_of(e), "custom": e.customName, "rname": e.resultsName, "modal": bool(e.modalResults),
            "show": bool(e.show_in_diagram),
            "vis": not isinstance(e, (pp.ParseElementEnhance, pp.PositionToken, pp.And._ErrorStop)),
            "tname": type(e).__name__, "dname": e.default_name, "pat": pat,
            "kids": [ids[id(c)] for c in e.recurse()],
        })
    return nodes, unmodelled


def coq_opt_str(s):
    return "None" if s is None else "(Some %s)" % vlib.coq_str(s)


def coq_bool(b):
    return "true" if b else "false"


def coq_graph(nodes):
    rows = []
    for i, n in enumerate(nodes):
        rows.append("(%d, Build_node %s %s %s %s %s %s %s %s %s [%s])" % (
            i, n["kind"], coq_opt_str(n["custom"]), coq_opt_str(n["rname"]), coq_bool(n["modal"]), coq_bool(n["show"]),
            coq_bool(n["vis"]), vlib.coq_str(n["tname"]), vlib.coq_str(n["dname"]), vlib.coq_str(n["pat"]),
            ";".join(str(k) for k in n["kids"])))
    return "[" + ";\n ".join(rows) + "]"


def coq_opts(o):
    v = "None" if o["vertical"] is None else "(Some %d)" % o["vertical"]
    return "(Build_opts %s %s %s %s)" % (v, coq_bool(o["rnames"]), coq_bool(o["groups"]), coq_bool(o["hidden"]))


PREAMBLE = """From Coq Require Import List NArith Arith Bool.
From PP Require Import Model.Str Model.Diagram Model.DiagramEx Model.DiagramClass Gen.GenDiagram.
Import ListNotations.
Definition run (G : graph) (o : opts) (fuel : nat) :=
  match to_railroad G o REPEAT_FIX 0 fuel with
  | (Ok l, st) => (1, map (fun d => (od_name d, od_index d, od_bookmark d, od_item d)) l, c_maxdepth st, c_err st)
  | (OutOfFuel, st) => (0, [], c_maxdepth st, c_err st)
  end.
(* the result, and whether the graph belongs to the class of the positive theorems (Props/C20.v C20_*_partial on dag_class):
   the SAME definition the theorems quantify over, evaluated on the dumped graph (node 0 is the root) *)
Definition runc (G : graph) (o : opts) (fuel : nat) := (run G o fuel, dag_class G o 0).
"""


def model_runs(name, jobs, timeout=900):
    """jobs: list of (nodes, opts) -> list of canonical model results"""
    out = []
    SH = 250
    for s in range(0, len(jobs), SH):
        exprs = ["runc %s %s %d" % (coq_graph(n), coq_opts(o), FUEL) for n, o in jobs[s:s + SH]]
        res = vlib.coq_eval_terms("%s_%d" % (name, s // SH), PREAMBLE, exprs, timeout=timeout)
        out.extend(canon_model(r) for r in res)
    return out


# ------------------------------------------------------------------------------------------------------------------
# canonical forms
# ------------------------------------------------------------------------------------------------------------------
def S(l):
    return vlib.from_coq_str(l) if isinstance(l, list) else ("" if l in ("nil",) else l)


def canon_item_model(t):
    if t[0] == "IPlaceholder":
        k = t[1]
        k = k[0] if isinstance(k, tuple) else k
        return ("PH", {"PNone": "None", "PEmpty": "Empty", "PUnresolved": "Unresolved"}[k])
    assert t[0] == "INode", t
    f, kids = t[1], [canon_item_model(c) for c in t[2]]
    fn = f[0]
    if fn == "FTerminal":
        return ("T", S(f[1]))
    if fn == "FNonTerminal":
        return ("NT", S(f[1]), S(f[2]))
    if fn == "FAnnot":
        return ("Annot", S(f[1]), kids)
    if fn == "FGroup":
        lab = f[1]
        lab = None if lab in ("None", ("None",)) else S(lab[1])
        return ("Group", lab, kids)
    if fn == "FOneOrMore":
        rep = f[1]
        rep = None if rep in ("None", ("None",)) else S(rep[1])
        return ("1+", rep, kids)
    return ({"FSequence": "Seq", "FStack": "Stack", "FChoice": "Choice", "FHChoice": "HChoice", "FEach": "Each",
             "FOptional": "Opt", "FZeroOrMore": "0+"}[fn], kids)


def canon_model(r):
    ok, ds, depth, err, inclass = r        # Coq prints ((a, b, c, d), e) as (a, b, c, d, e)
    return {"ok": bool(ok), "depth": depth, "err": bool(err), "inclass": bool(inclass),
            "diagrams": [(S(d[0]), d[1], S(d[2]), canon_item_model(d[3])) for d in ds]}


def canon_item_impl(D, x):
    rr = D.railroad
    if x is None:
        return ("PH", "None")
    if isinstance(x, str):
        return ("PH", "Empty") if x == "" else ("PH", "str:" + x)
    if isinstance(x, D.EditablePartial):
        return ("PH", "Unresolved")
    kids = lambda l: [canon_item_impl(D, c) for c in l]
    if isinstance(x, D.EachItem):
        one = x.item
        ch = one.item if isinstance(one, rr.OneOrMore) else None
        if x.label != "[ALL]" or not isinstance(ch, rr.Choice) or ch.default != len(ch.items) - 1:
            return ("PH", "malformed EachItem")
        return ("Each", kids(ch.items))
    if isinstance(x, D.AnnotatedItem):
        return ("Annot", x.label, kids([x.item]))
    t = type(x)
    if t is rr.Terminal:
        return ("T", x.text)
    if t is rr.NonTerminal:
        return ("NT", x.text, x.href)
    if t is rr.Group:
        return ("Group", x.label, kids([x.item]))
    if t is rr.OneOrMore:
        return ("1+", x.repeat, kids([x.item]))
    if t is rr.ZeroOrMore:
        return ("0+", kids([x.item]))
    if t is rr.Optional:
        return ("Opt", kids([x.item]))
    if t is rr.Sequence:
        return ("Seq", kids(x.items))
    if t is rr.Stack:
        return ("Stack", kids(x.items))
    if t is rr.HorizontalChoice:
        return ("HChoice", kids(x.items))
    if t is rr.Choice:
        if x.default != 0:
            return ("PH", "Choice default %r" % (x.default,))
        return ("Choice", kids(x.items))
    return ("PH", "unexpected %s" % t.__name__)


class CaseTimeout(Exception):
    pass


def _alarm(signum, frame):
    raise CaseTimeout()


def impl_run(root, o, html=True):
    """run the real to_railroad; -> dict like canon_model plus 'exc', 'html_ok'"""
    D = diagram_module()
    reset_bookmarks(D)
    res = {"ok": False, "exc": None, "diagrams": [], "html": None}
    old = signal.signal(signal.SIGALRM, _alarm)
    signal.alarm(20)
    try:
        ds = D.to_railroad(root, vertical=o["vertical"], show_results_names=o["rnames"], show_groups=o["groups"],
                           show_hidden=o["hidden"])
        out = []
        for d in ds:
            if not isinstance(d, D.NamedDiagram):
                out.append((repr(d), -1, "", ("PH", "not a NamedDiagram")))
                continue
            dg = d.diagram
            if isinstance(dg, D.railroad.Diagram) and len(dg.items) == 1:
                it = canon_item_impl(D, dg.items[0])
            else:
                it = ("PH", "not a Diagram with one item")
            out.append((d.name, d.index, d.bookmark, it))
        res["ok"] = True
        res["diagrams"] = out
        if html:
            try:
                h = D.railroad_to_html(ds)
                res["html"] = h if isinstance(h, str) else repr(type(h))
                res["html_is_str"] = isinstance(h, str)
            except Exception as e:
                res["html_exc"] = "%s: %s" % (type(e).__name__, e)
    except RecursionError:
        res["exc"] = "RecursionError"
    except CaseTimeout:
        res["exc"] = "Timeout"
    except Exception as e:
        res["exc"] = "%s: %s" % (type(e).__name__, str(e)[:200])
    finally:
        signal.alarm(0)
        signal.signal(signal.SIGALRM, old)
    return res


# ------------------------------------------------------------------------------------------------------------------
# the property oracle (works on canonical output; used on the implementation AND on the model's prediction)
# ------------------------------------------------------------------------------------------------------------------
def walk(it):
    yield it
    if it[0] not in ("T", "NT", "PH"):
        for c in it[-1]:
            yield from walk(c)


def visible_tokens(nodes, o):
    """labels of token nodes that a conversion is supposed to show: reachable from the root without passing through an
    element hidden by show_in_diagram=False (unless show_hidden); unnamed Empty is deliberately skipped by the converter"""
    seen, out, stack = set(), [], [0]
    while stack:
        i = stack.pop()
        if i in seen:
            continue
        seen.add(i)
        n = nodes[i]
        bypassed = n["kind"] == "KFwd" and not n["custom"] and n["kids"]
        if not n["show"] and not o["hidden"] and not bypassed:
            continue
        if not n["kids"] and n["kind"] in ("KOther", "KRegex", "KEmpty"):
            if n["kind"] == "KEmpty" and not n["custom"]:
                continue
            out.append((i, n["pat"] if n["kind"] == "KRegex" else n["dname"]))
        stack.extend(n["kids"])
    return out


def oracle(nodes, o, out):
    """-> list of (class, detail) violations of C20 on a canonical output (exc / diagrams)"""
    v = []
    if out.get("exc") == "RecursionError" or (out.get("exc") is None and not out["ok"]):
        return [("recursion-error", "to_railroad raised RecursionError")]
    if out.get("exc"):
        return [("exception", out["exc"])]
    ds = out["diagrams"]
    root = nodes[0]
    if not ds:
        v.append(("empty-output", "to_railroad returned no diagram"))
    else:
        # the root is converted first (index 1); its diagram carries its customName if it has one
        if ds[0][1] != 1 or any(d[1] < ds[0][1] for d in ds) or (root["custom"] and ds[0][0] != root["custom"]):
            v.append(("root-not-first", "first diagram is %r (index %r), root is %r" % (ds[0][0], ds[0][1], root["custom"] or "")))
    bms = [d[2] for d in ds]
    if len(set(bms)) != len(bms):
        v.append(("duplicate-bookmark", repr(sorted(b for b in bms if bms.count(b) > 1))))
    names = [d[0] for d in ds]
    if len(set(names)) != len(names):
        v.append(("duplicate-name", repr(sorted(set(n for n in names if names.count(n) > 1)))))
    texts = set()
    for d in ds:
        for it in walk(d[3]):
            if it[0] == "NT":
                if not it[2].startswith("#") or it[2][1:] not in bms:
                    v.append(("dangling-href", "%r -> %r in diagram %r" % (it[1], it[2], d[0])))
            elif it[0] == "PH":
                v.append(("placeholder-" + it[1].split(":")[0].replace(" ", "-"), "in diagram %r" % (d[0],)))
            elif it[0] == "T":
                texts.add(it[1])
    if ds:
        for i, lab in visible_tokens(nodes, o):
            if lab not in texts:
                v.append(("token-not-shown", "node %d %r" % (i, lab)))
    if "html_exc" in out:
        v.append(("html-exception", out["html_exc"]))
    elif out.get("html") is not None:
        if not out.get("html_is_str"):
            v.append(("html-not-str", out["html"]))
        else:
            for b in bms:
                if ('id="%s"' % b) not in out["html"]:
                    v.append(("html-missing-bookmark", b))
    # one entry per class (first detail)
    seen, res = set(), []
    for c, dt in v:
        if c not in seen:
            seen.add(c)
            res.append((c, dt))
    return res


def model_as_output(m):
    """the model's prediction in the shape oracle() expects"""
    if not m["ok"] or 2 * m["depth"] > 1000:
        return {"ok": False, "exc": "RecursionError", "diagrams": []}
    return {"ok": True, "exc": None, "diagrams": m["diagrams"], "html": None}


# ------------------------------------------------------------------------------------------------------------------
# generators
# ------------------------------------------------------------------------------------------------------------------
def L(a, **k):
    return dict(op="Lit", arg=a, **k)


def N(op, *kids, **k):
    return dict(op=op, kids=list(kids), **k)


def F(body, **k):
    return dict(op="Forward", body=body, **k)


def enumerated_shapes():
    """(label, spec, root index): minimal shapes for every mechanism of the converter"""
    W = dict(op="Word", arg="abc")
    sh = []
    # --- recursion through Forward: unnamed / named at different places of the cycle
    paren = lambda **fk: [F(7, **fk), L("("), N("ZeroOrMore", 0), L(")"), N("And", 1, 2, 3), N("Group", 4), dict(W), N("MatchFirst", 5, 6)]
    sh.append(("f20-paren-unnamed", paren(), 0))
    sh.append(("paren-forward-named", paren(name="expr"), 0))
    s = paren(); s[5]["name"] = "group"
    sh.append(("paren-group-named", s, 0))
    s = paren(); s[7]["name"] = "alt"
    sh.append(("paren-alt-named", s, 0))
    s = paren(); s[2]["name"] = "many"
    sh.append(("paren-rep-named", s, 0))
    s = paren(); s[6]["name"] = "word"
    sh.append(("paren-only-token-named", s, 0))
    sh.append(("fwd-self", [F(0)], 0))
    sh.append(("fwd-self-named", [F(0, name="e")], 0))
    sh.append(("fwd-opt-self", [F(1), N("Opt", 0)], 0))
    sh.append(("fwd-opt-self-named-opt", [F(1), N("Opt", 0, name="o")], 0))
    sh.append(("fwd-empty", [dict(op="Forward", body=None)], 0))
    sh.append(("fwd-empty-named", [dict(op="Forward", body=None, name="todo")], 0))
    sh.append(("fwd-unnamed-root-nonrec", [F(3), L("a"), L("b"), N("And", 1, 2)], 0))
    sh.append(("fwd-named-root-nonrec", [F(3, name="top"), L("a"), L("b"), N("And", 1, 2)], 0))
    sh.append(("fwd-unnamed-root-named-body", [F(3), L("a"), L("b"), N("And", 1, 2, name="ab")], 0))
    sh.append(("located-unnamed-root", [L("a"), N("Located", 0)], 1))
    sh.append(("located-named", [L("a"), L("b"), N("And", 0, 1), N("Located", 2, name="loc")], 3))
    sh.append(("root-reentered", [F(4, name="s"), L("a"), N("And", 0, 1), L("b"), N("MatchFirst", 2, 3)], 2))
    sh.append(("root-reentered-named-root", [F(4, name="s"), L("a"), N("And", 0, 1, name="r"), L("b"), N("MatchFirst", 2, 3)], 2))
    sh.append(("two-forwards-mutual", [F(5, name="x"), F(7, name="y"), L("a"), L("b"), N("And", 1, 2), N("MatchFirst", 4, 2),
                                       N("And", 0, 3), N("MatchFirst", 6, 3), N("And", 0, 1)], 8))
    sh.append(("two-forwards-one-named", [F(5, name="x"), F(7), L("a"), L("b"), N("And", 1, 2), N("MatchFirst", 4, 2),
                                          N("And", 0, 3), N("MatchFirst", 6, 3), N("And", 0, 1)], 8))
    sh.append(("cycle-through-hidden", [F(3), L("a"), N("FollowedBy", 0, hide=True), N("And", 2, 1)], 0))
    sh.append(("json-like", [F(18, name="value"), dict(op="QuotedString", arg='"', name="string"), L("["), L("]"),
                             N("DelimitedList", 0), N("Opt", 4), N("And", 2, 5, 3), N("Group", 6, name="array"),
                             L(":"), N("And", 1, 8, 0), N("Group", 9), N("DelimitedList", 10), N("Opt", 11), L("{"), L("}"),
                             N("And", 13, 12, 14), N("Group", 15, name="object"), dict(op="Number"),
                             N("MatchFirst", 1, 7, 16, 17)], 0))
    # --- sharing
    sh.append(("shared-unnamed-twice", [L("a"), L("b"), N("And", 0, 1), N("Opt", 2), N("And", 2, 3, 2)], 4))
    sh.append(("shared-named-thrice", [L("a"), L("b"), N("And", 0, 1, name="ab"), N("Opt", 2), N("And", 2, 3, 2)], 4))
    sh.append(("shared-named-token", [dict(W, name="word"), N("Opt", 0), N("And", 0, 1, 0)], 2))
    sh.append(("shared-named-shallow", [L("a"), N("Opt", 0, name="maybe-a"), N("And", 1, 1)], 2))
    sh.append(("dag-shared-named", [L("a"), dict(W, name="word"), N("Opt", 0), N("And", 2, 1, name="item"), N("Group", 3),
                                    N("ZeroOrMore", 4), N("MatchFirst", 3, 5), N("And", 6, 3, 1)], 7))
    sh.append(("same-name-two-elements", [dict(W, name="x"), L("q"), N("And", 0, 1), N("Opt", 2), N("And", 0, 3, name="x")], 4))
    sh.append(("same-name-siblings", [L("a"), L("b"), N("Opt", 0, name="n"), N("Opt", 1, name="n"), N("And", 2, 3)], 4))
    # --- every class
    for op in UNARY_OPS:
        if op.startswith("StopOn"):
            continue
        sh.append(("unary-%s" % op, [dict(W), N(op, 0)], 1))
        sh.append(("unary-%s-named" % op, [dict(W), N(op, 0, name="U")], 1))
        sh.append(("unary-%s-deep" % op, [L("a"), L("b"), N("And", 0, 1), N(op, 2, rname="r"), L("c"), N("And", 3, 4)], 5))
        sh.append(("unary-%s-of-empty" % op, [dict(op="Empty"), N(op, 0), L("c"), N("And", 1, 2)], 3))
        sh.append(("unary-%s-of-empty-named" % op, [dict(op="Empty"), N(op, 0, name="U"), L("c"), N("And", 1, 2)], 3))
    for op in NARY_OPS:
        if op == "Ellipsis":
            continue
        for k in (1, 2, 3, 4):
            sh.append(("nary-%s-%d" % (op, k), [L("a"), dict(W), L("c"), L("d"), N(op, *range(k))], 4))
        sh.append(("nary-%s-empty-kids" % op, [dict(op="Empty"), dict(op="Empty"), N(op, 0, 1)], 2))
        sh.append(("nary-%s-empty-kids-named" % op, [dict(op="Empty"), dict(op="Empty"), N(op, 0, 1, name="E")], 2))
    sh.append(("nary-And-0", [N("And")], 0))
    sh.append(("nary-MatchFirst-0", [N("MatchFirst")], 0))
    sh.append(("nary-Each-0", [N("Each")], 0))
    for op in LEAF_OPS:
        a = {"Lit": "a", "Word": "abc", "Regex": r"\d+", "Keyword": "if", "Tag": "t", "CharsNotIn": ",", "QuotedString": "'",
             "OneOf": "a b c", "OneOfWords": "if then else"}.get(op)
        sh.append(("leaf-%s" % op, [dict(op=op, arg=a)], 0))
        sh.append(("leaf-%s-named" % op, [dict(op=op, arg=a, name="leaf")], 0))
        sh.append(("leaf-%s-in-and" % op, [dict(op=op, arg=a, rname="v*"), L("z"), N("And", 0, 1)], 2))
    sh.append(("ellipsis", [L("a"), L("b"), N("Ellipsis", 0, 1)], 2))
    sh.append(("ellipsis-alone-in-opt", [L("a"), L("b"), N("Ellipsis", 0, 1), N("Opt", 2)], 3))
    sh.append(("skipto-named-dots-only", [L("b"), N("SkipTo", 0, name="...")], 1))
    sh.append(("mul3", [dict(W), N("Mul3", 0)], 1))
    sh.append(("mul3-named-kid", [dict(W, name="w"), N("Mul3", 0)], 1))
    sh.append(("mul3-of-empty", [dict(op="Empty"), N("Mul3", 0)], 1))
    sh.append(("and-3-same-rname", [dict(W, rname="k"), N("And", 0, 0, 0)], 1))
    sh.append(("infix", [dict(op="Number"), N("Infix", 0)], 1))
    sh.append(("infix-named-base", [dict(W, name="operand"), N("Infix", 0)], 1))
    sh.append(("group-named-of-empty", [dict(op="Empty"), N("Group", 0, name="g"), L("a"), N("And", 1, 2)], 3))
    sh.append(("oneormore-of-hidden", [dict(op="Tag", arg="t"), N("OneOrMore", 0), L("a"), N("And", 1, 2)], 3))
    sh.append(("hidden-root", [dict(op="Tag", arg="t")], 0))
    sh.append(("hidden-named-shared", [L("a"), L("b"), N("And", 0, 1, name="h", hide=True), N("Opt", 2), N("And", 2, 3)], 4))
    sh.append(("rname-on-forward-bypass", [F(2, rname=None), L("a"), N("Opt", 1, rname="q")], 0))
    sh.append(("odd-names", [dict(W, name="1st word"), dict(W, name="--x--"), dict(W, name="Über"), dict(W, name="a.b/c"),
                             N("And", 0, 1, 2, 3, name="A B")], 4))
    sh.append(("names-colliding-after-sanitize", [dict(W, name="a b"), dict(W, name="a-b"), dict(W, name="A  B"),
                                                   N("And", 0, 1, 2)], 3))
    sh.append(("stop-on-1", [dict(W), N("StopOn1", 0), L("end"), N("And", 1, 2)], 3))
    # an unnamed Forward / Located whose content is an unnamed repetition with stop_on, inside a sequence: the link must
    # carry the name of the diagram that was extracted for the repetition
    sh.append(("fwd-over-stop-on", [dict(W), N("StopOn0", 0), F(1), L("["), L("]"), N("And", 3, 2, 4)], 5))
    sh.append(("fwd-over-stop-on-twice", [dict(W), N("StopOn0", 0), F(1), L("["), L("]"), N("And", 3, 2, 4, 2)], 5))
    sh.append(("located-over-stop-on", [dict(W), N("StopOn1", 0), N("Located", 1), L("end"), N("And", 2, 3)], 4))
    sh.append(("stop-on-0-twice", [dict(W), N("StopOn0", 0), L("x"), N("StopOn1", 2), N("And", 1, 3)], 4))
    return sh


def random_spec(rng, size=None):
    n = size or rng.randint(2, 12)
    names = ["A", "B", "expr", "term", "x y", "A", "...", "item-1"]
    spec = []
    nf = rng.choice([0, 1, 1, 1, 2, 2, 3])
    fpos = sorted(rng.sample(range(n), min(nf, n)))
    for i in range(n):
        if i in fpos:
            nd = dict(op="Forward", body=None)
        elif i == 0 or (i < 3 and rng.random() < 0.5) or rng.random() < 0.2:
            op = rng.choice(["Lit", "Lit", "Word", "Word", "Regex", "Empty", "Tag", "Keyword", "StringEnd", "Number", "OneOf"])
            a = {"Lit": rng.choice("abcd(),"), "Word": rng.choice(["abc", "xyz", "01"]), "Regex": rng.choice([r"\d+", "[a-f]+"]),
                 "Keyword": rng.choice(["if", "end"]), "Tag": "t", "OneOf": rng.choice(["a b", "< <= > >="])}.get(op)
            nd = dict(op=op, arg=a)
        else:
            pool = list(range(i))
            pick = lambda: rng.choice(pool[-4:] if rng.random() < 0.6 else pool)
            if rng.random() < 0.5:
                op = rng.choice(["And", "And", "MatchFirst", "MatchFirst", "Or", "Each", "Plus", "Pipe"])
                k = rng.choice([1, 2, 2, 2, 3, 3, 4])
                nd = dict(op=op, kids=[pick() for _ in range(k)])
                if rng.random() < 0.07:
                    nd = dict(op="Ellipsis", kids=[pick(), pick()])
            else:
                op = rng.choice(["Opt", "Opt", "ZeroOrMore", "OneOrMore", "Group", "Group", "Suppress", "NotAny", "FollowedBy",
                                 "Combine", "Dict", "Located", "SkipTo", "DelimitedList", "AtLineStart", "Mul3", "Index2",
                                 "PrecededBy", "TokenConverter"])
                nd = dict(op=op, kids=[pick()])
        if rng.random() < 0.28:
            nd["name"] = rng.choice(names)
        if rng.random() < 0.18 and nd["op"] != "Forward":
            nd["rname"] = rng.choice(["r", "key", "v*"])
        if rng.random() < 0.04:
            nd["hide"] = True
        spec.append(nd)
    for i in fpos:
        later = [j for j in range(i + 1, n)]
        r = rng.random()
        if later and r < 0.8:
            spec[i]["body"] = rng.choice(later)
        elif r < 0.95:
            spec[i]["body"] = rng.randrange(n)
    root = n - 1 if rng.random() < 0.7 else rng.randrange(n)
    return spec, root


def option_tuples(rng=None, k=None):
    allo = [dict(vertical=v, rnames=r, groups=g, hidden=h)
            for v in (3, 2, 0, None, 50) for r in (False, True) for g in (False, True) for h in (False, True)]
    if k is None:
        return allo
    return [allo[0]] + rng.sample(allo[1:], k - 1)


DEFAULT_OPTS = dict(vertical=3, rnames=False, groups=False, hidden=False)


# ------------------------------------------------------------------------------------------------------------------
# cases
# ------------------------------------------------------------------------------------------------------------------
def stopper_free_cycle(nodes, o):
    """is there a cycle, reachable from node 0, none of whose elements stops the converter's recursion?
    (an element stops it when it has a customName and is worth extracting, or is hidden and not by-passed)"""
    def has_kids(i):
        return bool(nodes[i]["kids"])

    def stopper(i):
        n = nodes[i]
        bypass = n["kind"] == "KFwd" and not n["custom"] and n["kids"]
        if bypass:
            return False
        worth = any(has_kids(c) for c in n["kids"])
        if n["custom"] and worth:
            return True
        if not n["show"] and not o["hidden"]:
            return True
        if n["kind"] == "KEmpty" and not n["custom"]:
            return True
        return False
    def blocks(i):      # never expanded at all
        n = nodes[i]
        bypass = n["kind"] == "KFwd" and not n["custom"] and n["kids"]
        return not bypass and ((not n["show"] and not o["hidden"]) or (n["kind"] == "KEmpty" and not n["custom"]))
    reach, stack = set(), [0]
    while stack:
        i = stack.pop()
        if i in reach:
            continue
        reach.add(i)
        if not blocks(i):
            stack.extend(nodes[i]["kids"])
    free = set(i for i in reach if not stopper(i))
    # cycle detection (iterative colouring) in the sub-graph induced by `free`
    color = {}
    for s in sorted(free):
        if s in color:
            continue
        color[s] = 1
        st = [(s, iter(nodes[s]["kids"]))]
        while st:
            i, it = st[-1]
            for c in it:
                if c not in free:
                    continue
                if color.get(c) == 1:
                    return True
                if c not in color:
                    color[c] = 1
                    st.append((c, iter(nodes[c]["kids"])))
                    break
            else:
                color[i] = 2
                st.pop()
    return False


def forward_only_cycle(nodes):
    """a cycle made of by-passed (unnamed, non-empty) Forward/Located elements only: e <<= e, a <<= b; b <<= a"""
    byp = [n["kind"] == "KFwd" and not n["custom"] and bool(n["kids"]) for n in nodes]
    for s in range(len(nodes)):
        if not byp[s]:
            continue
        i, steps = s, 0
        while byp[i] and steps <= len(nodes):
            i = nodes[i]["kids"][0]
            steps += 1
            if i == s:
                return True
    return False


def on_cycle(nodes, i):
    seen, stack = set(), list(nodes[i]["kids"])
    while stack:
        j = stack.pop()
        if j == i:
            return True
        if j not in seen:
            seen.add(j)
            stack.extend(nodes[j]["kids"])
    return False


def make_case(label, spec, root, o, streamline):
    return {"label": label, "spec": spec, "root": root, "opts": o, "streamline": streamline}


def run_case_impl(case, html=True):
    objs = build(case["spec"])
    root = objs[case["root"]]
    if case["streamline"]:
        root.streamline()
    nodes, unmodelled = dump_graph(root)
    impl = impl_run(root, case["opts"], html=html)
    return root, nodes, unmodelled, impl


def cause_of(cls, nodes, o, out, model=None):
    """refines a violation class by the grammar-shape condition that explains it on the unchanged tree"""
    if cls == "recursion-error":
        if forward_only_cycle(nodes):
            return "cycle-of-unnamed-forwards-only"
        if stopper_free_cycle(nodes, o):
            return "cycle-without-named-element"
        if model is not None and model["ok"]:
            return "deep-recursion-through-named-elements"
        return "other-cause"
    root = nodes[0]
    bypassed = root["kind"] == "KFwd" and not root["custom"] and bool(root["kids"])
    customs = [n["custom"] for n in nodes if n["custom"]]
    dup_names = len(set(customs)) != len(customs)
    has_ellipsis = "..." in customs
    if cls in ("root-not-first", "empty-output", "token-not-shown"):
        if bypassed:
            return "root-is-unnamed-forward"          # the root Forward/Located is by-passed: no root diagram is made
        if cls == "empty-output":
            return "root-converts-to-nothing"         # hidden / unnamed Empty / childless root
        if cls == "root-not-first" and not root["custom"] and on_cycle(nodes, 0):
            return "root-converted-twice"             # unnamed root re-entered through a named Forward
        if root["custom"] == "..." and cls != "token-not-shown":
            return "ellipsis-diagram-dropped"         # the root itself is called "..."
        if dup_names:
            return "diagram-dropped-by-name-dedup"    # two elements share a customName
        if has_ellipsis and (cls == "token-not-shown" or root["custom"] == "..."):
            return "ellipsis-diagram-dropped"
        return "other-cause"
    if cls == "dangling-href":
        bms = [d[2] for d in out["diagrams"]]
        bad = set(it[1] for d in out["diagrams"] for it in walk(d[3]) if it[0] == "NT" and it[2][1:] not in bms)
        return "ellipsis-diagram-dropped" if bad == {"..."} else "other-cause"
    return ""


def classify(ctx, case, nodes, unmodelled, impl, model, agreed):
    """report the oracle's verdict on the implementation; -> number of violations"""
    o = case["opts"]
    iv = oracle(nodes, o, impl)
    if not iv:
        return 0
    predicted = {}
    if model is not None and agreed:
        mo = model_as_output(model)
        predicted = dict(oracle(nodes, o, mo))
    for cls, detail in iv:
        cause = cause_of(cls, nodes, o, impl, model)
        tag = cls + (":" + cause if cause else "")
        if unmodelled == "stop_on" and cls == "token-not-shown":
            # the converter builds temporary elements for stop_on and keys its tables by id(): CPython may reuse the id
            key = "stop-on-temporaries:" + cls
        elif cls in predicted:
            key = "model-predicted:" + tag
        else:
            key = "unpredicted:%s:%s" % (tag, case_id(case))
        ctx.violation(key, "%s on grammar %s opts=%s streamline=%s: %s" % (
            cls, case["label"], json.dumps(o, sort_keys=True), case["streamline"], detail),
            {"kind": "case", "case": case})
        ctx.stat("oracle:" + tag)
    return len(iv)


def in_class_check(ctx, case, nodes, impl, m):
    """the tie of the positive theorems (C20_terminates_partial / _links_resolve_partial / _root_first_class_partial):
    Coq evaluated `dag_class` on this very graph; on a graph of the class the implementation-side oracle must find NO
    violation of any kind (an unknown key, so the check alarms), and the model must behave as the theorems say"""
    ctx.stat("class_dag:modelled_cases")
    if not m["inclass"]:
        return
    ctx.stat("class_dag:in_class")
    if len(impl["diagrams"]) >= 2:
        ctx.stat("class_dag:in_class_with_subdiagrams")
    bad = oracle(nodes, case["opts"], impl)
    for cls, detail in bad:
        ctx.violation("in-class:%s:%s" % (cls, case_id(case)),
                      "graph of the class dag_class (positive theorems apply) but the implementation violates C20: %s on "
                      "grammar %s opts=%s streamline=%s: %s" % (cls, case["label"], json.dumps(case["opts"], sort_keys=True),
                                                                 case["streamline"], detail), {"kind": "case", "case": case})
    if not bad:
        ctx.stat("class_dag:in_class_clean")
    # what the theorems state about the model on this graph
    if not m["ok"] or m["depth"] > len(nodes) + 1:
        ctx.broken("correspondence:class model run contradicts C20_terminates_partial on %s (ok=%s depth=%d nodes=%d)" % (
            case["label"], m["ok"], m["depth"], len(nodes)))
    elif oracle(nodes, case["opts"], model_as_output(m)):
        ctx.broken("correspondence:class model output violates the property on in-class graph %s: %r" % (
            case["label"], oracle(nodes, case["opts"], model_as_output(m))))


def case_id(case):
    import hashlib
    return hashlib.sha1(json.dumps([case["spec"], case["root"], case["opts"], case["streamline"]],
                                   sort_keys=True).encode()).hexdigest()[:10]


def agree(impl, model):
    """None if the model's prediction equals the implementation's observable behaviour, else a description"""
    if model["err"]:
        return "model flagged an internal error"
    m_rec = (not model["ok"]) or 2 * model["depth"] > 1000
    if impl["exc"] not in (None, "RecursionError"):
        return "implementation raised %s" % impl["exc"]
    i_rec = impl["exc"] == "RecursionError"
    if model["ok"] and FUZZY_LO <= model["depth"] <= FUZZY_HI:
        return None if i_rec else _diff(impl, model)
    if i_rec != m_rec:
        return "RecursionError impl=%s model=%s (model depth %d)" % (i_rec, m_rec, model["depth"])
    if i_rec:
        return None
    return _diff(impl, model)


def _diff(impl, model):
    a, b = impl["diagrams"], model["diagrams"]
    if a == b:
        return None
    if [d[:3] for d in a] != [d[:3] for d in b]:
        return "diagram list impl=%r model=%r" % ([d[:3] for d in a], [d[:3] for d in b])
    for x, y in zip(a, b):
        if x != y:
            return "diagram %r impl=%s model=%s" % (x[0], json.dumps(x[3])[:400], json.dumps(y[3])[:400])
    return "?"


def run_cases(ctx, cases, name, html=True):
    """-> list of (case, nodes, impl, model, disagreement)"""
    staged, jobs = [], []
    for c in cases:
        try:
            root, nodes, unmodelled, impl = run_case_impl(c, html=html)
        except Exception as e:
            ctx.broken("correspondence:builder %s on %s: %s" % (type(e).__name__, c["label"], str(e)[:200]))
            continue
        staged.append([c, nodes, unmodelled, impl, None])
        if unmodelled is None:
            jobs.append((len(staged) - 1, (nodes, c["opts"])))
    models = model_runs(name, [j for _, j in jobs]) if jobs else []
    for (i, _), m in zip(jobs, models):
        staged[i][4] = m
    out = []
    for c, nodes, unmodelled, impl, m in staged:
        dis = None
        if m is not None:
            dis = agree(impl, m)
            if dis:
                ctx.broken("correspondence:to_railroad model!=impl on %s opts=%s streamline=%s: %s" % (
                    c["label"], json.dumps(c["opts"], sort_keys=True), c["streamline"], dis[:600]))
                ctx.stat("disagreements")
        nv = classify(ctx, c, nodes, unmodelled, impl, m, m is not None and dis is None)
        if m is not None:
            in_class_check(ctx, c, nodes, impl, m)
        cyc = any(n["kind"] == "KFwd" for n in nodes)
        nontriv = cyc or len(impl["diagrams"]) >= 2 or len(nodes) >= 6
        ctx.case(case_id(c), nontriv, dis is None)
        ctx.stat("cases")
        ctx.stat("cases_modelled" if m is not None else "cases_oracle_only")
        if impl["exc"] == "RecursionError":
            ctx.stat("impl_recursion_errors")
        if nv:
            ctx.stat("cases_with_violation")
        out.append((c, nodes, impl, m, dis))
    return out


# ------------------------------------------------------------------------------------------------------------------
# plugin entry points
# ------------------------------------------------------------------------------------------------------------------
FIXED_OPTS = [DEFAULT_OPTS,
              dict(vertical=2, rnames=True, groups=True, hidden=False),
              dict(vertical=0, rnames=False, groups=False, hidden=True),
              dict(vertical=None, rnames=True, groups=False, hidden=True)]


def quadratic_family(k, m):
    """Opt^(k-1)(And(s_0..s_{m-1})), s_j = Forward named s_j whose body is the outermost Opt: every cycle is named,
    the pinned converter nests about (k+1)*(m+1) calls"""
    spec = [dict(op="Forward", body=None, name="s%d" % j) for j in range(m)]
    spec.append(N("And", *range(m)))
    for _ in range(k - 1):
        spec.append(N("Opt", len(spec) - 1))
    top = len(spec) - 1
    for j in range(m):
        spec[j]["body"] = top
    return spec, top


def all_cases(ctx, n_random, n_opts):
    cases = []
    for lab, spec, root in enumerated_shapes():
        for o in FIXED_OPTS:
            cases.append(make_case(lab, spec, root, o, False))
        cases.append(make_case(lab, spec, root, DEFAULT_OPTS, True))
    for k, m in ((3, 3), (22, 22)):
        spec, root = quadratic_family(k, m)
        cases.append(make_case("named-quadratic-%d-%d" % (k, m), spec, root, DEFAULT_OPTS, False))
    rng = ctx.rng
    for i in range(n_random):
        spec, root = random_spec(rng)
        for o in option_tuples(rng, n_opts):
            cases.append(make_case("rnd%d-%d" % (ctx.seed, i), spec, root, o, rng.random() < 0.3))
    return cases


def create_diagram_smoke(ctx, cases):
    """ParserElement.create_diagram end to end (streamline + to_railroad + railroad_to_html) on the default-option cases"""
    import io
    for c in cases:
        if c["opts"] != DEFAULT_OPTS or c["streamline"]:
            continue
        objs = build(c["spec"])
        root = objs[c["root"]]
        D = diagram_module()
        reset_bookmarks(D)
        buf = io.StringIO()
        try:
            root.create_diagram(buf)
        except RecursionError:
            ctx.stat("create_diagram_recursion_errors")
            continue
        except Exception as e:
            ctx.violation("unpredicted:create-diagram-exception:%s" % case_id(c),
                          "create_diagram raised %s: %s on %s" % (type(e).__name__, str(e)[:200], c["label"]),
                          {"kind": "case", "case": c})
            continue
        h = buf.getvalue()
        reset_bookmarks(D)
        try:
            ds = D.to_railroad(root)
        except RecursionError:
            ds = None
        ctx.stat("create_diagram_runs")
        if ds is not None and h.count('class="railroad-heading"') != len([d for d in ds if d.diagram is not None]):
            ctx.violation("unpredicted:create-diagram-html:%s" % case_id(c),
                          "create_diagram HTML has %d headings for %d diagrams on %s" % (
                              h.count('class="railroad-heading"'), len(ds), c["label"]), {"kind": "case", "case": c})


def many_names_oracle(ctx):
    """more distinct diagram names than any small cache holds (the bookmark of a name must be the same every time it is asked for):
    140 named rules, each referenced twice; implementation-side oracle only (links resolve, bookmarks distinct, anchors present)"""
    n = 140
    spec = [dict(op="Forward", body=None, name="rule%d" % i) for i in range(n)]
    for i in range(n):
        spec.append(L("k%d" % i))
        lit = len(spec) - 1
        nxt = (i + 1) % n
        if i % 7 == 0:                   # every 7th rule refers to the next one optionally, so the grammar is not one endless cycle
            spec.append(N("Opt", nxt))
            nxt = len(spec) - 1
        spec.append(N("And", lit, nxt))
        spec[i]["body"] = len(spec) - 1
    spec.append(N("MatchFirst", *range(n)))
    case = make_case("many-names-%d" % n, spec, len(spec) - 1, DEFAULT_OPTS, False)
    try:
        root, nodes, unmodelled, impl = run_case_impl(case, html=True)
    except Exception as e:
        ctx.violation("many-names:harness", "building the %d-rule grammar failed: %r" % (n, e), {"kind": "many-names"})
        return
    ctx.case("many-names", True, True)
    for cls, detail in oracle(nodes, DEFAULT_OPTS, impl):
        if cls in ("dangling-href", "duplicate-bookmark", "html-missing-bookmark", "duplicate-name", "html-exception", "exception"):
            ctx.violation("many-names:" + cls, "grammar with %d named rules: %s: %s" % (n, cls, detail), {"kind": "many-names"})
    ctx.stat("many_names_diagrams", len(impl["diagrams"]))



def correspond(ctx):
    if "translator:gen_diagram" in " ".join(ctx.tie_broken):
        # the model cannot be selected; still evaluate the oracle on the implementation (search does)
        return
    n_random, n_opts = (1500, 3) if ctx.thorough else (220, 2)
    cases = all_cases(ctx, n_random, n_opts)
    res = run_cases(ctx, cases, "c20_cases")
    create_diagram_smoke(ctx, [c for c in cases if not c["label"].startswith("rnd")])
    many_names_oracle(ctx)
    for c, nodes, impl, m, dis in res[:3]:
        ctx.sample({"grammar": c["label"], "opts": c["opts"], "impl_diagrams": [d[:3] for d in impl["diagrams"]],
                    "impl_exc": impl["exc"], "model_depth": None if m is None else m["depth"]})
    ctx.coverage_extra["scope"] = "%d enumerated shapes x %d option tuples (+ streamlined), %d random graphs x %d option tuples" % (
        len(enumerated_shapes()), len(FIXED_OPTS), n_random, n_opts)
    ctx.coverage_extra["model_fuel"] = FUEL
    ctx.coverage_extra["class_dag"] = ("dag_class (Model/DiagramClass.v) evaluated in Coq on every modelled graph; on in-class "
                                       "graphs any oracle violation of the implementation alarms (key in-class:...); counts "
                                       "in stats class_dag:*")
    ctx.coverage_extra["repaired_tree"] = repaired_tree()


def repaired_tree():
    try:
        txt = open(os.path.join(vlib.COQ, "Gen", "GenDiagram.v")).read()
        return "REPEAT_FIX : bool := true" in txt
    except OSError:
        return None


def search(ctx, reasons):
    """the tie is broken and no concrete failing input is known yet: widen on the implementation alone.  Any oracle
    violation here is reported with a per-input key unless it belongs to a class the pinned tree is known to exhibit
    AND the model (when it can be evaluated) predicts it."""
    rng = ctx.rng
    many_names_oracle(ctx)
    if any(v["found_input"] for v in ctx.violations):
        return
    cases = []
    for lab, spec, root in enumerated_shapes():
        for o in option_tuples():
            cases.append(make_case(lab, spec, root, o, False))
    for i in range(4000 if ctx.thorough else 600):
        spec, root = random_spec(rng)
        for o in option_tuples(rng, 2):
            cases.append(make_case("srch%d-%d" % (ctx.seed, i), spec, root, o, rng.random() < 0.3))
    model_ok = not any(r.startswith(("translator:", "proof:", "hygiene:")) for r in reasons)
    B = 400
    for s in range(0, len(cases), B):
        chunk = cases[s:s + B]
        if model_ok:
            try:
                run_cases(ctx, chunk, "c20_search")
            except Exception:
                model_ok = False
        if not model_ok:
            for c in chunk:
                try:
                    root, nodes, unmodelled, impl = run_case_impl(c, html=True)
                except Exception:
                    continue
                for cls, detail in oracle(nodes, c["opts"], impl):
                    cause = cause_of(cls, nodes, c["opts"], impl)
                    tag = cls + (":" + cause if cause else "")
                    # without a model there is no prediction: fall back to the class keys of the known findings
                    key = "model-predicted:" + tag
                    if key not in ctx.known:
                        key = "unpredicted:%s:%s" % (tag, case_id(c))
                    ctx.violation(key, "%s on grammar %s opts=%s: %s (model unavailable)" % (
                        cls, c["label"], json.dumps(c["opts"], sort_keys=True), detail), {"kind": "case", "case": c})
                ctx.stat("search_cases")
        if any(v["found_input"] for v in ctx.violations):
            return


def replay(ctx, obj):
    r = obj["replay"]
    if r.get("kind") == "many-names":
        c2 = vlib.Ctx(PROP, "quick", 0)
        c2.known = {}
        many_names_oracle(c2)
        for v in c2.violations:
            print(v["what"])
        return not c2.violations
    if r.get("kind") != "case":
        print("replay names a broken proof/correspondence obligation: %r" % (r,))
        return False
    c = r["case"]
    root, nodes, unmodelled, impl = run_case_impl(c)
    bad = oracle(nodes, c["opts"], impl)
    print("grammar %s root=%d opts=%s streamline=%s" % (json.dumps(c["spec"]), c["root"], json.dumps(c["opts"]), c["streamline"]))
    if impl["exc"]:
        print("to_railroad raised", impl["exc"])
    for d in impl["diagrams"]:
        print("  diagram name=%r index=%r bookmark=%r %s" % (d[0], d[1], d[2], json.dumps(d[3])[:300]))
    for cls, detail in bad:
        print("  VIOLATED: %s: %s" % (cls, detail))
    if unmodelled is None:
        try:
            m = model_runs("c20_replay", [(nodes, c["opts"])])[0]
            dis = agree(impl, m)
            print("  model: ok=%s depth=%d ; %s" % (m["ok"], m["depth"], "agrees with the implementation" if not dis else "DISAGREES: " + dis))
            if dis:
                return False
        except Exception as e:
            print("  model evaluation failed: %s" % str(e)[:200])
    return not bad
