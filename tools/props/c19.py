"""C19 — global settings are scoped as documented and fully restorable.

Correspondence: operation histories (entry configuration, `with reset_pyparsing_context():` body incl. nested contexts,
manual save/restore/copy) are executed on the real pyparsing in a worker subprocess (hard reset of every global before
each history, everything restored in `finally`) and on the Coq model (Model/SettingsRun.v over the regenerated
Gen/GenSettings.v, evaluated with vm_compute); the exception raised by every operation and the full snapshot of all
globals before / inside / after the block are compared.
Property oracle on the implementation: after the with-block every snapshot field equals its entry value and __exit__
raised nothing; no operation other than set_whitespace_chars on that very expression changes an existing user expression.
"""
import itertools, json, os, subprocess, sys

PROP = "C19"
GEN = ["gen_settings"]
RULE = ("histories = entry configuration (8) x body of the with-block: all op sequences of length <= 2 over a 31-op alphabet, all "
        "nested-context triples a; with: b; c over 9 ops from 3 entries, 300 seeded random histories (length 3-9, nested with-blocks, "
        "manual save/restore/copy/__enter__/__exit__); thorough adds all bodies of length 3 over 14 ops from 5 entries and 12000 random "
        "histories.  Compared model vs implementation: the exception of every operation and the snapshot of all globals "
        "before / inside / after the block.  Oracles on the implementation: exact restoration + no exception from __exit__, "
        "whitespace scope of set_default_whitespace_chars / new / copy, mutual exclusion and refusal without force.  "
        "non-trivial = the body changes at least one global or some operation raises")
TRUSTED = ["tools/props/c19.py: the snapshot function (which Python attribute is which model field), the op interpreter that "
           "calls the public pyparsing API, the grouping of the 70 built-in expressions into classes of equal (whiteChars, "
           "copyDefaultWhiteChars); tools/translate/gen_settings.py: the typing table of the globals, `set(chars)` read as `chars`, "
           "cache/memo contents and packrat_cache_stats not being settings, `with lock:` transparent"]
EXPLANATION = ("The theorems are stated for the save/restore regenerated from the current source; old_save/old_restore (frozen "
               "pre-fix text) carry the refutation witnesses F-19a/b/c.")

LITCLASSES = ["Literal", "Suppress", "CaselessLiteral", "Keyword", "CaselessKeyword"]
BASE_KW = "k_"
NRAND_QUICK, NRAND_THOROUGH = 300, 12000
GLOBAL_FIELDS = ["ws", "kw", "lit", "verbose", "packrat", "pcache", "parse", "lr", "memo"]


# =====================================================================================================
# real side (runs in the worker subprocess only)
# =====================================================================================================
class Real:
    def __init__(self):
        import warnings
        import pyparsing as pp
        import pyparsing.core as core
        from pyparsing.testing import pyparsing_test
        self.pp, self.core, self.warnings = pp, core, warnings
        self.PE, self.KW = pp.ParserElement, pp.Keyword
        self.diag, self.compat = core.__diag__, core.__compat__
        self.ctxcls = pyparsing_test.reset_pyparsing_context
        self.lit = [getattr(pp, n) for n in LITCLASSES]
        # built-in expressions: unique objects, grouped by their import-time (whiteChars, copyDefaultWhiteChars)
        seen, uniq = set(), []
        for e in core._builtin_exprs:
            if id(e) not in seen:
                seen.add(id(e))
                uniq.append(e)
        groups = {}
        for e in uniq:
            groups.setdefault(("".join(sorted(e.whiteChars)), bool(e.copyDefaultWhiteChars)), []).append(e)
        self.groups = [groups[k] for k in sorted(groups)]
        self.group_init = sorted(groups)
        self.group_label = []
        for g in self.groups:
            names = sorted({type(e).__name__ for e in g})
            self.group_label.append("+".join(names) if len(names) <= 2 else "%d-classes" % len(names))
        self.nprobes = 0
        self.import_state = self.raw_globals()
        self.import_snapshot = self.snap([])

    def raw_globals(self):
        PE = self.PE
        return {"ws": PE.DEFAULT_WHITE_CHARS, "kw": self.KW.DEFAULT_KEYWORD_CHARS, "lit": PE._literalStringClass,
                "verbose": PE.verbose_stacktrace, "packrat": PE._packratEnabled, "pcache": PE.packrat_cache,
                "parse": PE._parse, "lr": PE._left_recursion_enabled, "memo": PE.recursion_memos,
                "diag": {n: getattr(self.diag, n) for n in self.diag._all_names},
                "compat": {n: getattr(self.compat, n) for n in self.compat._all_names},
                "builtins": [(e, set(e.whiteChars), e.copyDefaultWhiteChars) for g in self.groups for e in g]}

    def hard_reset(self):
        """every modelled global back to its import-time object/value (keyword chars: the short BASE_KW)"""
        st, PE = self.import_state, self.PE
        PE.DEFAULT_WHITE_CHARS = st["ws"]
        self.KW.DEFAULT_KEYWORD_CHARS = BASE_KW
        PE._literalStringClass = st["lit"]
        PE.verbose_stacktrace = st["verbose"]
        PE._packratEnabled = st["packrat"]
        PE.packrat_cache = st["pcache"]
        PE._parse = st["parse"]
        PE._left_recursion_enabled = st["lr"]
        st["memo"].clear()
        PE.recursion_memos = st["memo"]
        for n, v in st["diag"].items():
            setattr(self.diag, n, v)
        for n, v in st["compat"].items():
            setattr(self.compat, n, v)
        for e, w, cd in st["builtins"]:
            e.whiteChars = set(w)
            e.copyDefaultWhiteChars = cd

    def restore_import_state(self):
        self.hard_reset()
        self.KW.DEFAULT_KEYWORD_CHARS = self.import_state["kw"]
        for sub in (self.pp.CaselessKeyword,):
            if "DEFAULT_KEYWORD_CHARS" in vars(sub):          # a setter that wrote to the subclass (never on the unchanged tree)
                delattr(sub, "DEFAULT_KEYWORD_CHARS")

    # -- snapshot in canonical (JSON) form
    def cval(self, v):
        if isinstance(v, bool):
            return v
        if isinstance(v, dict):
            return {"dict": [[k, self.cval(x)] for k, x in v.items()]}
        return {"other": repr(v)}

    def snap(self, users):
        PE, U = self.PE, self.core
        pc = PE.packrat_cache
        if isinstance(pc, PE.NullCache):
            pcache = ["null"]
        elif type(pc).__name__ == "_UnboundedCache":
            pcache = ["unbounded"]
        elif type(pc).__name__ == "_FifoCache":
            pcache = ["fifo", pc.size]
        else:
            pcache = ["other", type(pc).__name__]
        m = PE.recursion_memos
        if type(m) is dict:
            memo = ["dict"]
        elif type(m).__name__ == "UnboundedMemo":
            memo = ["unbounded"]
        elif type(m).__name__ == "LRUMemo":
            memo = ["lru", m._capacity]
        else:
            memo = ["other", type(m).__name__]
        if PE._parse is PE._parseNoCache:
            parse = "nocache"
        elif PE._parse is PE._parseCache:
            parse = "cache"
        else:
            parse = "other"
        lit = PE._literalStringClass
        b = []
        for g in self.groups:
            vals = sorted({("".join(sorted(e.whiteChars)), bool(e.copyDefaultWhiteChars)) for e in g})
            b.append(list(vals[0]) if len(vals) == 1 else ["SPLIT", [list(v) for v in vals]])
        # the default identifier characters as EVERY keyword class sees them (the setter is inherited: calling it through
        # CaselessKeyword must set the one default that Keyword and CaselessKeyword share)
        kwc = self.pp.CaselessKeyword.DEFAULT_KEYWORD_CHARS
        kwv = self.KW.DEFAULT_KEYWORD_CHARS if kwc == self.KW.DEFAULT_KEYWORD_CHARS else "SPLIT Keyword=%r CaselessKeyword=%r" % (
            self.KW.DEFAULT_KEYWORD_CHARS, kwc)
        return {"ws": PE.DEFAULT_WHITE_CHARS, "kw": kwv,
                "lit": self.lit.index(lit) if lit in self.lit else repr(lit),
                "verbose": PE.verbose_stacktrace, "packrat": PE._packratEnabled, "pcache": pcache, "parse": parse,
                "lr": PE._left_recursion_enabled, "memo": memo,
                "diag": [self.cval(getattr(self.diag, n)) for n in self.diag._all_names],
                "compat": [self.cval(getattr(self.compat, n)) for n in self.compat._all_names],
                "builtins": b,
                "users": [["".join(sorted(e.whiteChars)), bool(e.copyDefaultWhiteChars)] for e in users]}

    # -- one operation on the real library; returns the exception class name or None
    def apply(self, op, W):
        pp, PE = self.pp, self.PE
        k = op[0]
        # an index that names no existing object: no-op (as in the model)
        if k in ("copy", "setwsof") and not (0 <= op[1] < len(W["users"])):
            return None
        if k in ("restore", "exit", "ctxcopy") and not (0 <= op[1] < len(W["ctxs"])):
            return None
        if k == "copy_builtin" and not (0 <= op[1] < len(self.groups)):
            return None
        try:
            with self.warnings.catch_warnings():
                self.warnings.simplefilter("ignore")
                if k == "ws":
                    PE.set_default_whitespace_chars(op[1])
                elif k == "kw":
                    self.KW.set_default_keyword_chars(op[1])
                elif k == "kwsub":
                    self.pp.CaselessKeyword.set_default_keyword_chars(op[1])
                elif k == "inline":
                    PE.inline_literals_using(self.lit[op[1]])
                elif k == "packrat":
                    PE.enable_packrat(op[1], force=op[2])
                elif k == "lr":
                    PE.enable_left_recursion(op[1], force=op[2])
                elif k == "disable":
                    PE.disable_memoization()
                elif k == "reset":
                    PE.reset_cache()
                elif k == "diag_enable":
                    self.diag.enable(op[1])
                elif k == "diag_disable":
                    self.diag.disable(op[1])
                elif k == "enable_diag":
                    pp.enable_diag(pp.Diagnostics[op[1]])
                elif k == "disable_diag":
                    pp.disable_diag(pp.Diagnostics[op[1]])
                elif k == "all_warnings":
                    pp.enable_all_warnings()
                elif k == "compat_enable":
                    self.compat.enable(op[1])
                elif k == "compat_disable":
                    self.compat.disable(op[1])
                elif k == "compat_assign":
                    setattr(self.compat, op[1], op[2])
                elif k == "verbose":
                    PE.verbose_stacktrace = op[1]
                elif k == "new":
                    n = len(W["users"]) % len(self.PROBE_TEXT)

                    def fwd():
                        f = pp.Forward()
                        f <<= pp.Word("ab") + pp.Opt("(" + f + ")")
                        return f
                    # tokens and composites: a composite derives its whitespace set (and whether it still follows the default)
                    # from its parts when it is constructed, and a Forward when it is assigned
                    mk = [lambda: pp.Word("ab"), fwd, lambda: pp.Word("ab") + pp.Literal("x"), lambda: pp.Literal("x"),
                          lambda: pp.Group(pp.Word("ab")), lambda: pp.Keyword("if"), lambda: pp.OneOrMore(pp.Literal("x")), lambda: pp.Regex("a+"),
                          lambda: pp.Literal("x") | pp.Word("ab"), lambda: pp.Opt(pp.Word("ab")) + pp.Literal("x")]
                    W["users"].append(mk[n]())
                    W["probe"].append(self.PROBE_TEXT[n])
                elif k == "copy":
                    W["users"].append(W["users"][op[1]].copy())
                    W["probe"].append(W["probe"][op[1]])
                elif k == "copy_builtin":
                    W["users"].append(self.groups[op[1]][0].copy())
                    W["probe"].append(None)      # no probe text for copies of built-ins
                elif k == "setwsof":
                    W["users"][op[1]].set_whitespace_chars(op[2], copy_defaults=op[3])
                elif k == "save":
                    c = self.ctxcls()
                    c.save()
                    W["ctxs"].append(c)
                elif k == "enter":
                    c = self.ctxcls()
                    c.__enter__()
                    W["ctxs"].append(c)
                elif k == "restore":
                    W["ctxs"][op[1]].restore()
                elif k == "exit":
                    W["ctxs"][op[1]].__exit__(None, None, None)
                elif k == "ctxcopy":
                    W["ctxs"].append(W["ctxs"][op[1]].copy())
                else:
                    raise AssertionError("unknown op %r" % (op,))
            return None
        except AssertionError:
            raise
        except Exception as e:
            return type(e).__name__

    def run_ops(self, ops, W, exns, viol, path):
        """flat ops and nested ["with", body]; appends one exception entry per *model* operation.
        The scope and exclusivity oracles are evaluated on the implementation after every operation."""
        canon = lambda s: "".join(sorted(set(s)))
        after = self.snap(W["users"])
        for i, op in enumerate(ops):
            before = after
            if op[0] == "with":
                self.run_with(op[1], W, exns, viol, path + [i])
                after = self.snap(W["users"])
                continue
            exn = self.apply(op, W)
            exns.append(exn)
            after = self.snap(W["users"])
            k = op[0]
            bu, au = before["users"], after["users"]
            # scope: existing user expressions are written only by their own set_whitespace_chars
            if k != "setwsof" and au[:len(bu)] != bu:
                viol.append({"kind": "scope", "what": "existing-user-expression-changed", "op": op, "before": bu, "after": au})
            if k == "setwsof" and 0 <= op[1] < len(bu) and [x for j, x in enumerate(au) if j != op[1]] != [x for j, x in enumerate(bu) if j != op[1]]:
                viol.append({"kind": "scope", "what": "other-user-expression-changed", "op": op, "before": bu, "after": au})
            if k == "new" and exn is None and au[len(bu):] != [[canon(after["ws"]), True]]:
                viol.append({"kind": "scope", "what": "new-expression-whitespace", "op": op, "before": after["ws"], "after": au[len(bu):]})
            if k in ("copy", "copy_builtin") and exn is None:
                srcs = bu if k == "copy" else before["builtins"]
                if 0 <= op[1] < len(srcs):
                    src = srcs[op[1]]
                    want = [canon(after["ws"]), True] if src[1] else src
                    if au[len(bu):] != [want]:
                        viol.append({"kind": "scope", "what": "copy-whitespace", "op": op, "before": src, "after": au[len(bu):]})
            if k == "ws" and exn is None:
                wantb = [[canon(op[1]), True] if g[1] is True else g for g in before["builtins"]]
                others = [f for f in before if f not in ("ws", "builtins", "users") and before[f] != after[f]]
                if after["ws"] != op[1] or after["builtins"] != wantb or others:
                    viol.append({"kind": "scope", "what": "set-default-whitespace", "op": op,
                                 "before": {"builtins": before["builtins"]}, "after": {"ws": after["ws"], "builtins": after["builtins"], "others": others}})
            # exclusivity
            if after["packrat"] and after["lr"]:
                viol.append({"kind": "exclusive", "what": "both-enabled", "op": op, "before": [before["packrat"], before["lr"]]})
            if (after["parse"] == "cache") != bool(after["packrat"]):
                viol.append({"kind": "exclusive", "what": "parse-binding-inconsistent", "op": op,
                             "after": [after["packrat"], after["parse"]]})
            if (k == "packrat" and not op[2] and before["lr"]) or (k == "lr" and not op[2] and before["packrat"]):
                if exn != "RuntimeError" or after != before:
                    viol.append({"kind": "exclusive", "what": "not-refused", "op": op, "exn": exn,
                                 "changed": [f for f in before if before[f] != after[f]]})

    def run_with(self, body, W, exns, viol, path, marks=None):
        before = self.snap(W["users"])
        nb = len(W["users"])
        entered = False
        exit_exc = None
        try:
            cm = self.ctxcls()
            with cm:
                entered = True
                W["ctxs"].append(cm)
                exns.append(None)  # OSave
                self.run_ops(body, W, exns, viol, path)
                if marks is not None:
                    marks["inside"] = self.snap(W["users"])
        except Exception as e:
            if not entered:
                exns.append(type(e).__name__)
                return
            exit_exc = type(e).__name__
        exns.append(exit_exc)  # ORestore
        after = self.snap(W["users"])
        if marks is not None:
            marks["before"], marks["after"] = before, after
        diff = [f for f in before if f != "users" and before[f] != after[f]]
        if before["users"] != after["users"][:nb] and not any(o[0] == "setwsof" for o in flat_py(body)):
            diff.append("users")
        if exit_exc or diff:
            names = []
            for f in diff:
                if f == "builtins":
                    names += ["builtins.%s.whiteChars" % self.group_label[i] for i in range(len(self.groups))
                              if before["builtins"][i] != after["builtins"][i]]
                else:
                    names.append(f)
            viol.append({"kind": "restore", "exit": exit_exc or "ok", "fields": sorted(names), "path": path,
                         "before": {f: before[f] for f in diff}, "after": {f: after[f] for f in diff}})

    PROBE_TEXT = ["ab", "ab", "abx", "x", "ab", "if", "x", "aa", "x", "abx"]      # matched by the expressions that "new" creates, in that order
    PROBE_WS = [" ", "\n", "\r", "q", "z"]      # candidate leading characters (none occurs in a probe text; no TAB: expandtabs)

    def behaviour(self, W, viol):
        """ties the whiteChars attribute to parsing behaviour: expression e skips a leading character c iff c in e.whiteChars
        (every user expression here has skipWhitespace; copies keep the kind of their original)"""
        for j, e in enumerate(W["users"]):
            text = W["probe"][j]
            if text is None:
                continue
            self.nprobes += len(self.PROBE_WS)
            for c in self.PROBE_WS:
                try:
                    e.parse_string(c + text, parse_all=True)
                    skipped = True
                except self.pp.ParseBaseException:
                    skipped = False
                if skipped != (c in e.whiteChars):
                    viol.append({"kind": "scope", "what": "behaviour-differs-from-whiteChars", "op": ["probe", j],
                                 "char": c, "skipped": skipped, "whiteChars": "".join(sorted(e.whiteChars))})

    def run_case(self, case):
        self.hard_reset()
        W = {"users": [], "ctxs": [], "probe": []}
        exns, viol, marks = [], [], {}
        self.run_ops(case["entry"], W, exns, viol, ["entry"])
        if case["mode"] == "with":
            self.run_with(case["body"], W, exns, viol, [], marks)
            obs = [marks.get("before"), marks.get("inside"), marks.get("after")]
        else:
            self.run_ops(case["body"], W, exns, viol, [])
            obs = [self.snap(W["users"])]
        final = self.snap(W["users"])
        self.behaviour(W, viol)
        if self.snap(W["users"]) != final:
            viol.append({"kind": "scope", "what": "parsing-changed-a-setting", "op": ["probe", 0]})
        return {"exns": exns, "obs": obs, "viol": viol}


def flat_py(ops):
    for o in ops:
        if o[0] == "with":
            yield from flat_py(o[1])
        else:
            yield o


def worker_main():
    cases = json.load(sys.stdin)
    R = Real()
    out = {"import": R.import_snapshot, "groups": [list(g) for g in R.group_init], "labels": R.group_label,
           "diag_names": list(R.diag._all_names), "compat_names": list(R.compat._all_names), "results": []}
    try:
        R.hard_reset()
        out["base"] = R.snap([])
        for c in cases:
            out["results"].append(R.run_case(c))
    finally:
        R.restore_import_state()
    out["final"] = R.snap([])
    out["nprobes"] = R.nprobes
    json.dump(out, sys.stdout)


def run_worker(cases, timeout=900):
    from tools import vlib
    env = dict(os.environ)
    env["PYTHONPATH"] = vlib.REPO + ":" + vlib.VERIF
    env.pop("PYPARSINGENABLEALLWARNINGS", None)   # would change the import-time state (core.py enables all warnings)
    env.pop("PYTHONWARNINGS", None)
    p = subprocess.run([vlib.PY, os.path.abspath(__file__), "--worker"], input=json.dumps(cases), text=True,
                       stdout=subprocess.PIPE, stderr=subprocess.PIPE, timeout=timeout, env=env, cwd=vlib.VERIF)
    if p.returncode != 0:
        raise RuntimeError("worker failed: " + p.stderr[-1500:])
    return json.loads(p.stdout)


# =====================================================================================================
# model side
# =====================================================================================================
def cs(s):
    return "[" + ";".join("%d" % ord(c) for c in s) + "]%N"


def cflag(n, names):
    return "F_" + n if n in names else "F_other"


def coq_op(op, names):
    k = op[0]
    b = lambda x: "true" if x else "false"
    oz = lambda x: "None" if x is None else "(Some (%d)%%Z)" % x
    if k == "ws":
        return "OSetWs %s" % cs(op[1])
    if k in ("kw", "kwsub"):
        return "OSetKw %s" % cs(op[1])
    if k == "inline":
        return "OInline %d%%N" % op[1]
    if k == "packrat":
        return "OPackrat %s %s" % (oz(op[1]), b(op[2]))
    if k == "lr":
        return "OLR %s %s" % (oz(op[1]), b(op[2]))
    if k == "disable":
        return "ODisable"
    if k == "reset":
        return "OResetCache"
    if k in ("diag_enable", "diag_disable", "enable_diag", "disable_diag", "compat_enable", "compat_disable"):
        ctor = {"diag_enable": "ODiagEnable", "diag_disable": "ODiagDisable", "enable_diag": "OEnableDiag",
                "disable_diag": "ODisableDiag", "compat_enable": "OCompatEnable", "compat_disable": "OCompatDisable"}[k]
        return "%s %s" % (ctor, cflag(op[1], names))
    if k == "all_warnings":
        return "OAllWarnings"
    if k == "compat_assign":
        return "OCompatAssign %s %s" % (cflag(op[1], names), b(op[2]))
    if k == "verbose":
        return "OVerbose %s" % b(op[1])
    if k == "new":
        return "ONew"
    if k == "copy":
        return "OCopy %d" % op[1]
    if k == "copy_builtin":
        return "OCopyBuiltin %d" % op[1]
    if k == "setwsof":
        return "OSetWsOf %d %s %s" % (op[1], cs(op[2]), b(op[3]))
    if k in ("save", "enter"):
        return "OSave"
    if k in ("restore", "exit"):
        return "ORestore %d" % op[1]
    if k == "ctxcopy":
        return "OCtxCopy %d" % op[1]
    raise ValueError(op)


def flatten(ops, nctx):
    """nested ["with", body] -> OSave; body; ORestore k.  nctx = [number of context objects created so far]"""
    out = []
    for o in ops:
        if o[0] == "with":
            k = nctx[0]
            nctx[0] += 1
            out.append(["save"])
            out += flatten(o[1], nctx)
            out.append(["restore", k])
        else:
            if o[0] in ("save", "enter") or (o[0] == "ctxcopy" and 0 <= o[1] < nctx[0]):
                nctx[0] += 1
            out.append(o)
    return out


def case_model_ops(case):
    nctx = [0]
    ops = flatten(case["entry"], nctx)
    ne = len(ops)
    if case["mode"] == "with":
        ops += flatten([["with", case["body"]]], nctx)
        marks = [ne - 1 if ne else len(ops), len(ops) - 2, len(ops) - 1]  # out-of-range index = the base state
    else:
        ops += flatten(case["body"], nctx)
        marks = [len(ops) - 1]
    return ops, marks


def coq_state(snap, diag_names, compat_names):
    b = lambda x: "true" if x else "false"
    pc = {"null": "PNull", "unbounded": "PUnbounded"}.get(snap["pcache"][0]) or "(PFifo (%d)%%Z)" % snap["pcache"][1]
    mm = {"dict": "MDict", "unbounded": "MUnbounded"}.get(snap["memo"][0]) or "(MLRU (%d)%%Z)" % snap["memo"][1]
    def pv(v):
        if isinstance(v, bool):
            return "(PVBool %s)" % b(v)
        return "(PVDict [%s])" % "; ".join("(%s, %s)" % (cs(k), pv(x)) for k, x in v["dict"])
    ex = lambda l: "[" + "; ".join("mkExpr %s %s" % (cs(w), b(c)) for w, c in l) + "]"
    parts = [cs(snap["ws"]), cs(snap["kw"]), "%d%%N" % snap["lit"], b(snap["verbose"]), b(snap["packrat"]), pc,
             "ParseNoCache" if snap["parse"] == "nocache" else "ParseCache", b(snap["lr"]), mm]
    parts += [b(x) for x in snap["diag"]] + [pv(x) for x in snap["compat"]] + [ex(snap["builtins"]), ex(snap["users"])]
    return "(mkState %s)" % " ".join(parts)


def canon_obs(t):
    """parsed `observe s` -> the JSON snapshot form"""
    from tools import vlib
    ws, kw, lit, verbose, packrat, pcache, parse, lr, memo, diag, compat, builtins, users = t
    def ctor(x):
        if isinstance(x, tuple):
            return [x[0]] + [ctor_arg(a) for a in x[1:]]
        return [x]
    def ctor_arg(a):
        return a
    pcm = {"PNull": ["null"], "PUnbounded": ["unbounded"]}
    pcache = pcm.get(pcache[0]) or ["fifo", pcache[1]]
    mem = {"MDict": ["dict"], "MUnbounded": ["unbounded"]}
    memo = mem.get(memo[0]) or ["lru", memo[1]]
    def pv(v):
        if v[0] == "PVBool":
            return v[1]
        return {"dict": [[vlib.from_coq_str(k), pv(x)] for k, x in v[1]]}
    canon_w = lambda w: "".join(sorted(set(vlib.from_coq_str(w))))
    return {"ws": vlib.from_coq_str(ws), "kw": vlib.from_coq_str(kw), "lit": lit, "verbose": verbose, "packrat": packrat,
            "pcache": pcache, "parse": "nocache" if parse[0] == "ParseNoCache" else "cache", "lr": lr, "memo": memo,
            "diag": list(diag), "compat": [pv(x) for x in compat],
            "builtins": [[canon_w(w), c] for w, c in builtins], "users": [[canon_w(w), c] for w, c in users]}


def canon_exn(e):
    if e == "None":
        return None
    return e[1][0]


PRE = ("From Coq Require Import List ZArith NArith Bool.\n"
       "From PP Require Import Model.Str Model.Settings Gen.GenSettings Model.SettingsRun.\nImport ListNotations.\n"
       "Definition base : state := %s.\n"
       "Definition w0 := mkWorld base [].\n"
       "Definition case (ops : list op) (marks : list nat) :=\n"
       "  let t := trace ops w0 in (map fst t, map (fun i => observe (nth i (map snd t) base)) marks).\n")


def model_eval(tag, base_snap, names, diag_names, compat_names, cases, shard=350, jobs=14):
    from tools import vlib
    from concurrent.futures import ThreadPoolExecutor
    pre = PRE % coq_state(base_snap, diag_names, compat_names)
    exprs = []
    for c in cases:
        ops, marks = case_model_ops(c)
        exprs.append("case [%s] [%s]" % ("; ".join(coq_op(o, names) for o in ops), "; ".join("%d" % m for m in marks)))
    shards = [exprs[i:i + shard] for i in range(0, len(exprs), shard)]
    def one(ix):
        return vlib.coq_eval_terms("c19_%s_%d" % (tag, ix), pre, shards[ix], timeout=900)
    out = []
    with ThreadPoolExecutor(max_workers=jobs) as ex:
        for res in ex.map(one, range(len(shards))):
            out += res
    return out


# =====================================================================================================
# case generation
# =====================================================================================================
def alphabet(diag_names, small=False):
    d0, d7 = diag_names[0], diag_names[-1]
    A = [["ws", " "], ["ws", " \n\t\r"], ["kw", "ab$"], ["inline", 1],
         ["packrat", 128, False], ["packrat", None, False], ["packrat", 7, True],
         ["lr", None, False], ["lr", 3, False], ["lr", 5, True], ["lr", 0, True],
         ["disable"], ["diag_enable", d0], ["all_warnings"], ["diag_enable", "no_such_flag"],
         ["compat_assign", "collect_all_And_tokens", False], ["verbose", True],
         ["new"], ["copy", 0], ["save"], ["restore", 0], ["restore", 1], ["kwsub", "xyz"]]
    if small:
        return [A[i] for i in (0, 2, 4, 5, 7, 8, 9, 11, 12, 15, 17, 18, 19, 21, 22)]
    A += [["reset"], ["diag_disable", d0], ["enable_diag", d7], ["disable_diag", d7], ["compat_disable", "collect_all_And_tokens"],
          ["compat_enable", "no_such_flag"], ["copy_builtin", 1], ["ctxcopy", 0], ["lr", 0, False]]
    return A


def entries(diag_names):
    d0 = diag_names[0]
    return [
        [["new"]],
        [["new"], ["packrat", 128, False]],
        [["new"], ["packrat", None, False]],
        [["new"], ["lr", None, False]],
        [["new"], ["lr", 4, False]],
        [["new"], ["ws", " \t"], ["kw", "xy"], ["inline", 1], ["verbose", True], ["diag_enable", d0]],
        [["new"], ["all_warnings"], ["compat_assign", "collect_all_And_tokens", False], ["packrat", 16, False], ["disable"]],
        [["new"], ["setwsof", 0, "q", False], ["new"], ["ws", "\n "], ["lr", 2, False], ["packrat", 9, True]],
    ]


def gen_cases(ctx, diag_names):
    A = alphabet(diag_names)
    E = entries(diag_names)
    cases = []
    # F-19a/b/c/d witnesses first
    cases.append({"mode": "with", "entry": [], "body": []})
    cases.append({"mode": "with", "entry": [["packrat", 128, False]], "body": [["lr", None, True]]})
    cases.append({"mode": "with", "entry": [["lr", 5, False]], "body": [["lr", 10, True]]})
    cases.append({"mode": "with", "entry": [], "body": [["packrat", 128, False]]})
    cases.append({"mode": "with", "entry": [], "body": [["ws", " "]]})
    for e in E:
        for n in (0, 1, 2):
            for body in itertools.product(A, repeat=n):
                cases.append({"mode": "with", "entry": e, "body": list(body)})
    # nested contexts: with: a; with: b; (exit) c; (exit)
    S = [A[i] for i in (0, 3, 4, 7, 9, 11, 12, 15, 16)]
    for e in (E[0], E[1], E[4]):
        for a, b, c in itertools.product(S, repeat=3):
            cases.append({"mode": "with", "entry": e, "body": [a, ["with", [b]], c]})
    if ctx.thorough:
        SA = alphabet(diag_names, small=True)
        for e in (E[0], E[1], E[3], E[4], E[6]):
            for body in itertools.product(SA, repeat=3):
                cases.append({"mode": "with", "entry": e, "body": list(body)})
    # seeded random long histories with manual save / restore / copy / nested with
    rng = ctx.rng
    nrand = NRAND_THOROUGH if ctx.thorough else NRAND_QUICK
    for _ in range(nrand):
        cases.append({"mode": rng.choice(["flat", "with"]), "entry": rng.choice(E), "body": random_body(rng, A, rng.randint(3, 9), 2)})
    return cases


def random_body(rng, A, n, depth):
    out = []
    nusers_guess = 1
    for _ in range(n):
        r = rng.random()
        if depth > 0 and r < 0.15:
            out.append(["with", random_body(rng, A, rng.randint(0, 4), depth - 1)])
        elif r < 0.25:
            out.append(["packrat", rng.choice([None, 0, 1, 64]), rng.random() < 0.5])
        elif r < 0.35:
            out.append(["lr", rng.choice([None, -1, 0, 1, 64]), rng.random() < 0.5])
        elif r < 0.40:
            out.append(["ws", rng.choice(["", " ", "\t ", " \n\t\r", "\r\n\t "])])
        elif r < 0.43:
            out.append(["setwsof", 0, rng.choice(["", "z"]), rng.random() < 0.5])
        elif r < 0.47:
            out.append(rng.choice([["enter"], ["exit", rng.randint(0, 2)], ["ctxcopy", rng.randint(0, 2)], ["restore", rng.randint(0, 3)]]))
        elif r < 0.50:
            # a __compat__ name given to __diag__ and vice versa (ValueError), the fixed compat flag through enable/disable
            out.append(rng.choice([["diag_enable", "collect_all_And_tokens"], ["compat_disable", A[12][1]],
                                   ["compat_enable", "collect_all_And_tokens"], ["diag_disable", "no_such_flag"]]))
        else:
            out.append(rng.choice(A))
    return out


# =====================================================================================================
# the check
# =====================================================================================================
def nontrivial(res):
    o = res["obs"]
    if any(res["exns"]):
        return True
    if len(o) == 3 and o[0] is not None and o[1] is not None:
        return any(o[0][f] != o[1][f] for f in o[0])
    return True


def viol_key(v):
    if v["kind"] == "restore":
        return "with-exit:%s:diff=%s" % (v["exit"], ",".join(v["fields"]))
    return "%s:%s:%s" % (v["kind"], v["what"], v["op"][0])


def report_violations(ctx, case, res):
    seen = ctx.__dict__.setdefault("_c19_seen", set())
    for v in res["viol"]:
        ctx.stat("oracle_" + v["kind"])
        if viol_key(v) in seen:      # report the first (smallest) history per failure signature
            continue
        seen.add(viol_key(v))
        if v["kind"] == "restore":
            what = "after the with-block (entry ops %s, body %s): __exit__ %s; fields not restored: %s  before=%s after=%s" % (
                json.dumps(case["entry"]), json.dumps(case["body"]), "raised " + v["exit"] if v["exit"] != "ok" else "returned",
                v["fields"], json.dumps(v["before"]), json.dumps(v["after"]))
        else:
            what = "%s/%s at operation %s of history (entry ops %s, body %s): %s" % (
                v["kind"], v["what"], json.dumps(v["op"]), json.dumps(case["entry"]), json.dumps(case["body"]),
                json.dumps({k2: v[k2] for k2 in v if k2 not in ("kind", "what", "op")})[:500])
        ctx.violation(viol_key(v), what, {"kind": "history", "case": case})


def correspond(ctx):
    from tools.harness import synonyms
    synonyms.check(ctx, {"enablePackrat", "enableLeftRecursion", "disableMemoization", "resetCache", "setDefaultWhitespaceChars", "setDefaultKeywordChars", "inlineLiteralsUsing"}, 'settings')
    # names first (needed to build the cases): one tiny worker call
    info = run_worker([])
    diag_names, compat_names = info["diag_names"], info["compat_names"]
    names = set(diag_names) | set(compat_names)
    if info["final"] != info["import"]:
        ctx.broken("correspondence:harness hard reset does not reproduce the import-time state")
    cases = gen_cases(ctx, diag_names)
    real = run_worker(cases)
    if real["final"] != real["import"]:
        ctx.broken("correspondence:harness did not restore the import-time state")
    results = real["results"]
    # property oracle on the implementation
    for c, r in zip(cases, results):
        report_violations(ctx, c, r)
    # model
    tie = " ".join(ctx.tie_broken)
    if "translator:gen_settings" in tie:
        for c, r in zip(cases, results):
            ctx.case(json.dumps(c), nontrivial(r), False)
        return
    from tools import vlib
    try:
        # import-time state against `initial_state`
        imp = real["import"]
        b = lambda x: "true" if x else "false"
        pre0 = PRE % coq_state(real["base"], diag_names, compat_names)
        ini = vlib.coq_eval_terms("c19_init", pre0, ["observe (initial_state [%s])" % "; ".join(
            "mkExpr %s %s" % (cs(w), b(c)) for w, c in imp["builtins"])])[0]
        if canon_obs(ini) != imp:
            ctx.broken("correspondence:initial_state model=%s impl=%s" % (json.dumps(canon_obs(ini)), json.dumps(imp)))
        model = model_eval("h", real["base"], names, diag_names, compat_names, cases)
    except Exception as e:
        ctx.broken("correspondence:model-eval (%s)" % str(e)[-400:])
        for c, r in zip(cases, results):
            ctx.case(json.dumps(c), nontrivial(r), False)
        return
    ndis = 0
    for c, r, m in zip(cases, results, model):
        mex = [canon_exn(e) for e in m[0]]
        mobs = [canon_obs(o) for o in m[1]]
        ok = (mex == r["exns"]) and (mobs == r["obs"])
        if not ok:
            ndis += 1
            if ndis <= 3:
                where = "exceptions impl=%s model=%s" % (r["exns"], mex) if mex != r["exns"] else "snapshots differ: " + "; ".join(
                    "%s[%s] impl=%s model=%s" % (("before", "inside", "after")[i] if len(mobs) == 3 else "final", f,
                                                 json.dumps(a[f]), json.dumps(b2[f]))
                    for i, (a, b2) in enumerate(zip(r["obs"], mobs)) if a is not None for f in a if a[f] != b2[f])
                ctx.broken("correspondence:settings-history entry=%s body=%s mode=%s :: %s" % (
                    json.dumps(c["entry"]), json.dumps(c["body"]), c["mode"], where[:600]))
        ctx.case(json.dumps(c), nontrivial(r), ok)
    ctx.stat("histories", len(cases))
    ctx.stat("behaviour_probes", real.get("nprobes", 0))
    ctx.stat("disagreements", ndis)
    ctx.stat("with_blocks_restored_exactly", sum(1 for r in results if not any(v["kind"] == "restore" for v in r["viol"])))
    for c, r in list(zip(cases, results))[1:4]:
        ctx.sample({"entry": c["entry"], "body": c["body"], "exns": r["exns"], "violations": [viol_key(v) for v in r["viol"]]})
    ctx.coverage_extra["scope"] = ("%d entry configurations x all bodies of length <= 2 over %d operations, nested-context triples, "
                                   "%s random histories%s" % (len(entries(diag_names)), len(alphabet(diag_names)),
                                                              NRAND_THOROUGH if ctx.thorough else NRAND_QUICK,
                                                              "; all bodies of length 3 over 14 operations from 5 entry configurations"
                                                              if ctx.thorough else ""))
    ctx.coverage_extra["builtin_groups"] = [{"label": l, "whiteChars": g[0], "copyDefaultWhiteChars": g[1]}
                                            for l, g in zip(real["labels"], real["groups"])]


def search(ctx, reasons):
    """tie broken and the enumerated oracle found nothing: widen on the implementation only"""
    import random
    info = run_worker([])
    A = alphabet(info["diag_names"])
    E = entries(info["diag_names"])
    rng = random.Random(ctx.seed + 1)
    cases = [{"mode": "with", "entry": rng.choice(E), "body": random_body(rng, A, rng.randint(1, 12), 3)}
             for _ in range(40000 if ctx.thorough else 8000)]
    real = run_worker(cases)
    for c, r in zip(cases, real["results"]):
        report_violations(ctx, c, r)
        ctx.stat("search_cases")


def replay(ctx, obj):
    r = obj["replay"]
    if r.get("kind") == "history":
        res = run_worker([r["case"]])["results"][0]
        for v in res["viol"]:
            print("%s  %s" % (viol_key(v), json.dumps(v)[:600]))
        return not res["viol"]
    print("replay names a broken proof/correspondence obligation: %r" % (r,))
    return False


if __name__ == "__main__" and "--worker" in sys.argv:
    worker_main()
