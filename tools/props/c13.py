"""C13 — parse actions are called with the documented protocol.

Correspondence (the runtime tie: CPython's traceback shape per callable kind is not modelled in Coq):
  A. wrapper level : pyparsing.core._trim_arity(f) for generated callables of every kind x arity 0..3 x call histories
                     (None / values incl. falsy / exceptions of six classes raised at call depth 1..3 / TypeError from a
                     nested wrong-arity call at depth 1..3)  vs  Model.Arity.whistory (vm_compute on the same cases):
                     outcome, arguments with which the body was entered, found_arity/limit after every call.
  B. parse level   : Word(alphas).add_parse_action(f...).parse_string("  abc") repeated (wrapper state persists), lists of
                     1..3 actions, MatchFirst fallback, conditions  vs  Model.Arity.run_actions + parse_string_out.
  C. containers    : a recording action inside Or / Each / SkipTo(+fail_on, include) / OneOrMore(stop_on) / NotAny /
                     FollowedBy / PrecededBy / an ignore expression, with and without call_during_try  vs  the do_actions
                     flag the generated call-site table predicts for the trial chain.
  D. C-level callables (int, float, str, "".join, ...) behind _trim_arity  vs  the model with depth-0 body TypeErrors.
The property's own oracle is evaluated on the implementation in every family (independently of Coq)."""
import functools, itertools, operator, sys
from tools import vlib

PROP = "C13"
GEN = ["gen_linediff"]
RULE = ("A: 16 callable kinds x arities 0-3 x all single behaviours (27) + selected pairs + seeded random triples; "
        "B: parse_string histories and action lists on Word(alphas) with leading whitespace; C: 18 container scenarios x "
        "call_during_try in {False, True}; D: 9 C-level callables.  non-trivial = the case involves an arity probe, an "
        "exception from inside the body, a replacement value, or a trial pass")
TRUSTED = [
    "Model/Arity.v reading of CPython: the test `traceback.extract_tb(tb, limit=2)[-1][:2] == pa_call_line_synth` is modelled "
    "as `origin depth = 0` (no Python frame of the callee on the traceback); that CPython produces depth 0 exactly for an "
    "argument-binding failure of def/lambda/method/partial/callable-object/class/*args callables, and for every TypeError "
    "of a C-implemented callable, is validated by tools/props/c13.py on the real interpreter, not proved",
    "tools/translate/gen_linediff.py: compares the wrapper / action-loop / parse_string statements with fixed templates "
    "(ast.dump equality) and emits flags; any other shape is refused",
    "Model/Arity.v expected_sites: the role (trial / main / lookahead / lookbehind / ignore / other) of each call site was "
    "assigned by reading the methods; C13_sites_complete pins the generated table to that list",
]
EXPLANATION = ("C13 is PARTIAL: the traceback shape CPython produces per callable kind is validated by correspondence, "
               "not proved.  Theorems of the form `if <generated fact> then <property> else <counterexample>` hold on "
               "either source tree; coverage.tree_state says which branch is live.")

VALS = [0, "", [], "X", ["a", "b"], 7.5]
EXC = ["TypeError", "IndexError", "ParseException", "ParseFatalException", "KeyError", "ValueError"]  # model kind codes 0..5


def _exc_class(name):
    import pyparsing as pp
    return {"TypeError": TypeError, "IndexError": IndexError, "KeyError": KeyError, "ValueError": ValueError,
            "ParseException": pp.ParseException, "ParseFatalException": pp.ParseFatalException}[name]


def _H2(a, b):
    return None


# -------------------------------------------------------------------------------------------------------------
# scripted bodies
# -------------------------------------------------------------------------------------------------------------
class Script:
    """what the body of the generated callable does on each wrapper call, and what it saw"""

    def __init__(self):
        self.cur = ("none",)
        self.exc = None
        self.value = None
        self.entries = []      # argument tuples with which the body was entered during the current call

    def start(self, beh, j):
        self.cur = beh
        self.entries = []
        self.exc = None
        self.value = None
        if beh[0] == "raise":
            cls = _exc_class(beh[1])
            if beh[1] in ("ParseException", "ParseFatalException"):
                self.exc = cls("the string", 0, "raised by action, call %d" % j)
            else:
                self.exc = cls("raised by action, call %d" % j)
        elif beh[0] == "val":
            v = VALS[beh[1]]
            self.value = list(v) if isinstance(v, list) else v

    def enter(self, args):
        self.entries.append(args)
        b = self.cur
        if b[0] == "raise" and b[2] == 1:
            return (1,)
        if b[0] == "arity" and b[1] == 1:
            return (2,)
        return (0,)

    def deeper(self):
        b = self.cur
        if b[0] == "none":
            return None
        if b[0] == "val":
            return self.value
        if b[0] == "echo":
            return self.entries[-1][-1]
        if b[0] == "raise":
            if b[2] <= 2:
                raise self.exc
            return self._d3()
        if b[0] == "arity":
            if b[1] <= 2:
                return _H2(1)
            return self._a3()
        raise AssertionError(b)

    def _d3(self):
        raise self.exc

    def _a3(self):
        return _H2(1)


BODY = """
    b_ = S_.enter(({argt}))
    if b_[0] == 1: raise S_.exc
    if b_[0] == 2: return H2_(1)
    return S_.deeper()
"""
INIT_BODY = """
    b_ = S_.enter(({argt}))
    if b_[0] == 1: raise S_.exc
    if b_[0] == 2: H2_(1)
    S_.deeper()
"""

KINDS = ["def", "lambda", "method", "static", "static-inst", "classmethod", "partial", "partial-kw", "callobj", "class",
         "varargs", "defaults", "kwonly-default", "kwonly-required", "toomany", "nested-def"]


def make_callable(kind, k, S):
    """returns (callable, accepts mask for 0..3 positional arguments, returns_instance)"""
    names = ["s", "l", "t"][3 - k:]
    params = ", ".join(names)
    argt = "".join(n + ", " for n in names)
    ns = {"S_": S, "H2_": _H2, "functools": functools}
    exact = [i == k for i in range(4)]
    body = BODY.format(argt=argt)
    if kind == "def":
        exec("def f(%s):%s" % (params, body), ns)
        return ns["f"], exact, False
    if kind == "nested-def":   # a closure defined inside another function
        exec("def outer():\n    def f(%s):%s\n    return f\nf = outer()" % (params, body.replace("\n", "\n    ")), ns)
        return ns["f"], exact, False
    if kind == "lambda":
        exec("f = lambda %s: (H2_(1) if S_.enter((%s))[0] == 2 else S_.deeper())" % (params, argt), ns)
        return ns["f"], exact, False
    if kind == "method":
        exec("class C:\n  def m(self%s):%s\nf = C().m" % ("".join(", " + n for n in names), body.replace("\n    ", "\n      ")), ns)
        return ns["f"], exact, False
    if kind in ("static", "static-inst"):
        exec("class C:\n  @staticmethod\n  def m(%s):%s\nf = %s.m" % (params, body.replace("\n    ", "\n      "),
                                                                   "C" if kind == "static" else "C()"), ns)
        return ns["f"], exact, False
    if kind == "classmethod":
        exec("class C:\n  @classmethod\n  def m(cls%s):%s\nf = C.m" % ("".join(", " + n for n in names), body.replace("\n    ", "\n      ")), ns)
        return ns["f"], exact, False
    if kind == "partial":
        exec("def g(extra%s):%s\nf = functools.partial(g, 99)" % ("".join(", " + n for n in names), body), ns)
        return ns["f"], exact, False
    if kind == "partial-kw":
        exec("def g(%s*, kw):%s\nf = functools.partial(g, kw=1)" % ("".join(n + ", " for n in names), body), ns)
        return ns["f"], exact, False
    if kind == "callobj":
        exec("class C:\n  def __call__(self%s):%s\nf = C()" % ("".join(", " + n for n in names), body.replace("\n    ", "\n      ")), ns)
        return ns["f"], exact, False
    if kind == "class":
        exec("class C:\n  def __init__(self%s):%s\nf = C" % ("".join(", " + n for n in names),
                                                           INIT_BODY.format(argt=argt).replace("\n    ", "\n      ")), ns)
        return ns["f"], exact, True
    if kind == "varargs":
        exec("def f(*a):%s" % BODY.format(argt="*a, "), ns)
        return ns["f"], [True] * 4, False
    if kind == "defaults":
        if k == 0:
            exec("def f():%s" % body, ns)
            return ns["f"], exact, False
        ps = ", ".join(names[:-1] + [names[-1] + "=None"])
        exec("def f(%s):%s" % (ps, body), ns)
        return ns["f"], [i in (k - 1, k) for i in range(4)], False
    if kind == "kwonly-default":
        exec("def f(%s*, opt=5):%s" % ("".join(n + ", " for n in names), body), ns)
        return ns["f"], exact, False
    if kind == "kwonly-required":
        exec("def f(%s*, req):%s" % ("".join(n + ", " for n in names), body), ns)
        return ns["f"], [False] * 4, False
    if kind == "toomany":
        exec("def f(a, b, c, d%s):%s" % ("".join(", x%d" % i for i in range(k)), BODY.format(argt="a, b, c, d, ")), ns)
        return ns["f"], [False] * 4, False
    raise AssertionError(kind)


def behaviours():
    out = [("none",)] + [("val", i) for i in range(len(VALS))]
    for d in (1, 2, 3):
        for e in EXC:
            out.append(("raise", e, d))
        out.append(("arity", d))
    return out


def beh_key(b):
    return ":".join(str(x) for x in b)


def wrapper_state(w):
    if getattr(w, "__closure__", None):
        d = dict(zip(w.__code__.co_freevars, [c.cell_contents for c in w.__closure__]))
        if "found_arity" in d:
            return [bool(d["found_arity"]), int(d["limit"])]
    return None


# -------------------------------------------------------------------------------------------------------------
# A. wrapper level: implementation side
# -------------------------------------------------------------------------------------------------------------
ARGS = ("the input string", 7, ["tok"])


def run_wrapper_history(kind, k, hist):
    """returns list of per-call observations on the real wrapper"""
    from pyparsing.core import _trim_arity, _ParseActionIndexError
    S = Script()
    f, mask, inst = make_callable(kind, k, S)
    w = _trim_arity(f)
    obs = []
    for j, beh in enumerate(hist):
        S.start(beh, j)
        o = {}
        try:
            ret = w(*ARGS)
            if ret is None:
                o["out"] = ["none"]
            elif inst and isinstance(ret, f):
                o["out"] = ["instance"]
            else:
                o["out"] = ["val", ret is S.value]
        except _ParseActionIndexError as e:
            o["out"] = ["pa", e.exc is S.exc, type(e.exc).__name__]
        except BaseException as e:  # noqa
            o["out"] = ["raw", (e is S.exc) if S.exc is not None else None, type(e).__name__]
        o["entries"] = [[ARGS.index(a) + 1 if any(a is x for x in ARGS) else -1 for a in ent] for ent in S.entries]
        o["state"] = wrapper_state(w)
        obs.append(o)
    return obs, mask, inst


def oracle_wrapper(kind, k, hist, obs, mask, inst):
    """the property on the implementation, wrapper level; returns None or (mechanism-key, description)"""
    ks = [i for i in range(4) if mask[i]]
    for j, (beh, o) in enumerate(zip(hist, obs)):
        out = o["out"]
        if not ks:
            if o["entries"]:
                return "body-entered-without-acceptable-arity", "call %d: body entered %r" % (j, o["entries"])
            if not (out[0] == "raw" and out[2] == "TypeError"):
                return "no-arity-but-no-typeerror", "call %d: %r" % (j, out)
            continue
        kk = max(ks)
        want = [list(range(4 - kk, 4))]
        if o["entries"] != want:
            return ("wrong-args-or-count:%s" % beh[0],
                    "call %d (%s): body entered with %r, expected exactly once with the trailing %d of (s, loc, toks) = %r" % (
                        j, beh_key(beh), o["entries"], kk, want))
        if beh[0] == "none":
            ok = out == ["none"] or (inst and out == ["instance"])
        elif beh[0] == "val":
            ok = out == ["val", True] or (inst and out == ["instance"])
        elif beh[0] == "arity":
            ok = out[0] == "raw" and out[2] == "TypeError"
        elif beh[0] == "raise" and beh[1] == "IndexError":
            ok = (out[0] == "pa" and out[1] is True) or (out[0] == "raw" and out[1] is True)  # parse level decides
        else:
            ok = out[0] == "raw" and out[1] is True
        if not ok:
            return ("wrong-outcome:%s" % ":".join(str(x) for x in beh[:2]),
                    "call %d (%s): wrapper outcome %r" % (j, beh_key(beh), out))
    return None


# -------------------------------------------------------------------------------------------------------------
# model side (Coq)
# -------------------------------------------------------------------------------------------------------------
PREAMBLE = r"""
From Coq Require Import List Arith Bool.
From PP Require Import Model.Arity Gen.GenLineDiff.
Import ListNotations.
Inductive sb := SNone | SVal (v : nat) | SEcho | SRaise (k d id : nat).
Definition kind_of (k : nat) : exn_kind :=
  match k with 0 => KTypeError | 1 => KIndexError | 2 => KParseException | 3 => KParseFatal | S (S (S (S n))) => KOther n end.
Definition kind_code (k : exn_kind) : nat :=
  match k with KTypeError => 0 | KIndexError => 1 | KParseException => 2 | KParseFatal => 3 | KOther n => 4 + n end.
Definition sb_res (a : list nat) (b : sb) : body_result nat :=
  match b with SNone => BNone | SVal v => BValue v | SEcho => BValue (last a 0) | SRaise k d i => BRaise (mkExn (kind_of k) d i) end.
Definition body_of (bs : list sb) : list nat -> body_result nat := fun a => sb_res a (nth (length a) bs SNone).
Definition enc_exn (e : exn) := [kind_code (e_kind e); e_depth e; e_id e].
Definition enc_raised (x : raised) : list nat :=
  match x with Raw e => 2 :: enc_exn e | PAIndexError e => 3 :: enc_exn e | ParseExcFrom e => 4 :: enc_exn e end.
Definition enc_out (o : woutcome nat) : list nat :=
  match o with WReturn RNone => [0] | WReturn (RVal v) => [1; v] | WRaise x => enc_raised x | WFuel => [9] end.
Definition enc_res (r : wresult nat) :=
  (enc_out (w_out nat r), (found (w_state nat r), limit (w_state nat r)), w_trace nat r, w_calls nat r).
Definition acc_of (m : list bool) : nat -> bool := fun n => nth n m false.
Definition run_case (m : list bool) (calls : list (list sb)) :=
  map enc_res (fst (whistory nat gen_shape (acc_of m) gen_max_limit w_init (map (fun bs => ([1; 2; 3], body_of bs)) calls))).
Definition enc_lout (o : loop_out nat) : list nat := match o with LOk t => [0; t] | LRaise x => enc_raised x end.
Definition mkres (v : nat) : nat := 1000 + v.
Fixpoint run_parses (m : list bool) (st : wstate) (calls : list (list sb)) : list (list nat * (bool * nat)) :=
  match calls with
  | [] => []
  | bs :: rest =>
      let lr := run_actions nat Nat.eqb mkres gen_shape gen_loop_converts_index gen_max_limit true false
                  [mkAction nat false (mkCallable nat (acc_of m) (body_of bs)) st] 1 2 3 in
      let st' := match l_actions nat lr with a :: _ => a_st nat a | [] => st end in
      (enc_lout (parse_string_out nat gen_parse_string_unwraps (l_out nat lr)), (found st', limit st')) :: run_parses m st' rest
  end.
Definition run_list (acts : list (list bool * list sb)) (d c : bool) :=
  let lr := run_actions nat Nat.eqb mkres gen_shape gen_loop_converts_index gen_max_limit d c
              (map (fun a => mkAction nat false (mkCallable nat (acc_of (fst a)) (body_of (snd a))) w_init) acts) 1 2 3 in
  (enc_lout (parse_string_out nat gen_parse_string_unwraps (l_out nat lr)), l_trace nat lr).
Definition chain_flag (keys : list (string * string * nat * callee)) (d : bool) : option bool :=
  (fix go ks acc := match ks with
                    | [] => Some acc
                    | k :: rest => match find_site gen_sites k with
                                   | Some s => go rest (eff_parse gen_defaults gen_try_parse_passes gen_can_parse_next_passes s acc)
                                   | None => None end end) keys d.
Definition tree_state := (index_always_wrapped gen_shape,
                          lookbehind_silent gen_defaults gen_try_parse_passes gen_can_parse_next_passes gen_sites).
"""
# index_always_wrapped lives in Proofs/ArityProofs.v
PREAMBLE = PREAMBLE.replace("From PP Require Import Model.Arity Gen.GenLineDiff.",
                            "From Coq Require Import String.\nFrom PP Require Import Model.Arity Gen.GenLineDiff Proofs.ArityProofs.")
PREAMBLE = PREAMBLE.replace("nth (length a) bs SNone", "nth (List.length a) bs SNone")


def coq_bool(b):
    return "true" if b else "false"


def coq_sb(beh, j):
    if beh[0] == "none":
        return "SNone"
    if beh[0] == "val":
        return "SVal %d" % (10 + beh[1])
    if beh[0] == "instance":
        return "SVal 99"
    if beh[0] == "echo":
        return "SEcho"
    if beh[0] == "raise":
        return "SRaise %d %d %d" % (EXC.index(beh[1]), beh[2], j + 1)
    if beh[0] == "arity":
        return "SRaise 0 %d %d" % (beh[1], j + 1)
    if beh[0] == "craise":      # C-level: depth 0
        return "SRaise %d 0 %d" % (beh[1], j + 1)
    raise AssertionError(beh)


def coq_call(beh, j, inst=False):
    if inst and beh[0] in ("none", "val"):
        beh = ("instance",)
    return "[" + "; ".join([coq_sb(beh, j)] * 4) + "]"


def coq_mask(mask):
    return "[" + "; ".join(coq_bool(x) for x in mask) + "]"


def model_expect_wrapper(res, hist, inst):
    """translate the model's per-call tuples into the observation format of run_wrapper_history"""
    out = []
    for j, (beh, r) in enumerate(zip(hist, res)):
        enc, (fnd, lim), trace, calls = r
        o = {}
        if enc[0] == 0:
            o["out"] = ["none"]
        elif enc[0] == 1:
            o["out"] = ["instance"] if enc[1] == 99 else ["val", True]
        elif enc[0] in (2, 3):
            name = EXC[enc[1]] if enc[1] < len(EXC) else "?"
            ident = True if not (beh[0] == "arity" or enc[3] == 0) else None
            o["out"] = ["raw" if enc[0] == 2 else "pa", ident, name]
        else:
            o["out"] = ["?", enc]
        o["entries"] = [list(t) for t in trace]
        o["state"] = [bool(fnd), int(lim)]
        out.append(o)
    return out


# -------------------------------------------------------------------------------------------------------------
# B. parse level
# -------------------------------------------------------------------------------------------------------------
INPUT = "  abc"


def run_parse_history(kind, k, hist):
    import pyparsing as pp
    from pyparsing.core import _ParseActionIndexError
    S = Script()
    f, mask, inst = make_callable(kind, k, S)
    el = pp.Word(pp.alphas).add_parse_action(f)
    obs = []
    for j, beh in enumerate(hist):
        S.start(beh, j)
        o = {}
        try:
            r = el.parse_string(INPUT)
            o["out"] = ["ok", r.as_list()]
        except _ParseActionIndexError as e:
            o["out"] = ["pa", e.exc is S.exc]
        except pp.ParseBaseException as e:
            o["out"] = ["pexc", e is S.exc, type(e).__name__, e.__cause__ is S.exc if S.exc is not None else None]
        except BaseException as e:  # noqa
            o["out"] = ["raw", (e is S.exc) if S.exc is not None else None, type(e).__name__]
        ents = []
        for ent in S.entries:
            row = []
            for a in ent:
                if isinstance(a, str):
                    row.append(1 if a == INPUT else -1)
                elif isinstance(a, int):
                    row.append(2 if a == 2 else -2)      # loc after whitespace skipping
                elif isinstance(a, pp.ParseResults):
                    row.append(3 if a.as_list() == ["abc"] else -3)
                else:
                    row.append(-9)
            ents.append(row)
        o["entries"] = ents
        o["state"] = wrapper_state(el.parseAction[0])
        o["value"] = S.value
        obs.append(o)
    return obs, mask, inst, f


def expected_tokens(beh, S_value, inst, f):
    import pyparsing as pp
    if beh[0] == "none" and not inst:
        return ["abc"]
    if inst:
        return None  # [instance]
    return pp.ParseResults(S_value).as_list()


def oracle_parse(kind, k, hist, obs, mask, inst, f):
    ks = [i for i in range(4) if mask[i]]
    prev_ok = False
    for j, (beh, o) in enumerate(zip(hist, obs)):
        out = o["out"]
        if not ks:
            if not (out[0] == "raw" and out[2] == "TypeError") or o["entries"]:
                return "no-arity-but-no-typeerror", "parse %d: %r" % (j, out)
            continue
        kk = max(ks)
        want = [list(range(4 - kk, 4))]
        if o["entries"] != want:
            return ("parse:wrong-args-or-count:%s" % beh[0],
                    "parse %d (%s): body entered with %r (1=instring, 2=loc after whitespace, 3=tokens; negative = wrong value), "
                    "expected %r" % (j, beh_key(beh), o["entries"], want))
        if beh[0] in ("none", "val"):
            if inst:
                ok = out[0] == "ok" and len(out[1]) == 1 and isinstance(out[1][0], f)
            else:
                ok = out[0] == "ok" and out[1] == expected_tokens(beh, o["value"], inst, f)
            if not ok:
                return "parse:return-rule:%s" % beh_key(beh), "parse %d (%s): tokens %r" % (j, beh_key(beh), out)
            prev_ok = True
        elif beh[0] == "arity":
            if not (out[0] == "raw" and out[2] == "TypeError"):
                return "parse:nested-arity-typeerror-lost", "parse %d: %r" % (j, out)
        elif beh[1] in ("ParseException", "ParseFatalException"):
            if not (out[0] == "pexc" and out[1] is True):
                return "parse:parse-exception-not-propagated", "parse %d (%s): %r" % (j, beh_key(beh), out)
        else:
            if not (out[0] == "raw" and out[1] is True):
                if beh[1] == "IndexError" and out[0] == "pexc" and out[3] is True:
                    mech = "F13b:IndexError-after-first-success->ParseException" if prev_ok else \
                        "IndexError-before-any-success->ParseException"
                    return mech, ("parse %d of the same element: the action raised IndexError inside its body, parse_string raised "
                                  "%s('exception raised in parse action') instead (callable kind %s, arity %d, history %s)" % (
                                      j, out[2], kind, k, [beh_key(b) for b in hist]))
                return ("parse:exception-changed:%s" % beh[1],
                        "parse %d (%s): expected the same %s object out of parse_string, got %r" % (j, beh_key(beh), beh[1], out))
    return None


def model_expect_parse(res, hist, inst):
    out = []
    for j, (beh, r) in enumerate(zip(hist, res)):
        enc, (fnd, lim) = r
        if enc[0] == 0:
            o = ["ok-same" if enc[1] == 3 else "ok-replaced"]
        elif enc[0] == 2:
            o = ["pexc" if enc[1] in (2, 3) else "raw", EXC[enc[1]]]
        elif enc[0] == 3:
            o = ["pa"]
        elif enc[0] == 4:
            o = ["pexc-from"]
        else:
            o = ["?"]
        out.append((o, [bool(fnd), int(lim)]))
    return out


def classify_parse_obs(beh, o, inst):
    out = o["out"]
    if out[0] == "ok":
        if out[1] == ["abc"]:
            return ["ok-same"]
        return ["ok-replaced"]
    if out[0] == "pa":
        return ["pa"]
    if out[0] == "pexc":
        if out[1] is True:
            return ["pexc", out[2] if out[2] in EXC else "ParseFatalException"]
        if out[3] is True:
            return ["pexc-from"]
        return ["pexc-other"]
    return ["raw", out[2]]


# action lists -------------------------------------------------------------------------------------------------
LIST_BEHS = [("none",), ("val", 0), ("val", 1), ("val", 2), ("val", 3), ("echo",)]


def run_action_list(spec, cdt=False, do_parse=True):
    """spec: list of (arity, beh); all 'def' callables on one Word; returns (as_list or exception name, entries per action)"""
    import pyparsing as pp
    scripts, fs = [], []
    el = pp.Word(pp.alphas)
    for (k, beh) in spec:
        S = Script()
        f, _, _ = make_callable("def", k, S)
        S.start(beh, 0)
        scripts.append(S)
        fs.append(f)
    el.add_parse_action(*fs)
    try:
        r = el.parse_string(INPUT)
        out = ["ok", r.as_list()]
    except BaseException as e:  # noqa
        out = ["exc", type(e).__name__]
    ents = [[[(a.as_list() if isinstance(a, pp.ParseResults) else a) for a in ent] for ent in S.entries] for S in scripts]
    return out, ents, scripts


def python_fold(spec):
    """reference for C13_return on the implementation: what the tokens must be after the list of actions"""
    import pyparsing as pp
    cur = ["abc"]
    seen = []
    for (k, beh) in spec:
        seen.append(list(cur))
        if beh[0] == "none" or beh[0] == "echo" and k >= 1:
            continue
        if beh[0] == "echo":  # arity 0: no argument to echo -> our script returns entries[-1][-1] -> IndexError; not generated
            continue
        v = VALS[beh[1]]
        cur = pp.ParseResults(list(v) if isinstance(v, list) else v).as_list()
    return cur, seen


# -------------------------------------------------------------------------------------------------------------
# C. containers
# -------------------------------------------------------------------------------------------------------------
def _scenarios():
    """name -> (builder(rec, cdt) -> grammar, input, firings expected by the property [(loc, tokens)],
                trial chain (site keys) or None, number of trial attempts in which the inner element matches,
                firings that belong to the main pass per the model)"""
    import pyparsing as pp
    W, A, N, AN = pp.Word, pp.alphas, pp.nums, pp.alphanums

    def X(rec, cdt, base=None):
        e = (base if base is not None else W(A))
        return e.copy().add_parse_action(rec, call_during_try=cdt)

    OR0 = ("Or", "parseImpl", 0, "CTryParse")
    EACH0 = ("Each", "parseImpl", 0, "CTryParse")
    SK0, SK1, SK2, SK3 = [("SkipTo", "parseImpl", i, c) for i, c in enumerate(["CCanParseNext", "CTryParse", "CParse", "CParse"])]
    MM0, MM2 = ("_MultipleMatch", "parseImpl", 0, "CTryParse"), ("_MultipleMatch", "parseImpl", 2, "CTryParse")
    NA = ("NotAny", "parseImpl", 0, "CCanParseNext")
    FB = ("FollowedBy", "parseImpl", 0, "CParse")
    PB = ("PrecededBy", "parseImpl", 0, "CParse")
    AND0, AND1 = ("And", "parseImpl", 0, "CParse"), ("And", "parseImpl", 1, "CParse")
    IGN = ("ParserElement", "_skipIgnorables", 0, "CParse")
    sc = {}
    sc["or-loses"] = (lambda r, c: X(r, c) ^ W(AN), "abc1", [], [OR0], 1, 0)
    sc["or-wins"] = (lambda r, c: X(r, c) ^ W(N), "abc", [(0, ["abc"])], [OR0], 1, 1)
    sc["or-tie-first"] = (lambda r, c: X(r, c) ^ W(AN), "abc", [(0, ["abc"])], [OR0], 1, 1)
    # ties: '^' returns the FIRST of the alternatives tied at the longest match; a later tied alternative is not what is returned
    sc["or-tie-second"] = (lambda r, c: W(AN) ^ X(r, c), "abc", [], None, 0, 0)
    sc["or-tie-third"] = (lambda r, c: pp.Literal("ab") ^ W(AN) ^ W(A + "_") ^ X(r, c), "abc", [], None, 0, 0)
    sc["or-tie-second-in-seq"] = (lambda r, c: (W(AN) ^ X(r, c)) + W(N), "abc 12", [], None, 0, 0)
    sc["each"] = (lambda r, c: X(r, c) & W(N), "12 ab", [(3, ["ab"])], [EACH0], 1, 1)
    sc["skipto-scan"] = (lambda r, c: pp.SkipTo(X(r, c)), "12 ab", [], [SK2], 1, 0)
    sc["skipto-include"] = (lambda r, c: pp.SkipTo(X(r, c), include=True), "12 ab", [(3, ["ab"])], [SK2], 1, 1)
    sc["skipto-failon"] = (lambda r, c: pp.SkipTo(W(N), fail_on=X(r, c, pp.Literal("!"))) | W(AN + "!"), "a!1", [], [SK0], 1, 0)
    sc["ignore-in-skipto"] = (lambda r, c: pp.SkipTo(W(N), ignore=X(r, c, pp.Literal("#") + W(A))), "x #ab 1", [], [SK1, IGN], 1, 0)
    sc["stop-on"] = (lambda r, c: pp.OneOrMore(W(AN), stop_on=X(r, c, pp.Keyword("end"))), "a b end", [], [MM2], 1, 0)
    sc["stop-on-first"] = (lambda r, c: pp.OneOrMore(W(AN), stop_on=X(r, c, pp.Keyword("end"))) | W(A), "end", [], [MM0], 1, 0)
    sc["zeroormore-stop-on"] = (lambda r, c: pp.ZeroOrMore(W(AN), stop_on=X(r, c, pp.Keyword("end"))), "a end", [], [MM2], 1, 0)
    sc["notany-in-or-trial"] = (lambda r, c: (~X(r, c, W(N)) + W(AN)) ^ W(A), "12", [], None, 0, 1)  # documented separately below
    sc["followedby-in-or"] = (lambda r, c: (pp.FollowedBy(X(r, c)) + W(A)) ^ W(N), "ab", [(0, ["ab"])], [OR0, AND0, FB], 1, 1)
    sc["followedby-in-or-loses"] = (lambda r, c: (pp.FollowedBy(X(r, c)) + W(A)) ^ W(AN), "ab1", [], [OR0, AND0, FB], 1, 0)
    sc["precededby-in-or"] = (lambda r, c: (pp.Literal("a") + pp.PrecededBy(X(r, c, pp.Literal("a"))) + pp.Literal("b")) ^ pp.Literal("abc"),
                              "abc", [], [OR0, AND1, PB], 1, 0)
    sc["precededby-in-skipto"] = (lambda r, c: pp.SkipTo(pp.PrecededBy(X(r, c, pp.Literal("a"))) + pp.Literal("b")),
                                  "xab", [], [SK2, AND0, PB], 1, 0)
    sc["precededby-window-in-or"] = (lambda r, c: (W(A) + pp.PrecededBy(X(r, c, W(A)), retreat=2) + W(N)) ^ W(AN + "!"),
                                     "ab1!", [], [OR0, AND1, ("PrecededBy", "parseImpl", 1, "CParse")], 1, 0)
    sc["ignore-in-or"] = (lambda r, c: ((W(A) + W(A)) ^ W(AN)).ignore(X(r, c, pp.Literal("#") + W(N))),
                          "ab #12 cd", [(3, ["#", "12"])], [OR0, AND1, IGN], 1, 1)
    # Each nested inside the trial constructs: both passes of Each.parseImpl must forward do_actions (oracle only, no site chain)
    sc["each-in-or-loses"] = (lambda r, c: (X(r, c) & W(N)) ^ (W(A) + W(N) + "!"), "ab 12 !", [], None, 0, 0)
    sc["each-in-or-wins"] = (lambda r, c: (X(r, c) & W(N)) ^ W(A), "ab 12", [(0, ["ab"])], None, 0, 1)
    sc["each-in-skipto"] = (lambda r, c: pp.SkipTo(X(r, c) & W(N)), "! ab 12", [], None, 0, 0)
    sc["each-in-skipto-include"] = (lambda r, c: pp.SkipTo(X(r, c) & W(N), include=True), "! 12 ab", [(5, ["ab"])], None, 0, 1)
    sc["each-in-stop-on"] = (lambda r, c: pp.OneOrMore(W(AN), stop_on=(X(r, c, pp.Keyword("end")) & pp.Literal("!"))), "a b end !", [], None, 0, 0)
    # the call_during_try flag belongs to the action list: set_parse_action(fn) REPLACES the actions and, without
    # call_during_try=True, the element must no longer fire in trial passes (add_parse_action, by contrast, keeps an earlier True)
    def Xset(rec, cdt, base=None):
        e = (base if base is not None else W(A)).copy()
        e.add_parse_action(lambda t: None, call_during_try=True)
        return e.set_parse_action(rec, call_during_try=cdt)
    sc["set-after-calltry-or-loses"] = (lambda r, c: Xset(r, c) ^ W(AN), "abc1", [], None, 0, 0)
    sc["set-after-calltry-or-wins"] = (lambda r, c: Xset(r, c) ^ W(N), "abc", [(0, ["abc"])], None, 0, 1)
    sc["set-after-calltry-skipto"] = (lambda r, c: pp.SkipTo(Xset(r, c)), "12 ab", [], None, 0, 0)
    sc["set-after-calltry-stop-on"] = (lambda r, c: pp.OneOrMore(W(AN), stop_on=Xset(r, c, pp.Keyword("end"))), "a b end", [], None, 0, 0)
    sc["each-opt-in-or-loses"] = (lambda r, c: (pp.Opt(X(r, c)) & W(N)) ^ (W(A) + W(N) + "!"), "ab 12 !", [], None, 0, 0)
    return sc


def run_scenario(name, cdt):
    import pyparsing as pp
    sc = _scenarios()[name]
    fired = []

    def rec(s, l, t):
        in_try = False
        fr = sys._getframe(1)
        while fr is not None:
            if fr.f_code.co_name in ("try_parse", "can_parse_next"):
                in_try = True
                break
            fr = fr.f_back
        fired.append((l, t.as_list(), in_try))

    g = sc[0](rec, cdt)
    try:
        r = g.parse_string(sc[1])
        out = ["ok", r.as_list()]
    except pp.ParseBaseException as e:
        out = ["fail", type(e).__name__]
    return out, fired


class _BodyError(Exception):
    pass


RAISED = [IndexError, KeyError, ValueError, ZeroDivisionError, AttributeError, _BodyError]


def _extra_raising_scenarios():
    """grammars used only by the raising oracle: the inner element matches in the MAIN pass of a lookahead"""
    import pyparsing as pp
    W, A, N, AN = pp.Word, pp.alphas, pp.nums, pp.alphanums

    def X(rec, cdt, base):
        return base.copy().add_parse_action(rec, call_during_try=cdt)
    return {
        "notany-main": (lambda r, c: (~X(r, c, W(N)) + W(AN)) | W(AN), "12"),
        "notany-in-repetition": (lambda r, c: pp.OneOrMore(~X(r, c, pp.Keyword("end")) + W(A)) + "end", "a b end"),
        "followedby-main": (lambda r, c: pp.FollowedBy(X(r, c, W(A))) + W(AN), "ab1"),
        "notany-of-sequence": (lambda r, c: (~(W(A) + X(r, c, W(N))) + W(AN)[...]) | W(AN)[...], "a 1"),
    }


def run_scenario_raising(name, cdt, exc_cls):
    """the same scenario with an action whose BODY raises exc_cls (two frames below the action) the first time it is called;
    returns ('raised', class name) / ('ok', tokens) / ('fail', ParseException class name), and how often the action was entered"""
    import pyparsing as pp
    sc = _scenarios().get(name) or _extra_raising_scenarios()[name]
    entered = []

    def deeper(t):
        if exc_cls is IndexError:
            return [][len(t) + 3]
        if exc_cls is KeyError:
            return {}["k"]
        if exc_cls is ZeroDivisionError:
            return 1 // 0
        if exc_cls is AttributeError:
            return None.nothing
        raise exc_cls("from the action body")

    def rec(s, l, t):
        entered.append(l)
        return deeper(t)

    g = sc[0](rec, cdt)
    try:
        r = g.parse_string(sc[1])
        return ("ok", r.as_list()), len(entered)
    except pp.ParseBaseException as e:
        return ("fail", type(e).__name__), len(entered)
    except Exception as e:
        return ("raised", type(e).__name__), len(entered)


# -------------------------------------------------------------------------------------------------------------
# D. C-level callables
# -------------------------------------------------------------------------------------------------------------
def c_callables():
    """name -> (callable, tokens, set of positional argument counts it can bind (hand-written from the docs))"""
    return {
        "int": (int, ["12"], {0, 1, 2}),
        "float": (float, ["1.5"], {0, 1}),
        "str": (str, ["12"], {0, 1, 2, 3}),
        "bool": (bool, ["12"], {0, 1}),
        "str.join-ok": ("".join, ["a", "b"], {1}),
        "str.join-int-token": ("".join, ["a", 1], {1}),
        "str.upper-unbound": (str.upper, ["ab"], {1}),
        "itemgetter0": (operator.itemgetter(0), ["ab"], {1}),
        "dict": (dict, [("k", "v")], {0, 1}),
    }


def direct(f, args):
    try:
        v = f(*args)
        return ["val", v]
    except BaseException as e:  # noqa
        return ["exc", type(e).__name__, str(e)]


def run_c_callable(name):
    from pyparsing.core import _trim_arity, _ParseActionIndexError
    f, toks, binds = c_callables()[name]
    args = ("12", 0, toks)
    per = [direct(f, args[3 - k:]) for k in range(4)]      # behaviour per argument count 0..3
    w = _trim_arity(f)
    try:
        got = ["val", w(*args)]
    except _ParseActionIndexError as e:
        got = ["pa", type(e.exc).__name__, str(e.exc)]
    except BaseException as e:  # noqa
        got = ["exc", type(e).__name__, str(e)]
    return per, got, wrapper_state(w), binds


# -------------------------------------------------------------------------------------------------------------
def _histories(ctx):
    B = behaviours()
    singles = [[b] for b in B]
    firsts = [("none",), ("val", 3), ("raise", "TypeError", 1), ("raise", "IndexError", 2), ("arity", 1),
              ("raise", "ParseException", 1), ("raise", "KeyError", 3)]
    pairs = [[a, b] for a in firsts for b in B]
    triples = []
    n3 = 60 if not ctx.thorough else 600
    for _ in range(n3):
        triples.append([ctx.rng.choice(B) for _ in range(3)])
    return singles, pairs, triples


def adapter_cases():
    """condition_as_parse_action / OnlyOnce / trace_parse_action put a second _trim_arity wrapper around the user's function: a
    TypeError raised by the BODY of that function (first call, or after calls that ended in a ParseException) must still reach
    the caller unchanged - it is not an arity probe of either wrapper"""
    import io, contextlib
    import pyparsing as pp
    out = []

    def body3(s, l, t):
        raise TypeError("boom from the body")

    def body1(t):
        raise TypeError("boom from the body")

    def run(el, text="abc"):
        buf = io.StringIO()
        with contextlib.redirect_stdout(buf), contextlib.redirect_stderr(buf):
            try:
                el.parse_string(text)
                return "returned"
            except pp.ParseBaseException as e:
                return "ParseBaseException: " + type(e).__name__
            except Exception as e:
                return "%s: %s" % (type(e).__name__, e)
    want = "TypeError: boom from the body"
    W = lambda: pp.Word(pp.alphas)
    for nm, fn in (("3-arg", body3), ("1-arg", body1)):
        out.append(("condition_as_parse_action(%s) first call" % nm, run(W().add_parse_action(pp.condition_as_parse_action(fn))), want))
        out.append(("OnlyOnce(%s) first call" % nm, run(W().add_parse_action(pp.OnlyOnce(fn))), want))
        out.append(("trace_parse_action(%s) first call" % nm, run(W().add_parse_action(pp.trace_parse_action(fn))), want))
        out.append(("plain %s first call" % nm, run(W().add_parse_action(fn)), want))
    # after calls that ended in a ParseException (a failed condition), still no successful call
    state = {"n": 0}

    def cond(t):
        state["n"] += 1
        if state["n"] <= 2:
            return False
        raise TypeError("boom from the body")
    el = W().add_parse_action(pp.condition_as_parse_action(cond, message="no"))
    run(el), run(el)
    out.append(("condition_as_parse_action after two failed conditions", run(el), want))
    return out


def correspond(ctx):
    from tools.harness import synonyms
    synonyms.check(ctx, {"setParseAction", "addParseAction", "addCondition", "setFailAction", "canParseNext", "tryParse"}, 'actions')
    import pyparsing as pp
    singles, pairs, triples = _histories(ctx)
    model_ok = not any(t.startswith(("translator:", "proof:")) for t in ctx.tie_broken)

    # ---------------- cases of family A and B
    casesA = []   # (kind, k, hist)
    for kind in KINDS:
        for k in range(4):
            hs = list(singles)
            if kind in ("def", "lambda", "method", "partial", "callobj", "class", "varargs", "defaults"):
                hs += pairs
            else:
                hs += pairs[::5]
            if kind in ("def", "method", "callobj", "varargs"):
                hs += triples
            for h in hs:
                casesA.append((kind, k, h))
    casesB = []
    for kind in ("def", "lambda", "method", "partial", "callobj", "class", "varargs", "static"):
        for k in range(4):
            for h in singles + pairs[::3] + triples[:20]:
                casesB.append((kind, k, h))

    # ---------------- model evaluation, deduplicated by (mask, inst, history)
    def mkey(mask, inst, h):
        return (tuple(mask), inst, tuple(h))

    exprsA, idxA, exprsB, idxB = [], {}, [], {}
    maskcache = {}
    for (kind, k, h) in casesA + casesB:
        if (kind, k) not in maskcache:
            _, m, inst = make_callable(kind, k, Script())
            maskcache[(kind, k)] = (m, inst)
    for (kind, k, h) in casesA:
        m, inst = maskcache[(kind, k)]
        key = mkey(m, inst, h)
        if key not in idxA:
            idxA[key] = len(exprsA)
            exprsA.append("run_case %s [%s]" % (coq_mask(m), "; ".join(coq_call(b, j, inst) for j, b in enumerate(h))))
    for (kind, k, h) in casesB:
        m, inst = maskcache[(kind, k)]
        key = mkey(m, inst, h)
        if key not in idxB:
            idxB[key] = len(exprsB)
            exprsB.append("run_parses %s w_init [%s]" % (coq_mask(m), "; ".join(coq_call(b, j, inst) for j, b in enumerate(h))))

    # action lists (C13_return)
    specs = []
    for n in (1, 2, 3):
        for combo in itertools.product(LIST_BEHS, repeat=n):
            if n == 3 and ctx.rng.random() > (0.35 if not ctx.thorough else 1.0):
                continue
            ks = [ctx.rng.choice([1, 2, 3]) if b[0] == "echo" else ctx.rng.randint(0, 3) for b in combo]
            specs.append(list(zip(ks, combo)))
    exprsL = []
    for spec in specs:
        acts = "; ".join("(%s, %s)" % (coq_mask([i == k for i in range(4)]), coq_call(b, 0)) for (k, b) in spec)
        exprsL.append("run_list [%s] true false" % acts)

    # containers: model's flag along the trial chain
    scen = _scenarios()
    names = sorted(scen)
    exprsC = []
    for nm in names:
        chain = scen[nm][3]
        if chain is None:
            exprsC.append("@None bool")
        else:
            exprsC.append("chain_flag [%s] true" % "; ".join('("%s"%%string, "%s"%%string, %d, %s)' % c for c in chain))

    resA = resB = resL = resC = None
    tree = None
    if model_ok:
        try:
            allx = exprsA + exprsB + exprsL + exprsC + ["tree_state"]
            shard = 1500
            out = []
            for i in range(0, len(allx), shard):
                out += vlib.coq_eval_terms("c13_cases_%d" % (i // shard), PREAMBLE, allx[i:i + shard], timeout=900)
            resA = out[:len(exprsA)]
            resB = out[len(exprsA):len(exprsA) + len(exprsB)]
            resL = out[len(exprsA) + len(exprsB):len(exprsA) + len(exprsB) + len(exprsL)]
            resC = out[len(exprsA) + len(exprsB) + len(exprsL):-1]
            tree = out[-1]
        except Exception as e:
            ctx.broken("correspondence:model-eval (%s)" % str(e)[:300])
    if tree is not None:
        ctx.coverage_extra["tree_state"] = {
            "index_always_wrapped (C13_index_error_by_shape: True = property branch)": bool(tree[0]),
            "lookbehind_silent (C13_precededby_by_table: True = property branch)": bool(tree[1])}
        ctx.thm_status["C13_index_error_by_shape"] = "full (property branch live)" if tree[0] else \
            "refuted-witness (counterexample branch live: F-13b)"
        ctx.thm_status["C13_precededby_by_table"] = "full (property branch live)" if tree[1] else \
            "refuted-witness (counterexample branch live: F-13)"
    ctx.stat("model_cases_distinct", len(exprsA) + len(exprsB) + len(exprsL) + len(exprsC))

    # ---------------- A
    for (kind, k, h) in casesA:
        obs, mask, inst = run_wrapper_history(kind, k, h)
        bad = oracle_wrapper(kind, k, h, obs, mask, inst)
        cid = "A|%s|%d|%s" % (kind, k, ",".join(beh_key(b) for b in h))
        if bad:
            ctx.violation("wrapper:%s:%s:%d" % (bad[0], kind, k) if not bad[0].startswith("F13") else bad[0],
                          "_trim_arity(%s callable taking %d args), history %s: %s" % (kind, k, [beh_key(b) for b in h], bad[1]),
                          {"kind": "wrapper", "callable": kind, "arity": k, "history": [list(b) for b in h]})
        agreed = True
        if resA is not None:
            exp = model_expect_wrapper(resA[idxA[mkey(mask, inst, h)]], h, inst)
            for j, (o, e) in enumerate(zip(obs, exp)):
                oo = list(o["out"])
                if oo[0] in ("raw", "pa") and len(e["out"]) > 1 and e["out"][1] is None:
                    oo[1] = None
                if oo != e["out"] or o["entries"] != e["entries"] or (o["state"] is not None and o["state"] != e["state"]):
                    agreed = False
                    ctx.broken("correspondence:wrapper model!=impl kind=%s arity=%d history=%s call=%d impl=%r model=%r" % (
                        kind, k, [beh_key(b) for b in h], j, (oo, o["entries"], o["state"]), (e["out"], e["entries"], e["state"])))
                    break
        nontriv = any(b[0] != "none" for b in h) or k < 3
        ctx.case(cid, nontriv, agreed)
        ctx.stat("A_wrapper_cases")

    # ---------------- B
    for (kind, k, h) in casesB:
        obs, mask, inst, f = run_parse_history(kind, k, h)
        bad = oracle_parse(kind, k, h, obs, mask, inst, f)
        cid = "B|%s|%d|%s" % (kind, k, ",".join(beh_key(b) for b in h))
        if bad:
            key = bad[0] if bad[0].startswith("F13") else "parse:%s:%s:%d" % (bad[0], kind, k)
            ctx.violation(key, "Word(alphas).add_parse_action(<%s callable, %d args>).parse_string(%r) x%d: %s" % (kind, k, INPUT, len(h), bad[1]),
                          {"kind": "parse", "callable": kind, "arity": k, "history": [list(b) for b in h]})
        agreed = True
        if resB is not None:
            exp = model_expect_parse(resB[idxB[mkey(mask, inst, h)]], h, inst)
            for j, (o, (eo, est)) in enumerate(zip(obs, exp)):
                got = classify_parse_obs(h[j], o, inst)
                if got[0] == "raw" and eo[0] == "raw":
                    same = got[1] == eo[1]
                elif got[0] == "pexc" and eo[0] == "pexc":
                    same = got[1] == eo[1]
                else:
                    same = got[0] == eo[0]
                if not same or (o["state"] is not None and o["state"] != est):
                    agreed = False
                    ctx.broken("correspondence:parse model!=impl kind=%s arity=%d history=%s parse=%d impl=%r/%r model=%r/%r" % (
                        kind, k, [beh_key(b) for b in h], j, got, o["state"], eo, est))
                    break
        ctx.case(cid, True, agreed)
        ctx.stat("B_parse_cases")

    # ---------------- action lists
    for i, spec in enumerate(specs):
        out, ents, scripts = run_action_list(spec)
        want, seen = python_fold(spec)
        cid = "L|" + ",".join("%d:%s" % (k, beh_key(b)) for k, b in spec)
        if out != ["ok", want]:
            ctx.violation("list:return-rule:" + cid, "actions %s on %r: tokens %r, the return rule gives %r" % (cid, INPUT, out, want),
                          {"kind": "list", "spec": [[k, list(b)] for k, b in spec]})
        else:
            for (k, b), e, sn in zip(spec, ents, seen):
                full = [INPUT, 2, sn]
                if e != [full[3 - k:]]:
                    ctx.violation("list:args:" + cid, "actions %s: action with %d args entered with %r, expected [%r]" % (cid, k, e, full[3 - k:]),
                                  {"kind": "list", "spec": [[kk, list(bb)] for kk, bb in spec]})
        agreed = True
        if resL is not None:
            enc, trace = resL[i]
            # model token ids: 3 = original; 1000+10+i = ParseResults(VALS[i])
            if enc[0] != 0:
                model_tokens = None
            elif enc[1] == 3:
                model_tokens = ["abc"]
            else:
                v = VALS[enc[1] - 1010]
                model_tokens = pp.ParseResults(list(v) if isinstance(v, list) else v).as_list()
            if out != ["ok", model_tokens] or [len(t) for t in trace] != [len(e) for e in ents]:
                agreed = False
                ctx.broken("correspondence:action-list model!=impl %s impl=%r model=%r" % (cid, out, model_tokens))
        ctx.case(cid, any(b[0] != "none" for _, b in spec), agreed)
        ctx.stat("L_action_lists")

    # conditions (add_condition / condition_as_parse_action): oracle only
    for k in range(4):
        for truth in (True, False):
            for fatal in (False, True):
                S = Script()
                f, _, _ = make_callable("def", k, S)
                S.start(("val", 3) if truth else ("val", 0), 0)
                el = pp.Word(pp.alphas).add_condition(f, message="nope", fatal=fatal)
                try:
                    r = el.parse_string(INPUT).as_list()
                    got = ["ok", r]
                except pp.ParseBaseException as e:
                    got = [type(e).__name__, e.msg, e.loc]
                want = ["ok", ["abc"]] if truth else ["ParseFatalException" if fatal else "ParseException", "nope", 2]
                cid = "cond|%d|%s|%s" % (k, truth, fatal)
                if got != want or len(S.entries) != 1 or len(S.entries[0]) != k:
                    ctx.violation("condition:" + cid, "add_condition(%d-arg predicate returning %s, fatal=%s): %r, expected %r; entries %r" % (
                        k, truth, fatal, got, want, S.entries), {"kind": "cond", "arity": k, "truth": truth, "fatal": fatal})
                ctx.case(cid, True, True)

    # single-arg builtins shortcut: the wrapper is `lambda s, l, t: func(t)`
    from pyparsing.core import _trim_arity, _single_arg_builtins
    for bi in sorted(_single_arg_builtins, key=lambda f: f.__name__):
        for toks in (["b", "a"], [3, 1], []):
            w = _trim_arity(bi)
            d = direct(bi, (toks,))
            try:
                g = ["val", w("s", 0, toks)]
            except BaseException as e:  # noqa
                g = ["exc", type(e).__name__, str(e)]
            if bi is reversed and d[0] == "val" and g[0] == "val":
                d, g = ["val", list(d[1])], ["val", list(g[1])]
            cid = "builtin|%s|%r" % (bi.__name__, toks)
            if d != g:
                ctx.violation("builtin:" + cid, "_trim_arity(%s)(s, l, %r) = %r but %s(%r) = %r" % (bi.__name__, toks, g, bi.__name__, toks, d),
                              {"kind": "builtin", "name": bi.__name__, "toks": toks})
            ctx.case(cid, True, True)
            ctx.stat("builtin_cases")

    # ---------------- C
    for ci, nm in enumerate(names):
        build, inp, expect, chain, n_trial, n_main = scen[nm]
        for cdt in (False, True):
            out, fired = run_scenario(nm, cdt)
            cid = "C|%s|cdt=%s" % (nm, cdt)
            got = [(l, t) for (l, t, _) in fired]
            agreed = True
            if not cdt and got != expect:
                key = "container:%s" % nm
                if nm.startswith("precededby"):
                    key = "F13:PrecededBy-inner-action-fires-in-trial:%s" % nm
                if nm.startswith("ignore"):
                    key = "F13e:ignore-expr-action-fires-in-trial:%s" % nm
                ctx.violation(key, "scenario %s on %r without call_during_try: the inner action fired %r, the match actually returned "
                              "(result %r) accounts for %r" % (nm, inp, fired, out, expect),
                              {"kind": "container", "scenario": nm, "cdt": cdt})
            if resC is not None and chain is not None:
                flag = resC[ci]
                if isinstance(flag, tuple) and flag[0] == "Some":
                    flag = flag[1]
                elif flag in ("None", ("None",)):
                    flag = None
                if flag is None:
                    ctx.broken("correspondence:container chain of %s names a call site missing from the generated table" % nm)
                    agreed = False
                else:
                    predicted = n_main + (n_trial if (flag or cdt) else 0)
                    if len(fired) != predicted:
                        agreed = False
                        ctx.broken("correspondence:container model!=impl %s cdt=%s: fired %d times, the call-site table predicts %d "
                                   "(flag below the trial chain = %s)" % (nm, cdt, len(fired), predicted, flag))
            ctx.case(cid, True, agreed)
            ctx.stat("C_container_cases")
    # an exception raised by the BODY of an action propagates unchanged from parse_string wherever the action sits: whenever
    # the action is entered at all, the outcome is that exception - never a result, never a ParseException
    for nm in list(names) + sorted(_extra_raising_scenarios()):
        for cdt in (False, True):
            for ex in RAISED:
                out, n_entered = run_scenario_raising(nm, cdt, ex)
                ctx.stat("C_raising_cases")
                if n_entered and out != ("raised", ex.__name__):
                    ctx.violation("action-exception-lost:%s:%s" % (nm, ex.__name__),
                                  "scenario %s (call_during_try=%s): the action was entered %d time(s) and its body raised %s, but "
                                  "parse_string gave %r" % (nm, cdt, n_entered, ex.__name__, out),
                                  {"kind": "container-raising", "scenario": nm, "cdt": cdt, "exc": ex.__name__})
    # lookahead observation (not part of the property's list of trial constructs): NotAny forwards do_actions
    fired = []
    g = (~pp.Word(pp.alphas).add_parse_action(lambda s, l, t: fired.append(l)) + pp.Word(pp.alphanums)) | pp.Word(pp.alphas)
    g.parse_string("ab")
    ctx.coverage_extra["observation_notany_main_pass_fires_inner_action"] = len(fired)

    # ---------------- adapters that wrap the user's callable in a second _trim_arity wrapper
    for name, got, want in adapter_cases():
        ctx.case("adapter|" + name, True, True)
        if got != want:
            ctx.violation("adapter:" + name, "%s: %r, expected %r" % (name, got, want), {"kind": "adapter"})
    # ---------------- D
    cc = c_callables()
    exprsD, namesD = [], sorted(cc)
    perD = {}
    for nm in namesD:
        per, got, st, binds = run_c_callable(nm)
        perD[nm] = (per, got, st, binds)
        calls = []
        for k in range(4):
            p = per[k]
            if p[0] == "val":
                calls.append("SNone" if p[1] is None else "SVal %d" % (20 + k))
            else:
                code = EXC.index(p[1]) if p[1] in EXC else 5
                calls.append("SRaise %d 0 %d" % (code, 50 + k))
        exprsD.append("run_case [true; true; true; true] [[%s]]" % "; ".join(calls))
    resD = None
    if model_ok:
        try:
            resD = vlib.coq_eval_terms("c13_ccall", PREAMBLE, exprsD, timeout=300)
        except Exception as e:
            ctx.broken("correspondence:model-eval-D (%s)" % str(e)[:200])
    for i, nm in enumerate(namesD):
        per, got, st, binds = perD[nm]
        kk = max(binds)
        doc = per[kk]                      # the documented call: the largest argument count the callable can bind
        same = (doc[0] == "val" and got[0] == "val" and doc[1] == got[1]) or \
               (doc[0] == "exc" and got[0] in ("exc", "pa") and doc[1:] == got[1:])
        if not same:
            ctx.violation("F13c:c-callable:%s" % nm,
                          "C-level callable %s as parse action: the call with the %d trailing argument(s) it can bind gives %r, "
                          "but the wrapper (after treating the TypeError from the C body as an arity probe) gives %r" % (nm, kk, doc, got),
                          {"kind": "ccallable", "name": nm})
        agreed = True
        if resD is not None:
            enc, (fnd, lim), trace, calls = resD[i][0]
            if enc[0] == 1:
                m = ["val", per[enc[1] - 20][1]]
            elif enc[0] == 0:
                m = ["val", None]
            else:
                m = ["pa" if enc[0] == 3 else "exc"] + per[enc[3] - 50][1:]
            if m != got or (st is not None and st != [bool(fnd), int(lim)]):
                agreed = False
                ctx.broken("correspondence:c-callable model!=impl %s impl=%r/%r model=%r/%r" % (nm, got, st, m, [fnd, lim]))
        ctx.case("D|" + nm, True, agreed)
        ctx.stat("D_c_callables")

    ctx.sample({"family": "A", "callable": "lambda taking 1 arg", "history": ["raise:TypeError:2", "none"],
                "impl": run_wrapper_history("lambda", 1, [("raise", "TypeError", 2), ("none",)])[0]})
    ctx.sample({"family": "C", "scenario": "or-loses", "impl": run_scenario("or-loses", False)})
    ctx.sample({"family": "D", "callable": "int", "impl": list(run_c_callable("int")[:3])})
    ctx.coverage_extra["callable_kinds"] = KINDS
    ctx.coverage_extra["container_scenarios"] = names
    ctx.coverage_extra["not_modelled"] = ["debug actions / set_debug branch of the action loop (same statements, checked by the translator)",
                                          "packrat and left-recursion memo paths", "OnlyOnce", "double _trim_arity wrapping",
                                          "scan_string / search_string / transform_string do not unwrap _ParseActionIndexError (outside the property's text)"]


def search(ctx, reasons):
    """tie broken and no failing input yet: widen on the implementation with the property's oracle only"""
    B = behaviours()
    n = 3000 if not ctx.thorough else 30000
    for i in range(n):
        kind = ctx.rng.choice(KINDS)
        k = ctx.rng.randint(0, 3)
        h = [ctx.rng.choice(B) for _ in range(ctx.rng.randint(1, 5))]
        obs, mask, inst = run_wrapper_history(kind, k, h)
        bad = oracle_wrapper(kind, k, h, obs, mask, inst)
        ctx.stat("search_cases")
        if bad:
            ctx.violation("wrapper:%s:%s:%d" % (bad[0], kind, k), "search: %s" % bad[1],
                          {"kind": "wrapper", "callable": kind, "arity": k, "history": [list(b) for b in h]})
            return
        if kind in ("def", "lambda", "method", "partial", "callobj", "class", "varargs", "static"):
            obs, mask, inst, f = run_parse_history(kind, k, h)
            bad = oracle_parse(kind, k, h, obs, mask, inst, f)
            if bad and not bad[0] in ctx.known:
                ctx.violation(bad[0] if bad[0].startswith("F13") else "parse:%s:%s:%d" % (bad[0], kind, k), "search: %s" % bad[1],
                              {"kind": "parse", "callable": kind, "arity": k, "history": [list(b) for b in h]})
                return
    # a C-level callable that succeeds first and raises TypeError from its body later (found_arity must stick)
    from pyparsing.core import _trim_arity
    w = _trim_arity("".join)
    try:
        w("s", 0, ["a", "b"])
        try:
            w("s", 0, ["a", 1])
            got = "returned"
        except TypeError as e:
            got = str(e)
        if "expected str instance" not in got:
            ctx.violation("c-callable:join-typeerror-after-success", "''.join as action: after a successful call, the TypeError of "
                          "''.join(['a', 1]) must propagate; got %r" % got, {"kind": "join-after-success"})
    except Exception as e:  # noqa
        ctx.violation("c-callable:join-first-call", "''.join as action failed on ['a','b']: %r" % e, {"kind": "join-after-success"})


def replay(ctx, obj):
    r = obj["replay"]
    kind = r.get("kind")
    if kind == "wrapper":
        h = [tuple(b) for b in r["history"]]
        obs, mask, inst = run_wrapper_history(r["callable"], r["arity"], h)
        bad = oracle_wrapper(r["callable"], r["arity"], h, obs, mask, inst)
        print(obs if bad is None else bad[1])
        return bad is None
    if kind == "parse":
        h = [tuple(b) for b in r["history"]]
        obs, mask, inst, f = run_parse_history(r["callable"], r["arity"], h)
        bad = oracle_parse(r["callable"], r["arity"], h, obs, mask, inst, f)
        print([o["out"] for o in obs] if bad is None else bad[1])
        return bad is None
    if kind == "list":
        spec = [(k, tuple(b)) for k, b in r["spec"]]
        out, ents, _ = run_action_list(spec)
        want, _ = python_fold(spec)
        print("tokens", out, "expected", want, "entries", ents)
        return out == ["ok", want]
    if kind == "container":
        out, fired = run_scenario(r["scenario"], r["cdt"])
        expect = _scenarios()[r["scenario"]][2]
        print("result", out, "fired", fired, "expected firings", expect)
        return [(l, t) for (l, t, _) in fired] == expect
    if kind == "container-raising":
        ex = [e for e in RAISED if e.__name__ == r["exc"]][0]
        out, n = run_scenario_raising(r["scenario"], r["cdt"], ex)
        print("entered", n, "outcome", out)
        return not n or out == ("raised", ex.__name__)
    if kind == "ccallable":
        per, got, st, binds = run_c_callable(r["name"])
        doc = per[max(binds)]
        print("direct call", doc, "through _trim_arity", got, "wrapper state", st)
        return (doc[0] == "val" and got[0] == "val" and doc[1] == got[1]) or (doc[0] == "exc" and got[0] in ("exc", "pa") and doc[1:] == got[1:])
    if kind == "join-after-success":
        from pyparsing.core import _trim_arity
        w = _trim_arity("".join)
        w("s", 0, ["a", "b"])
        try:
            w("s", 0, ["a", 1])
            return False
        except TypeError as e:
            print(e)
            return "expected str instance" in str(e)
    if r.get("kind") == "adapter":
        bad = [(n, g, w) for n, g, w in adapter_cases() if g != w]
        for x in bad:
            print("%s: %r, expected %r" % x)
        return not bad
    print("replay names a broken proof/correspondence obligation: %r" % (r,))
    return False
