"""C03 — enabling left-recursion support is transparent for ordinary grammars."""
from tools import vlib
from tools.harness import gen, corr, pcommon, shrink as shr

PROP = "C03"
GEN = ["gen_memo"]
RULE = ("seeded random NON-left-recursive grammars containing Forwards (shared between alternatives, nested through a second Forward, "
        "grouped, named, with pure actions) x sampled/mutated inputs x {memoization off, enable_left_recursion(None), (1), (2), (4)} x "
        "{parse_string, parse_all}: (i) extracted model (Model/LR.v) vs implementation in every mode, (ii) implementation-only oracle: "
        "every left-recursion mode equals memoization off; non-trivial = grammar whose parse visits a Forward at least twice at the "
        "same location (alternatives sharing a Forward prefix)")
TRUSTED = pcommon.TRUSTED_PARSE + [
    "value level: `prev_result.copy()` / `copy.copy(prev_result)` are identities on values (the aliasing defect F-03 was at object level and is "
    "fixed in /repo 6d68290; the witness (F+'b'+'c')|(F+'b') is part of the corpus)"]
MODES = [("none",), ("lr", None), ("lr", 1), ("lr", 2), ("lr", 4)]
ENVS = [gen.ENV0, gen.ENV_EXPR,
        {0: ("mf", ("group", ("and", ("lit", "("), ("star", ("fwd", 1)), ("lit", ")"))), ("word", "ab")), 1: ("mf", ("fwd", 0), ("lit", ","))},
        {0: ("name", "f", ("word", "ab"))},
        {0: ("mf", ("and", ("lit", "("), ("fwd", 0), ("lit", ")")), ("act", ("upper",), ("word", "ab")))}]


def shared_forward_grammar(rng):
    F = ("fwd", 0)
    t1, t2, t3 = (rng.choice([("lit", "b"), ("lit", ","), ("word", "ab"), ("lit", ")")]) for _ in range(3))
    # results names on what FOLLOWS the shared Forward: a failed alternative must not leave its names on the memoized result
    nm = lambda t, n: rng.choice([t, t, ("name", n, t), ("namestar", n, t)])
    t1, t2, t3 = nm(t1, "p"), nm(t2, "q"), nm(t3, rng.choice("pr"))
    shape = rng.choice(["mf", "or", "opt", "star", "three", "three"])
    if shape == "three":
        # three alternatives re-parse the Forward at one position: the first does the search, the second extends a memo-hit copy
        # (names with one flag) and fails, the third must not see what the second left on the memo entry (names, list-all flags)
        n = rng.choice(["p", "q"])
        tok = lambda: rng.choice([("word", "ab"), ("lit", "b"), ("lit", ","), ("word", "12")])
        k1, k2 = rng.sample(["name", "namestar"], 2)
        u1, u2, v1, v2 = tok(), tok(), None, None
        second = ("and", F, (k1, n, u1), (k1, n, u2), ("lit", "?"))
        third = ("and", F, (k2, n, u1), (k2, n, u2)) if rng.random() < 0.7 else ("and", F, (k2, n, u1))
        return ("mf", ("and", F, ("lit", "!")), second, third)
    if shape == "opt":
        return ("and", ("opt", ("and", F, t1, t2)), F, t3)
    if shape == "star":
        return ("and", ("star", ("and", F, t1)), ("opt", ("and", F, t2)))
    return (shape, ("and", F, t1, t2), ("and", F, t1), ("group", ("and", F, t3)))


PRIORITY = ["seed_read", "peek_tainted", "peek_replaced", "peek_error", "seed_returned", "key_error"]


def report(ctx, g, env, inp, mode, entry):
    """a divergence between left-recursion mode and memoization off on the implementation.  When the model predicts the
    implementation's answer in this mode AND its run raises one of the flags of Model/LRT.v, the divergence is an instance of that
    mechanism (Props/C03.v proves there is no divergence without a flag) and is keyed by it; otherwise it is keyed by the input."""
    a = pcommon.single(g, env, inp, ("none",), entry)
    b = pcommon.single(g, env, inp, mode, entry)
    flags = b.get("flags") or ()
    what = "enable_left_recursion(%r) changes the outcome of %r (env %r) on %r: off=%r on=%r" % (
        mode[1], g, env, inp, corr.proj_all(a["real"]), corr.proj_all(b["real"]))
    if b.get("agree") and a.get("agree") and flags:
        first = [f for f in PRIORITY if f in flags][0]
        key = "lr-divergence:" + first
        what += " [model agrees; mechanism flags raised: %s]" % ",".join(flags)
    else:
        key = "outcome:%r|%r|%r|%r|%r" % (g, env, inp, mode, entry)
        what += " [model %s; flags %s]" % ("agrees" if b.get("agree") else "gives %r" % (corr.proj_all(b["model"]),), ",".join(flags) or "none")
    ctx.violation(key, what, {"kind": "outcome", "grammar": g, "env": env, "input": inp, "mode": mode, "entry": entry})


def sequence_oracle(ctx):
    """the recursion memo's key has no input string: every entry point must start from an empty memo.  With left recursion enabled
    ONCE, a second call (scan_string / search_string / transform_string / split / parse_string) on a DIFFERENT text with the same
    grammar object must answer what it answers as the first call."""
    import pyparsing as pp
    from tools.harness import build
    from tools.props.c04 import guarded
    rng = ctx.rng
    envs = [gen.ENV0, gen.ENV_EXPR, {0: ("mf", ("and", ("fwd", 0), ("lit", ","), ("word", "ab")), ("word", "ab"))}]
    n = 60 if not ctx.thorough else 600
    calls = [("scan_string", lambda e, t: [(r.as_list(), a, b) for r, a, b in e.scan_string(t)]),
             ("search_string", lambda e, t: e.search_string(t).as_list()),
             ("transform_string", lambda e, t: e.copy().add_parse_action(lambda toks: "<%s>" % "".join(map(str, toks.as_list()))).transform_string(t)
              if False else e.transform_string(t)),
             ("split", lambda e, t: list(e.split(t))), ("parse_string", lambda e, t: e.parse_string(t).as_list())]

    def obs(f):
        try:
            return ("ok", f())
        except pp.ParseBaseException as x:
            return ("err", type(x).__name__, x.loc)
        except RecursionError:
            return ("div",)
    done = 0
    for i in range(n):
        env = envs[i % len(envs)]
        g = ("fwd", 0) if i % 2 == 0 else shared_forward_grammar(rng)
        t1 = gen.sample_input(rng, g, env)
        t2 = " ; ".join(gen.sample_input(rng, g, env) for _ in range(rng.randint(1, 3)))
        if t1 == t2:
            continue
        for cap in (None, 1, 4):
            def run():
                e = build.Builder(env).build_all(g)
                pp.ParserElement.disable_memoization()
                pp.ParserElement.enable_left_recursion(cap)
                try:
                    out = []
                    for name, f in calls:
                        fresh = obs(lambda: f(e, t2))                  # first use after an entry point that reset everything
                        obs(lambda: e.parse_string(t1))                # memoizes entries for t1 ...
                        out.append((name, fresh, obs(lambda: f(e, t2))))   # ... which the next entry point must not see
                    return out
                finally:
                    pp.ParserElement.disable_memoization()
            try:
                res = guarded(run, 3.0)
            except build.Unbuildable:
                continue
            if res == ("timeout",):
                continue
            done += 1
            ctx.case("sequence:%r|%r|%r|%r" % (g, t1, t2, cap), nontrivial=len(t2) >= 3, agreed=True)
            for name, fresh, after in res:
                if fresh != after:
                    ctx.violation("sequence:%s|%r|%r|%r|%r" % (name, g, t1, t2, cap),
                                  "enable_left_recursion(%r): %s(%r) on %r (env %r) answers %r as a first call but %r after parse_string(%r) on the same object" % (
                                      cap, name, t2, g, env, fresh, after, t1), {"kind": "sequence", "grammar": g, "env": env, "t1": t1, "t2": t2, "cap": cap})
                    break
    ctx.stat("sequence_cases", done)


def correspond(ctx):
    corr.ensure_driver()
    rng = ctx.rng
    n = 300 if not ctx.thorough else 2500
    groups = []
    for i in range(n):
        g = shared_forward_grammar(rng) if i % 2 == 0 else gen.rand_grammar(rng, rng.randint(2, 5), dict(actions=(i % 3 == 0), names=True, fwd=True))
        env = rng.choice(ENVS)
        inputs = set()
        for _ in range(3):
            s = gen.sample_input(rng, g, env)
            inputs.add(s)
            inputs.add(gen.mutate_input(rng, s))
        groups.append((g, env, sorted(inputs)[:5], MODES, [("parse", False), ("parse", True)] if i % 3 == 0 else [("parse", False)]))
    # the witness of the repaired defect F-03 always runs
    groups.append((("mf", ("and", ("fwd", 0), ("lit", "b"), ("lit", "c")), ("and", ("fwd", 0), ("lit", "b"))), {0: ("word", "a")},
                   ["a b", "a b c", "a"], MODES, [("parse", False), ("parse", True)]))
    # the witnesses of the recorded findings F-03b..e always run
    W, Wc = ("word", "ab"), ("act", ("cond", 3, False, 1), ("word", "ab"))
    groups.append((("and", ("opt", ("fwd", 0)), ("fwd", 0)), {0: W}, ["zz", "a b"], MODES, [("parse", False)]))
    groups.append((("mf", ("fwd", 0), ("skipto", ("fwd", 0))), {0: Wc}, ["ab"], MODES, [("parse", False)]))
    groups.append((("mf", ("and", ("fwd", 0), ("lit", "q")), ("or", ("and", ("fwd", 0), ("lit", "x")), W)), {0: ("mf", ("and", Wc, ("lit", "x")), W)},
                   ["ab x"], MODES, [("parse", False)]))
    groups.append((("fwd", 0), {0: ("and", Wc, ("lit", "x"))}, ["ab y"], MODES, [("parse", False)]))
    # a Forward whose body matches without actions but is rejected by a condition, tried again (with actions, same place) by the
    # next alternatives: what the failed action pass leaves in the memo must not turn the later attempts into successes
    Fc = {0: ("mf", Wc, ("and", ("lit", "("), ("fwd", 0), ("lit", ")")))}
    groups.append((("mf", ("group", ("and", ("fwd", 0), ("lit", ":"), ("fwd", 0))), ("group", ("and", ("fwd", 0), ("lit", "-"), ("fwd", 0))), ("group", ("fwd", 0))),
                   Fc, ["ab-b", "ab", "(a:b, ab-a)", "aba-abb", "aba:ab", "(ab)"], MODES, [("parse", False), ("parse", True)]))
    groups.append((("and", ("opt", ("and", ("fwd", 0), ("lit", ":"))), ("star", ("and", ("fwd", 0), ("opt", ("lit", ","))))),
                   Fc, ["ab:ab", "ab,aba", "aba:ab,ab"], MODES, [("parse", False)]))
    stats = {}
    recs = corr.run_groups(groups, stats=stats)
    fh = {}
    for r in recs:
        if r["mode"][0] == "lr":
            k = ",".join(r.get("flags") or ()) or "clean"
            fh[k] = fh.get(k, 0) + 1
    ctx.coverage_extra["model_flag_histogram"] = fh
    ctx.coverage_extra["class_histogram"] = stats.get("classes", {})
    pcommon.outcome_hist(ctx, recs)
    pcommon.model_agreement(ctx, recs, "lr-outcomes")
    byk = {}
    for r in recs:
        byk.setdefault((repr(r["g"]), repr(r["env"]), r["inp"], r["entry"]), {})[r["mode"]] = r
    for k, d in byk.items():
        base = d.get(("none",))
        if base is None:
            continue
        for mode, r in d.items():
            if mode == ("none",):
                continue
            shared = repr(r["g"]).count("('fwd', 0)") >= 2
            ctx.case(pcommon.key_of(r), nontrivial=shared, agreed=r.get("agree", True))
            if corr.proj_all(r["real"]) != corr.proj_all(base["real"]):
                def fails(g, env, inp, mode=mode, entry=r["entry"]):
                    a = pcommon.single(g, env, inp, ("none",), entry)
                    b = pcommon.single(g, env, inp, mode, entry)
                    return a is not None and b is not None and corr.proj_all(a["real"]) != corr.proj_all(b["real"])
                try:
                    g, env, inp = shr.shrink(r["g"], r["env"], r["inp"], fails, budget=80)
                except Exception:
                    g, env, inp = r["g"], r["env"], r["inp"]
                report(ctx, g, env, inp, mode, r["entry"])
    sequence_oracle(ctx)
    ctx.sample({"grammar": groups[-1][0], "env": groups[-1][1], "inputs": groups[-1][2], "modes": MODES})


def search(ctx, reasons):
    import random
    for seed in range(1, 5 if not ctx.thorough else 30):
        rng = random.Random(ctx.seed * 1000 + seed)
        groups = []
        for i in range(150):
            g = shared_forward_grammar(rng) if i % 2 == 0 else gen.rand_grammar(rng, rng.randint(2, 5), dict(actions=True, names=True, fwd=True))
            env = rng.choice(ENVS)
            inputs = {gen.sample_input(rng, g, env) for _ in range(3)}
            inputs |= {gen.mutate_input(rng, s) for s in list(inputs)}
            groups.append((g, env, sorted(inputs)[:5], [("none",), ("lr", None), ("lr", 1)], [("parse", False)]))
        recs = corr.run_groups(groups, model=False)
        byk = {}
        for r in recs:
            byk.setdefault((repr(r["g"]), repr(r["env"]), r["inp"]), {})[r["mode"]] = r
        for k, d in byk.items():
            base = d.get(("none",))
            for mode, r in d.items():
                ctx.stat("search_cases")
                if base is not None and corr.proj_all(r["real"]) != corr.proj_all(base["real"]):
                    n0 = len(ctx.violations)
                    report(ctx, r["g"], r["env"], r["inp"], mode, r["entry"])
                    if len(ctx.violations) > n0:
                        return


def _tuplify(x):
    return tuple(_tuplify(y) for y in x) if isinstance(x, list) else x


def replay(ctx, obj):
    r = obj["replay"]
    if r.get("kind") == "outcome":
        g, env = _tuplify(r["grammar"]), {int(k): _tuplify(v) for k, v in (r.get("env") or {}).items()}
        mode, entry = _tuplify(r["mode"]), _tuplify(r["entry"])
        a = pcommon.single(g, env, r["input"], ("none",), entry)
        b = pcommon.single(g, env, r["input"], mode, entry)
        print("off:", corr.proj_all(a["real"]))
        print("on :", corr.proj_all(b["real"]))
        return corr.proj_all(a["real"]) == corr.proj_all(b["real"])
    if r.get("kind") == "sequence":
        c2 = vlib.Ctx(PROP, "quick", ctx.seed)
        c2.known = {}
        sequence_oracle(c2)
        for v in c2.violations:
            print(v["what"])
        return not c2.violations
    print("replay names a broken proof/correspondence obligation: %r" % (r,))
    return False
