"""C04 — left-recursive grammars parse as their iterative equivalents."""
from tools import vlib
from tools.harness import history
from tools.harness import gen, corr, pcommon, build, observe, views

PROP = "C04"
GEN = ["gen_memo"]
RULE = ("generated left-recursive rule sets: direct (E <<= E op T | T; several operators; flat or Grouped; MatchFirst or Or bodies), "
        "multi-level precedence (E over T over N), indirect through a second Forward, no-base-case rules; x well-formed expression strings "
        "(random, with whitespace) and ill-formed mutations x memo capacities {None,1,2,4}: (i) extracted model vs implementation, "
        "(ii) oracle on the implementation: parsing terminates, a rule without base case raises ParseException, the tokens equal those of "
        "the iterative equivalent (base + ZeroOrMore(tail), left-nested where grouped) parsed with memoization off, independent of the "
        "capacity; non-trivial = input with >= 2 operators")
TRUSTED = pcommon.TRUSTED_PARSE
CAPS = [None, 1, 2, 4]
N = ("word", "12")


def rule_sets(rng):
    """(name, env for the LR grammar, root, iterative equivalent surface grammar or None, kind, sample-expression maker)"""
    ops1 = rng.choice([["+"], ["+", "-"], ["+", "-", "&"]])
    ops2 = rng.choice([["*"], ["*", "/"]])
    mk_ops = lambda ops: ("lit", ops[0]) if len(ops) == 1 else ("mf",) + tuple(("lit", o) for o in ops)
    alt = rng.choice(["mf", "or"])
    out = []
    # direct, flat
    out.append(("direct-flat", {0: (alt, ("and", ("fwd", 0), mk_ops(ops1), N), N)}, ("fwd", 0),
                ("and", N, ("star", ("and", mk_ops(ops1), N))), "flat", lambda: expr_string(rng, [ops1])))
    # direct, grouped
    out.append(("direct-grouped", {0: (alt, ("group", ("and", ("fwd", 0), mk_ops(ops1), N)), N)}, ("fwd", 0),
                ("and", N, ("star", ("and", mk_ops(ops1), N))), "grouped", lambda: expr_string(rng, [ops1])))
    # two precedence levels
    out.append(("two-level", {0: (alt, ("and", ("fwd", 0), mk_ops(ops1), ("fwd", 1)), ("fwd", 1)),
                              1: (alt, ("and", ("fwd", 1), mk_ops(ops2), N), N)}, ("fwd", 0),
                ("and", ("and", N, ("star", ("and", mk_ops(ops2), N))),
                 ("star", ("and", mk_ops(ops1), ("and", N, ("star", ("and", mk_ops(ops2), N)))))), "flat",
                lambda: expr_string(rng, [ops1, ops2])))
    # indirect
    out.append(("indirect", {0: ("mf", ("and", ("fwd", 1), ("lit", "x")), ("lit", "a")), 1: ("and", ("fwd", 0), ("lit", "y"))}, ("fwd", 0),
                ("and", ("lit", "a"), ("star", ("and", ("lit", "y"), ("lit", "x")))), "flat",
                lambda: "a" + "yx" * rng.randint(0, 3)))
    # the left-recursive rule as the shared first element of backtracking alternatives (memo hits after a partial match)
    Eflat = {0: (alt, ("and", ("fwd", 0), mk_ops(ops1), N), N)}
    It = ("and", N, ("star", ("and", mk_ops(ops1), N)))
    cmp_ops = rng.choice([["<", "<="], ["<", "<=", "<=>"], ["=", "=="]])
    out.append(("shared-prefix", Eflat, ("mf",) + tuple(("and", ("fwd", 0), ("lit", o), ("fwd", 0)) for o in cmp_ops) + (("fwd", 0),),
                ("mf",) + tuple(("and", It, ("lit", o), It) for o in cmp_ops) + (It,), "flat",
                lambda: expr_string(rng, [ops1]) + rng.choice(["", " "]) + rng.choice(cmp_ops) + rng.choice(["", " "]) + expr_string(rng, [ops1])))
    out.append(("shared-prefix-group", Eflat, ("or", ("group", ("and", ("fwd", 0), ("lit", cmp_ops[0]), ("fwd", 0))), ("and", ("fwd", 0), ("lit", cmp_ops[1]), ("fwd", 0))),
                ("or", ("group", ("and", It, ("lit", cmp_ops[0]), It)), ("and", It, ("lit", cmp_ops[1]), It)), "flat",
                lambda: expr_string(rng, [ops1]) + rng.choice(cmp_ops[:2]) + expr_string(rng, [ops1])))
    # error stop inside the recursive alternative: a dangling operator must abort with ParseSyntaxException in both forms
    # (MatchFirst body only: '^' raises a fatal exception only when no alternative matches, so there the two forms differ by design)
    out.append(("direct-errorstop", {0: ("mf", ("andstop", 2, ("fwd", 0), mk_ops(ops1), N), N)}, ("fwd", 0),
                ("and", N, ("star", ("andstop", 1, mk_ops(ops1), N))), "flat",
                lambda: expr_string(rng, [ops1]) + rng.choice(["", "", " ", ops1[0], " " + ops1[-1] + " ", ops1[0] + "x"])))
    # no base case
    out.append(("no-base", {0: ("and", ("fwd", 0), ("lit", "a"))}, ("fwd", 0), None, "nobase", lambda: "a" * rng.randint(0, 3)))
    out.append(("no-base-alt", {0: ("mf", ("and", ("fwd", 0), ("lit", "a")), ("and", ("fwd", 0), ("lit", "b")))}, ("fwd", 0), None, "nobase",
                lambda: "ab"[:rng.randint(0, 2)]))
    return out


def expr_string(rng, levels):
    n = rng.randint(0, 4)
    ops = [o for l in levels for o in l]
    sp = lambda: rng.choice(["", "", " "])
    s = str(rng.choice([1, 2, 12, 21]))
    for _ in range(n):
        s += sp() + rng.choice(ops) + sp() + str(rng.choice([1, 2, 12]))
    return s


def left_nest(tokens):
    """[a, op, b, op, c] -> [[[a, op, b], op, c]] as the grouped left-recursive rule builds it"""
    if len(tokens) <= 1:
        return tokens
    cur = tokens[0]
    i = 1
    while i + 1 < len(tokens):
        cur = [cur, tokens[i], tokens[i + 1]]
        i += 2
    return [cur]


def impl_tokens(g, env, inp, mode):
    import pyparsing as pp
    b = build.Builder(env)
    e = b.build_all(g)
    observe.set_mode(mode)
    try:
        r = e.parse_string(inp)
        return ("ok", r.as_list())
    except pp.ParseBaseException as x:
        return ("err", type(x).__name__, x.loc, x.msg)
    except RecursionError:
        return ("div",)
    finally:
        pp.ParserElement.disable_memoization()


class _T(BaseException):
    pass


def guarded(f, t=2.0):
    import signal

    def on(sig, frm):
        raise _T()
    old = signal.signal(signal.SIGPROF, on)
    try:
        try:
            signal.setitimer(signal.ITIMER_PROF, t, 0.25)
            return f()
        finally:
            signal.setitimer(signal.ITIMER_PROF, 0)
    except _T:
        return ("timeout",)
    finally:
        signal.signal(signal.SIGPROF, old)


def correspond(ctx):
    # entry points are independent of what the same grammar object was asked before (tools/harness/history.py)
    history.run(ctx, 'C04', ["lrU", "lr2", "packrat128", "packratU", "none"], 250 if not ctx.thorough else 2500, mode_switches=True, seed_salt=4)
    corr.ensure_driver()
    rng = ctx.rng
    rounds = 14 if not ctx.thorough else 150
    groups = []
    oracle_cases = []
    for _ in range(rounds):
        for (name, env, root, iterative, kind, mk) in rule_sets(rng):
            inputs = set()
            for _ in range(3):
                s = mk()
                inputs.add(s)
                inputs.add(gen.mutate_input(rng, s, "12+*a xy<="))
            inputs = sorted(inputs)[:6]
            groups.append((root, env, inputs, [("lr", c) for c in CAPS], [("parse", False), ("parse", True)]))
            oracle_cases.append((name, env, root, iterative, kind, inputs))
    stats = {}
    recs = corr.run_groups(groups, stats=stats, skip_spins=False)
    ctx.coverage_extra["class_histogram"] = stats.get("classes", {})
    pcommon.outcome_hist(ctx, recs)
    pcommon.model_agreement(ctx, recs, "lr-growth-outcomes")
    for r in recs:
        ctx.case(pcommon.key_of(r), nontrivial=sum(r["inp"].count(o) for o in "+-*/&") >= 2 or r["inp"].count("y") >= 2, agreed=r.get("agree", True))
    run_oracle(ctx, oracle_cases)
    sequence_oracle(ctx)
    ctx.sample({"rule": "E <<= E + ('+'|'-') + N | N", "input": "1+2-12", "capacities": [str(c) for c in CAPS]})


def run_oracle(ctx, oracle_cases, stop_at_first=False):
    """oracle on the implementation"""
    for (name, env, root, iterative, kind, inputs) in oracle_cases:
        if stop_at_first and ctx.violations:
            return
        for inp in inputs:
            outs = {c: guarded(lambda c=c: impl_tokens(root, env, inp, ("lr", c))) for c in CAPS}
            ctx.case("oracle:%s|%r" % (name, inp), nontrivial=len(inp) >= 5, agreed=True)
            if any(o[0] in ("timeout", "div") for o in outs.values()):
                ctx.violation("termination:%s|%r" % (name, inp), "%s on %r: left-recursive parse does not terminate: %r" % (name, inp, outs),
                              {"kind": "oracle", "name": name, "env": env, "root": root, "input": inp})
                continue
            if len({repr(o) for o in outs.values()}) > 1:
                ctx.violation("capacity:%s|%r" % (name, inp), "%s on %r: the result depends on the memo capacity: %r" % (name, inp, outs),
                              {"kind": "oracle", "name": name, "env": env, "root": root, "input": inp})
            got = outs[None]
            if kind == "nobase":
                if not (got[0] == "err" and got[1] == "ParseException"):
                    ctx.violation("nobase:%s|%r" % (name, inp), "%s on %r: expected ParseException, got %r" % (name, inp, got),
                                  {"kind": "oracle", "name": name, "env": env, "root": root, "input": inp})
                continue
            want = guarded(lambda: impl_tokens(iterative, {}, inp, ("none",)))
            if want[0] == "ok" and kind == "grouped":
                want = ("ok", left_nest(want[1]))
            same = (got[0] == want[0]) and (got[0] != "ok" or got[1] == want[1])
            if not same:
                key = "equiv:indirect-stale-seeds" if name == "indirect" else "equiv:%s|%r" % (name, inp)
                ctx.violation(key, "%s (env %r) on %r: left-recursive grammar gives %r, the iterative equivalent gives %r" % (name, env, inp, got, want),
                              {"kind": "oracle", "name": name, "env": env, "root": root, "input": inp})


def sequence_oracle(ctx):
    """left-recursive rules through every entry point, twice: what one call memoized must not answer the next call on another text
    (the memo key has no input string; every entry point starts from an empty memo)"""
    import pyparsing as pp
    rng = ctx.rng
    done = 0
    for _ in range(4 if not ctx.thorough else 40):
        for (name, env, root, iterative, kind, mk) in rule_sets(rng):
            if kind == "nobase" or name.startswith("indirect"):
                continue
            t1, t2 = mk(), " ; ".join(mk() for _ in range(2))
            for cap in (None, 1):
                def run():
                    e = build.Builder(env).build_all(root)
                    pp.ParserElement.disable_memoization()
                    pp.ParserElement.enable_left_recursion(cap)
                    try:
                        obs = lambda f: (lambda r: r)(_obs(f))
                        fresh_scan = _obs(lambda: [(r.as_list(), a, b) for r, a, b in e.scan_string(t2)])
                        fresh_search = _obs(lambda: e.search_string(t2).as_list())
                        _obs(lambda: e.parse_string(t1))
                        after_scan = _obs(lambda: [(r.as_list(), a, b) for r, a, b in e.scan_string(t2)])
                        _obs(lambda: e.parse_string(t1))
                        after_search = _obs(lambda: e.search_string(t2).as_list())
                        return [("scan_string", fresh_scan, after_scan), ("search_string", fresh_search, after_search)]
                    finally:
                        pp.ParserElement.disable_memoization()
                res = guarded(run, 3.0)
                if res == ("timeout",):
                    continue
                done += 1
                ctx.case("sequence:%s|%r|%r|%r" % (name, t1, t2, cap), True, True)
                for ep, fresh, after in res:
                    if fresh != after:
                        ctx.violation("sequence:%s|%s|%r|%r|%r" % (ep, name, t1, t2, cap),
                                      "%s (env %r), enable_left_recursion(%r): %s(%r) answers %r as a first call but %r after parse_string(%r) on the same objects" % (
                                          name, env, cap, ep, t2, fresh, after, t1), {"kind": "sequence"})
                        break
    ctx.stat("sequence_cases", done)


def _obs(f):
    import pyparsing as pp
    try:
        return ("ok", f())
    except pp.ParseBaseException as x:
        return ("err", type(x).__name__, x.loc)
    except RecursionError:
        return ("div",)


def search(ctx, reasons):
    history.run(ctx, 'C04', ["lrU", "lr2", "packrat128", "packratU", "none"], 400 if not ctx.thorough else 4000, mode_switches=True, seed_salt=104)
    import random, time
    t0 = time.time()
    for seed in range(1, 6 if not ctx.thorough else 60):
        rng = random.Random(ctx.seed * 1000 + seed)
        cases = []
        for _ in range(6):
            for (name, env, root, iterative, kind, mk) in rule_sets(rng):
                inputs = set()
                for _ in range(4):
                    s = mk()
                    inputs.add(s)
                    inputs.add(gen.mutate_input(rng, s, "12+*a xy<="))
                cases.append((name, env, root, iterative, kind, sorted(inputs)))
        n0 = len(ctx.violations)
        run_oracle(ctx, cases, stop_at_first=True)
        ctx.stat("search_cases", sum(len(c[5]) for c in cases))
        if len(ctx.violations) > n0 or time.time() - t0 > (120 if not ctx.thorough else 900):
            return


def _tuplify(x):
    return tuple(_tuplify(y) for y in x) if isinstance(x, list) else x


def replay(ctx, obj):
    r = obj["replay"]
    if r.get("kind") == "history":
        return history.replay(r)
    if r.get("kind") == "oracle":
        env = {int(k): _tuplify(v) for k, v in r["env"].items()}
        for c in CAPS:
            print(c, impl_tokens(_tuplify(r.get("root") or ["fwd", 0]), env, r["input"], ("lr", c)))
        return False
    if r.get("kind") == "sequence":
        c2 = vlib.Ctx(PROP, "quick", ctx.seed)
        c2.known = {}
        sequence_oracle(c2)
        for v in c2.violations:
            print(v["what"])
        return not c2.violations
    print("replay names a broken proof/correspondence obligation: %r" % (r,))
    return False
