"""Start objects, operation alphabets and history generators shared by c10.py / c11.py."""
from tools.props import pr_common as C


def start_objects():
    """name -> factory of a fresh real ParseResults (real parses with Group / names / list-all names / Dict /
    nested groups / non-string tokens, and constructed objects)"""
    import pyparsing as pp
    PR = pp.ParseResults
    W = pp.Word(pp.alphas)
    N = pp.Word(pp.nums).copy().add_parse_action(lambda t: int(t[0]))
    out = {}
    out['seq_names'] = lambda: (W("x*") + W("x*") + N("n"))("y").parse_string("a b 12")
    out['groups'] = lambda: (pp.Group(W("a") + W("b"))("g") + pp.Group(W[...])("h*") + pp.Group(N[...])("h*")).parse_string("u v 7")
    out['dict'] = lambda: pp.Dict(pp.Group(W + N)[...]).parse_string("a 1 b 2")
    out['mixed'] = lambda: (W("k") + pp.Group(N[1, ...], aslist=True)("l") + pp.Opt(W)("o")
                            + pp.Empty().add_parse_action(lambda: [None, True])("e*")).parse_string("q 1 2")
    out['nested2'] = lambda: pp.Group(pp.Group(W("i") + N)("g") + W("x"))("top*").parse_string("a 1 b")

    def named():
        r = PR(['a', 'b']); r['x'] = 'a'; r += PR(['c'], 'm', asList=False, modal=False); return r
    out['constructed'] = named
    out['empty'] = lambda: PR([])
    out['plain'] = lambda: PR(['a', 'b', 'c', 'd'])
    return out


# parameter values (canonical forms)
S = lambda s: ('s', s)
P_PLAIN = ('pr', [S('p'), S('q')], [], [], None)
P_NAMED = ('pr', [S('u'), ('i', 3)], [('x', [(S('u'), 0)]), ('m', [(('i', 3), 1)])], ['m'], None)
P_NAMEONLY = ('pr', [], [], ['x'], 'x')                     # falsy, but carries a list-all name
P_NESTED = ('pr', [('pr', [S('i')], [('w', [(S('i'), 0)])], [], 'gg'), S('j')],
            [('gg', [(('pr', [S('i')], [('w', [(S('i'), 0)])], [], 'gg'), 0)]), ('x', [(S('j'), -1)])], [], 'gg')
P_EMPTY = ('pr', [], [], [], None)
PRS = [P_PLAIN, P_NAMED, P_NAMEONLY, P_NESTED, P_EMPTY]
VALS = [S('V'), ('i', 7), ('n',), ('b', True), ('l', [S('l1'), ('i', 2)]), P_PLAIN, P_NAMED]
NAMES = ['x', 'm', 'g', 'h', 'n', 'nope', '__d']
SLICES = [(0, 2, None), (None, None, None), (1, None, None), (None, None, -1), (None, None, 2), (-1, None, -2), (3, 1, None),
          (0, 5, 0), (-3, -1, None), (1, 3, 2)]

# the enumeration alphabet (quick: all histories up to depth 3)
ALPHABET = [
    ('delint', 0), ('delint', -1), ('insert', 0, S('I')), ('insert', -1, ('i', 5)), ('append', P_PLAIN),
    ('pop', [], [], [], False), ('pop', ['x'], [], [], False), ('setname', 'x', S('V')), ('setname', 'm', P_NAMED),
    ('iadd', P_NAMED), ('delslice', (0, 2, None)), ('delname', 'x'), ('setint', -1, S('T')), ('clear',),
]


def random_op(rng):
    k = rng.choice(['getint', 'getslice', 'getname', 'setint', 'setslice', 'setname', 'setnameoff', 'delint', 'delslice',
                    'delname', 'contains', 'len', 'bool', 'iter', 'reversed', 'keys', 'values', 'items', 'haskeys', 'pop', 'pop',
                    'get', 'insert', 'insert', 'append', 'extendlist', 'extendpr', 'clear', 'getattr', 'add', 'iadd', 'iadd',
                    'raddzero', 'raddpr', 'aslist', 'asdict', 'copy', 'deepcopy', 'pickle', 'getnamem', 'delint', 'delint'])
    idx = lambda: rng.randint(-5, 5)
    val = lambda: rng.choice(VALS)
    name = lambda: rng.choice(NAMES)
    pr = lambda: rng.choice(PRS)
    if k in ('getint', 'delint'): return (k, idx())
    if k in ('getslice', 'delslice'): return (k, rng.choice(SLICES))
    if k in ('getname', 'delname', 'contains', 'getattr'): return (k, name())
    if k == 'setint': return (k, idx(), val())
    if k == 'setslice': return (k, rng.choice(SLICES), [val() for _ in range(rng.randint(0, 3))])
    if k == 'setname': return (k, name(), val())
    if k == 'setnameoff': return (k, name(), val(), rng.randint(-1, 4))
    if k == 'pop':
        a0 = rng.choice([[], [idx()], [name()], [name()]])
        extra = [val() for _ in range(rng.choice([0, 0, 1, 2]))] if a0 else []
        kwd = rng.choice([[], [], [val()]])
        return (k, a0, extra, kwd, rng.random() < 0.05)
    if k == 'get': return (k, name(), val())
    if k == 'insert': return (k, idx(), val())
    if k == 'append': return (k, val())
    if k == 'extendlist': return (k, [val() for _ in range(rng.randint(0, 2))])
    if k in ('extendpr', 'add', 'iadd', 'raddpr'): return (k, pr())
    return (k,)
