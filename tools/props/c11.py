"""C11 — ParseResults copies, pickles and concatenations preserve both views.

Correspondence (family 3, with alias observations): the real object graph of a parse result (ParseResults objects, their
`_toklist` list objects, the occurrence-list objects inside `_tokdict`) is encoded as a heap of Model/ResultsHeap.v; a copy
kind (copy(), copy.copy, deepcopy(), copy.deepcopy, pickle) and a sequence of in-place mutations of the copy (and, for the
deep kinds, of nested results reached by index / by name) run on both sides; the two resulting object graphs reachable from
(original, copy) are compared up to isomorphism — this includes `c._toklist is r._toklist`, shared occurrence lists,
`d['g'] is r['g']`, and every stored position.  Value level: `__init__` (constructor combinations), from_dict.
Property oracles on the implementation: views preserved by each copy kind; independence of the original after the
mutations; monoid laws of + / += / sum(); from_dict round trip (asserted on every generated dict of the class `dict_ok` of
Theorem C11_from_dict_partial; the class is evaluated by the Coq predicate and by its Python re-statement, which must agree).
State: the tree repaired by notes/C11-fix.diff (F-03/F-11 `__getstate__`, F-05 `__init__`).
"""
import copy as _copy
import json
import pickle
from concurrent.futures import ThreadPoolExecutor
from tools import vlib
from tools.props import pr_common as C, pr_cases as K

PROP = "C11"
GEN = []
RULE = ("5 copy kinds x 8 start objects (real parses with Group/names/list-all names/Dict/nested groups/non-string tokens) x "
        "mutation sequences of the copy (9 mutators; nested targets by index/name for the deep kinds): object graphs compared up to "
        "isomorphism incl. alias structure and stored positions; independence / view-preservation / monoid / from_dict oracles on the "
        "implementation; non-trivial = start object has names and >= 2 mutations")
TRUSTED = ["tools/props/c11.py: encoding of the real object graph as a heap, the Python executor of the mutations, graph canonicalisation",
           "copy.deepcopy / pickle are modelled as an isomorphic relocation of the reachable heap (the memo mechanics of the copy and "
           "pickle modules are not modelled beyond __getstate__/__setstate__/__getnewargs__)"]
EXPLANATION = "Heap-level theorems quantify over all heaps, all results and all mutation sequences; the executable heap model is compared with real objects every run."

PRE = ("From Coq Require Import List ZArith NArith Bool.\n"
       "From PP Require Import Model.Str Model.Results Model.ResultsAPI Model.ResultsSpec Model.ResultsHeap Proofs.FromDictProofs.\n"
       "Import ListNotations.\nUnset Printing Records.\n")
COPY_KINDS = ["copy", "copycopy", "deepcopy_method", "deepcopy", "pickle"]
DEEP = ("deepcopy", "pickle")


# ------------------------------------------------------------------------------------------------
# object graphs
# ------------------------------------------------------------------------------------------------
def graph_of(roots):
    """canonical graph reachable from the real objects `roots` (DFS pre-order numbering); returns (nodes, root indices)"""
    PR = C.PRcls()
    nodes, index, keep = [], {}, []

    def val(x):
        return ('ref', visit_pr(x)) if isinstance(x, PR) else ('s', C.norm(C.canon(x)))

    def visit_list(l):
        if id(l) in index:
            return index[id(l)]
        a = len(nodes); index[id(l)] = a; keep.append(l); nodes.append(None)
        nodes[a] = ('L', tuple(val(x) for x in l))
        return a

    def visit_occ(o):
        if id(o) in index:
            return index[id(o)]
        a = len(nodes); index[id(o)] = a; keep.append(o); nodes.append(None)
        nodes[a] = ('O', tuple((val(w[0]), w[1]) for w in o))
        return a

    def visit_pr(p):
        if id(p) in index:
            return index[id(p)]
        a = len(nodes); index[id(p)] = a; keep.append(p); nodes.append(None)
        tl = visit_list(p._toklist)
        d = tuple((k, visit_occ(o)) for k, o in p._tokdict.items())
        nodes[a] = ('PR', tl, d, tuple(sorted(p._all_names)), p._name)
        return a
    idx = [visit_pr(r) for r in roots]
    return nodes, idx


def coq_value(v):
    return "(VRef %d)" % v[1] if v[0] == 'ref' else "(VS %s)" % C.coq_tok(v[1])


def coq_heap(nodes):
    out = []
    for n in nodes:
        if n[0] == 'L':
            out.append("(OList [%s])" % ";".join(coq_value(v) for v in n[1]))
        elif n[0] == 'O':
            out.append("(OOcc [%s])" % ";".join("(%s, (%d)%%Z)" % (coq_value(v), p) for v, p in n[1]))
        else:
            out.append("(OPR %d [%s] [%s] %s)" % (n[1], ";".join("(%s, %d)" % (vlib.coq_str(k), a) for k, a in n[2]),
                                                  ";".join(vlib.coq_str(x) for x in n[3]), C.coq_opt_str(n[4])))
    return "[" + ";".join(out) + "]"


def dec_value(t):
    if t[0] == 'VRef':
        return ('ref', t[1])
    return ('s', C.norm(C.dec_tok(t[1])))


def dec_heap(t):
    out = []
    for o in t:
        if o[0] == 'OList':
            out.append(('L', tuple(dec_value(v) for v in o[1])))
        elif o[0] == 'OOcc':
            out.append(('O', tuple((dec_value(v), p) for v, p in o[1])))
        else:
            out.append(('PR', o[1], tuple((C.dec_str(k), a) for k, a in o[2]), tuple(sorted(set(C.dec_str(x) for x in o[3]))),
                        C.dec_opt(o[4], C.dec_str)))
    return out


def graph_of_heap(heap, roots):
    """renumber the part of a model heap reachable from roots in the same DFS order as graph_of"""
    nodes, index = [], {}

    def val(v):
        return ('ref', visit(v[1])) if v[0] == 'ref' else v

    def visit(a):
        if a in index:
            return index[a]
        n = heap[a]
        i = len(nodes); index[a] = i; nodes.append(None)
        if n[0] == 'L':
            nodes[i] = ('L', tuple(val(v) for v in n[1]))
        elif n[0] == 'O':
            nodes[i] = ('O', tuple((val(v), p) for v, p in n[1]))
        else:
            tl = visit(n[1])
            d = tuple((k, visit(oa)) for k, oa in n[2])
            nodes[i] = ('PR', tl, d, n[3], n[4])
        return i
    idx = [visit(r) for r in roots]
    return nodes, idx


# ------------------------------------------------------------------------------------------------
# copy kinds and mutations on real objects
# ------------------------------------------------------------------------------------------------
def do_copy(kind, r):
    if kind == "copy": return r.copy()
    if kind == "copycopy": return _copy.copy(r)
    if kind == "deepcopy_method": return r.deepcopy()
    if kind == "deepcopy": return _copy.deepcopy(r)
    if kind == "pickle": return pickle.loads(pickle.dumps(r))
    raise ValueError(kind)


def coq_copy(kind, live):
    if kind == "copy": return "h_copy h0 0"
    if kind == "copycopy": return "h_copycopy %s h0 0" % ("true" if live else "false")
    if kind == "deepcopy_method": return "h_deepcopy_method 50 h0 0"
    return "Some (h_deepcopy h0 0)"


def resolve(c, path):
    PR = C.PRcls()
    cur = c
    for s in path:
        try:
            if s[0] == 'idx':
                nxt = cur._toklist[s[1]] if s[1] < len(cur._toklist) else None
            else:
                occ = cur._tokdict.get(s[1])
                nxt = occ[s[2]][0] if occ is not None and s[2] < len(occ) else None
        except Exception:
            return None
        if not isinstance(nxt, PR):
            return None
        cur = nxt
    return cur


def apply_mop(t, m, r):
    k = m[0]
    try:
        if k == 'append': t.append(C.build(m[1]))
        elif k == 'extend': t.extend([C.build(v) for v in m[1]])
        elif k == 'insert': t.insert(m[1], C.build(m[2]))
        elif k == 'delitem': del t[m[1]]
        elif k == 'setitem': t[m[1]] = C.build(m[2])
        elif k == 'setname': t[m[1]] = C.build(m[2])
        elif k == 'delname':
            if m[1] in t: del t[m[1]]
        elif k == 'clear': t.clear()
        elif k == 'iadd': t += r
        else: raise ValueError(m)
    except IndexError:
        pass


def coq_path(p):
    return "[" + ";".join("(PIdx %d)" % s[1] if s[0] == 'idx' else "(PName %s %d)" % (vlib.coq_str(s[1]), s[2]) for s in p) + "]"


def coq_mop(m):
    k = m[0]
    V = lambda c: "(VS %s)" % C.coq_tok(c)
    if k == 'append': return "(MAppend %s)" % V(m[1])
    if k == 'extend': return "(MExtend [%s])" % ";".join(V(v) for v in m[1])
    if k == 'insert': return "(MInsert (%d)%%Z %s)" % (m[1], V(m[2]))
    if k == 'delitem': return "(MDelItem (%d)%%Z)" % m[1]
    if k == 'setitem': return "(MSetItem (%d)%%Z %s)" % (m[1], V(m[2]))
    if k == 'setname': return "(MSetName %s %s)" % (vlib.coq_str(m[1]), V(m[2]))
    if k == 'delname': return "(MDelName %s)" % vlib.coq_str(m[1])
    if k == 'clear': return "MClear"
    if k == 'iadd': return "(MIAdd 0)"
    raise ValueError(m)


SCALARS = [('s', 'Z'), ('i', 9), ('n',), ('s', 'Y')]
PATHS_NESTED = [[('idx', 0)], [('idx', 1)], [('idx', 2)], [('idx', 0), ('idx', 0)]]
PATHS_NAMED = [[('name', 'g', 0)], [('name', 'h', 1)], [('name', 'top', 0)], [('name', 'top', 0), ('name', 'g', 0)], [('name', 'y', 0)]]


def random_mop(rng, allow_iadd):
    k = rng.choice(['append', 'extend', 'insert', 'insert', 'delitem', 'delitem', 'setitem', 'setname', 'setname', 'delname', 'clear']
                   + (['iadd'] if allow_iadd else []))
    v = lambda: rng.choice(SCALARS)
    i = lambda: rng.randint(-4, 4)
    n = lambda: rng.choice(['x', 'g', 'h', 'n', 'k', 'a'])
    if k == 'append': return (k, v())
    if k == 'extend': return (k, [v() for _ in range(rng.randint(0, 2))])
    if k in ('insert', 'setitem'): return (k, i(), v())
    if k == 'delitem': return (k, i())
    if k == 'setname': return (k, n(), v())
    if k == 'delname': return (k, n())
    return (k,)


def random_pms(rng, kind, maxlen):
    pms = []
    for _ in range(rng.randint(1, maxlen)):
        if kind in DEEP:
            path = rng.choice([[], []] + PATHS_NESTED + PATHS_NAMED)
        elif kind == "deepcopy_method":
            path = rng.choice([[], [], []] + PATHS_NESTED)      # named paths: F-11b, designated probe only
        else:
            path = []
        pms.append((path, random_mop(rng, allow_iadd=(kind not in DEEP and kind != "deepcopy_method" and not path))))
    return pms


def run_real(factory, kind, pms):
    r = factory()
    before_view = C.norm(C.vcanon(C.canon(r)))
    before_obs = (r.as_list(), r.as_dict(), r.dump(), list(r.keys()), len(r))
    c = do_copy(kind, r)
    copy_obs = (c.as_list(), c.as_dict(), c.dump(), list(c.keys()), len(c))
    for path, m in pms:
        t = resolve(c, path)
        if t is not None:
            apply_mop(t, m, r)
    after_view = C.norm(C.vcanon(C.canon(r)))
    nodes, idx = graph_of([r, c])
    return {"view_preserved": before_obs == copy_obs, "independent": before_view == after_view,
            "graph": (tuple(nodes), tuple(idx)), "before": before_view, "after": after_view}


def case_key(kind, sname, pms):
    return "%s:%s:%s" % (kind, sname, json.dumps(pms, sort_keys=True, default=str, separators=(",", ":")))


# designated probes for the recorded findings (stable keys in known_findings.txt)
PROBE_F11B = ("deepcopy_method", "groups", [([('name', 'g', 0)], ('append', ('s', 'Z')))])


# ------------------------------------------------------------------------------------------------
def tree_getstate_live():
    """does this tree's __getstate__ hand out the live token list?  (only used to label the evidence)"""
    PR = C.PRcls()
    r = PR(['a'])
    return r.__getstate__()[0] is r._toklist


def correspond(ctx):
    starts = K.start_objects()
    names = sorted(starts)
    n_rand = 6000 if ctx.thorough else 1500
    maxlen = 14 if ctx.thorough else 7
    cases = [PROBE_F11B]
    for i in range(n_rand):
        kind = COPY_KINDS[i % len(COPY_KINDS)]
        s = names[(i // len(COPY_KINDS)) % len(names)]
        cases.append((kind, s, random_pms(ctx.rng, kind, maxlen)))
    ctx.coverage_extra["tree___getstate___hands_out_live_list"] = tree_getstate_live()

    # ---- model side (the repaired tree: copy.copy does not share the token list)
    exprs = []
    for kind, s, pms in cases:
        nodes, idx = graph_of([starts[s]()])
        pm_term = "[" + ";".join("(%s, %s)" % (coq_path(p), coq_mop(m)) for p, m in pms) + "]"
        exprs.append("let h0 := %s in match %s with Some (h1, c) => Some (fold_left (fun hh pm => mstep_at hh c pm) %s h1, c) | None => None end"
                     % (coq_heap(nodes), coq_copy(kind, live=False), pm_term))
    shard = 50
    jobs = [(k, exprs[k:k + shard]) for k in range(0, len(exprs), shard)]

    def work(job):
        try:
            return vlib.coq_eval_terms("c11_heap_%d" % job[0], PRE, job[1], timeout=1500)
        except Exception as e:
            return e
    with ThreadPoolExecutor(max_workers=10) as ex:
        results = list(ex.map(work, jobs))
    model = []
    for job, res in zip(jobs, results):
        if isinstance(res, Exception):
            ctx.broken("correspondence:model-eval heap shard %d (%s)" % (job[0], str(res)[:200]))
            model.extend([None] * len(job[1]))
        else:
            model.extend(res)

    # ---- implementation side, oracles, comparison
    for (kind, s, pms), m in zip(cases, model):
        real = run_real(starts[s], kind, pms)
        key = case_key(kind, s, pms)
        replay = {"kind": "indep", "copy": kind, "start": s, "pms": pms}
        if not real["view_preserved"]:
            ctx.violation("views:" + kind + ":" + s, "%s of start object %s does not preserve as_list/as_dict/dump/keys/len" % (kind, s), replay)
        if not real["independent"]:
            fkey = "deepcopy-method-named-alias:groups:g0-append" if (kind, s, pms) == PROBE_F11B else "indep:" + key
            ctx.violation(fkey, "mutating the %s of %s changed the original: views before %r after %r" % (
                kind, s, real["before"], real["after"]), replay)
        agreed = True
        if m is not None:
            got = C.dec_opt(m, lambda t: t)
            if got is None:
                agreed = False
                ctx.broken("correspondence:heap model returned None for %s" % key[:200])
            else:
                heap = dec_heap(got[0])
                mg = graph_of_heap(heap, [0, got[1]])
                if (tuple(mg[0]), tuple(mg[1])) != real["graph"]:
                    agreed = False
                    ctx.broken("correspondence:heap model!=impl object graph (alias structure / positions) for %s" % key[:300])
                    ctx.coverage_extra.setdefault("first_disagreement", {"case": key, "model": repr(mg)[:1500], "impl": repr(real["graph"])[:1500]})
        ctx.case(key, nontrivial=(s not in ("empty", "plain") and len(pms) >= 2), agreed=agreed and m is not None)
        ctx.stat("copy:" + kind)
    value_level(ctx, starts)
    ctx.sample({"copy": cases[1][0], "start": cases[1][1], "mutations": [list(map(str, pm)) for pm in cases[1][2][:3]]})
    ctx.coverage_extra["scope"] = "%d copy/mutation cases (mutation sequences of length <= %d), constructor grid, monoid triples, from_dict" % (len(cases), maxlen)


# ------------------------------------------------------------------------------------------------
# value level: __init__ grid, from_dict, monoid laws
# ------------------------------------------------------------------------------------------------
def init_grid():
    import pyparsing as pp
    PR = pp.ParseResults

    def mk_named():
        r = PR(['a', 'b']); r['k'] = 'a'; r += PR(['c'], 'm', asList=False, modal=False); return r
    kinds = {
        'str': lambda: 'a', 'int': lambda: 5, 'none': lambda: None, 'empty': lambda: [], 'strs': lambda: ['a', 'b'],
        'prs': lambda: [PR(['x']), 'y'], 'prnamed_in_list': lambda: [PR(['x'], 'q'), 'y'],
        'pr_empty': lambda: PR([]), 'pr_ab': lambda: PR(['a', 'b']), 'pr_named': mk_named,
        'pr_nested': lambda: PR([PR(['x', 'y']), 'z'], 'g'), 'pr_namedempty': lambda: PR([], 'zz', modal=False),
        'List': lambda: PR.List(['a', 'b']), 'ListE': lambda: PR.List([]), 'inList': lambda: [['a'], 'b'], 'estr': lambda: '',
    }
    for kind, mk in kinds.items():
        for name in (None, '', 'n', 'k', 'm'):
            for asList in (True, False):
                for modal in (True, False):
                    yield kind, mk, name, asList, modal


def raw_of(x):
    PR = C.PRcls()
    if isinstance(x, PR): return "(RPR %s)" % C.coq_pres(C.canon(x))
    if isinstance(x, PR.List): return "(RVal %s)" % C.coq_tok(C.canon(list(x)))
    if isinstance(x, str): return "(RStr %s)" % vlib.coq_str(x)
    if isinstance(x, list): return "(RList [%s])" % ";".join(C.coq_tok(C.canon(v)) for v in x)
    return "(RVal %s)" % C.coq_tok(C.canon(x))


def py_of_pyval(v):
    return {k: py_of_pyval(x) for k, x in v[1]} if v[0] == 'D' else C.build(v[1])


def coq_pyval(v):
    if v[0] == 'D':
        return "(PD [%s])" % ";".join("(%s, %s)" % (vlib.coq_str(k), coq_pyval(x)) for k, x in v[1])
    return "(PV %s)" % C.coq_tok(v[1])


def random_pyval(rng, depth, nonempty=True):
    if depth > 0 and rng.random() < 0.4:
        n = rng.randint(1 if nonempty else 0, 3)
        keys = rng.sample(['a', 'b', 'c', 'dd', 'e'], n)
        return ('D', [(k, random_pyval(rng, depth - 1)) for k in keys])
    return ('V', rng.choice([('s', 'v'), ('s', ''), ('i', 3), ('n',), ('b', True), ('l', []), ('l', [('s', 'p'), ('i', 1)]),
                             ('l', [('l', [('i', 1)]), ('s', 'q')])]))


def random_pyval_any(rng, depth):
    """like random_pyval, but nested dicts may be empty and '' may be a key: leaves the class of C11_from_dict_partial"""
    if depth > 0 and rng.random() < 0.5:
        n = rng.randint(0, 3)
        keys = rng.sample(['a', 'b', '', 'dd', 'e'], n)
        return ('D', [(k, random_pyval_any(rng, depth - 1)) for k in keys])
    return ('V', rng.choice([('s', 'v'), ('i', 0), ('n',), ('b', False), ('l', []), ('l', [('l', []), ('n',)])]))


# the class of Theorem C11_from_dict_partial (Proofs/FromDictProofs.v `dict_ok`), re-stated on the tagged Python form; the two are
# compared on every generated dict
def py_value_ok(t):
    if t[0] in ('s', 'i', 'b', 'n'):
        return True
    if t[0] == 'l':
        return all(x[0] != 'pr' for x in t[1])            # elem_ok: anything but a ParseResults
    return False


def py_keys_ok(keys):
    return all(k != '' for k in keys) and len(set(keys)) == len(keys)


def py_pyval_ok(v):
    if v[0] == 'V':
        return py_value_ok(v[1])
    return len(v[1]) > 0 and py_dict_ok(v)                # a nested dict: non-empty


def py_dict_ok(d):
    return d[0] == 'D' and py_keys_ok([k for k, _ in d[1]]) and all(py_pyval_ok(x) for _, x in d[1])


def dec_dval(t):
    """a `dval` printed by vm_compute -> the canonical form C.canon gives the same Python value"""
    h = t[0]
    if h == 'DTok':
        return C.dec_tok(t[1])
    if h == 'DList':
        return ('l', [dec_dval(x) for x in t[1]])
    if h == 'DDict':
        return ('d', [(C.dec_str(k), dec_dval(x)) for k, x in t[1]])
    raise ValueError("dec_dval %r" % (t,))


def dec_ddict(l):
    return ('d', [(C.dec_str(k), dec_dval(x)) for k, x in l])


def value_level(ctx, starts):
    PR = C.PRcls()
    exprs, checks = [], []
    # --- __init__ (the repaired __init__ is what Model/Results.v pr_init models)
    for kind, mk, name, asList, modal in init_grid():
        x = mk()
        term = raw_of(x)
        try:
            r = PR(x, name, asList=asList, modal=modal)
            impl = C.norm(C.canon(r))
        except TypeError:
            impl = 'TypeError'
        exprs.append("(pr_init %s %s %s %s, pr_init_raises %s %s %s)" % (
            term, C.coq_opt_str(name), str(asList).lower(), str(modal).lower(), term, C.coq_opt_str(name), str(asList).lower()))
        checks.append(("init", (kind, name, asList, modal), impl))
    # --- from_dict: the class of C11_from_dict_partial is evaluated on both sides; inside it the implementation must round-trip
    dicts = [('D', [])]
    want = len(dicts) + (120 if not ctx.thorough else 600)
    while len(dicts) < want:
        d = random_pyval(ctx.rng, 3)
        if d[0] == 'D':
            dicts.append(d)
    want = len(dicts) + (40 if not ctx.thorough else 200)
    while len(dicts) < want:
        d = random_pyval_any(ctx.rng, 3)
        if d[0] == 'D':
            dicts.append(d)
    dicts += [('D', [('a', ('D', []))]), ('D', [('', ('V', ('i', 1)))]), ('D', [('a', ('D', [('', ('V', ('n',)))]))])]
    outside_roundtrips = []
    for d in dicts:
        pd = py_of_pyval(d)
        r = PR.from_dict(pd)
        inclass = py_dict_ok(d)
        back = r.as_dict()
        if inclass:
            ctx.stat("from_dict_in_class")
            if back != pd:
                ctx.violation("from_dict:" + json.dumps(d, default=str)[:200],
                              "from_dict(d).as_dict() != d for d=%r (in the class dict_ok of C11_from_dict_partial): %r" % (pd, back),
                              {"kind": "from_dict", "d": d})
        else:
            ctx.stat("from_dict_out_of_class")
            if back == pd:
                outside_roundtrips.append(repr(pd))
        D = "[%s]" % ";".join("(%s, %s)" % (vlib.coq_str(k), coq_pyval(x)) for k, x in d[1])
        exprs.append("(from_dict %s, (dict_ok %s, ddict_of %s, as_dict (from_dict %s)))" % (D, D, D, D))
        checks.append(("from_dict", d, (C.norm(C.canon(r)), inclass, C.norm(C.canon(pd)), C.norm(C.canon(back)))))
        ctx.stat("from_dict_cases")
    # outside the hypothesis (recorded, not violations): nested empty dict, tuple, empty key
    outside = {"nested_empty_dict": {'a': {}}, "tuple": {'a': (1, 2)}, "empty_key": {'': 1}}
    ctx.coverage_extra["from_dict_outside_hypothesis"] = {k: repr(PR.from_dict(v).as_dict()) for k, v in outside.items()}
    ctx.coverage_extra["from_dict_class"] = {
        "in_class": ctx.stats.get("from_dict_in_class", 0), "out_of_class": ctx.stats.get("from_dict_out_of_class", 0),
        "out_of_class_that_round_trip_anyway": outside_roundtrips[:10]}
    print("C11 from_dict: %d dicts in the class dict_ok (round trip asserted on the implementation), %d outside (recorded only; %d of them "
          "round-trip anyway)" % (ctx.stats.get("from_dict_in_class", 0), ctx.stats.get("from_dict_out_of_class", 0), len(outside_roundtrips)))
    try:
        res = vlib.coq_eval_terms("c11_value", PRE, exprs, timeout=900)
    except Exception as e:
        ctx.broken("correspondence:model-eval value level (%s)" % str(e)[:200])
        res = None
    if res is not None:
        for (what, key, impl), t in zip(checks, res):
            if what == "init":
                st, raises = t
                model = 'TypeError' if raises else C.norm(C.dec_pres(st))
            elif what == "from_dict":
                st, (m_ok, m_expected, m_asdict) = t
                # model state vs implementation state; Coq dict_ok vs the Python re-statement; `ddict_of d` vs d itself;
                # model as_dict vs implementation as_dict (types and key order included)
                model = (C.norm(C.dec_pres(st)), m_ok, C.norm(dec_ddict(m_expected)), C.norm(dec_ddict(m_asdict)))
                if m_ok and model[3] != model[2]:
                    ctx.broken("theorem:C11_from_dict_partial the model does not round-trip on the in-class dict %r" % (key,))
            else:
                model = C.norm(C.dec_pres(t))
            ok = model == impl
            if not ok:
                ctx.broken("correspondence:%s model!=impl for %r: model %r impl %r" % (what, key, model, impl))
            ctx.case("%s:%r" % (what, key), nontrivial=False, agreed=ok)
            ctx.stat(what + "_compared")
    # --- from_dict round trip on the implementation for scalar kinds the model's value type does not have (bytes, float, ...):
    #     "nested dicts (non-empty) of scalars and lists" - same class shape as dict_ok, wider scalars
    import random as _random
    rng2 = _random.Random(ctx.seed * 31 + 5)
    SC = [b"ab", b"", 1.5, 0.0, -2, 0, "", "x", "two words", True, False, None]

    def rnd(depth):
        if depth > 0 and rng2.random() < 0.4:
            return {k: rnd(depth - 1) for k in rng2.sample(["a", "b", "c", "dd"], rng2.randint(1, 3))}
        if rng2.random() < 0.3:
            return [rng2.choice(SC) for _ in range(rng2.randint(0, 3))]
        return rng2.choice(SC)
    fixed = [{"blob": b"ab"}, {"a": {"b": b""}}, {"f": 1.5, "l": [b"x", 2.5]}, {"a": [b"ab"]}]
    for i in range(len(fixed) + (150 if not ctx.thorough else 1500)):
        dct = fixed[i] if i < len(fixed) else {k: rnd(2) for k in rng2.sample(["a", "b", "c", "dd", "e"], rng2.randint(0, 4))}
        try:
            back = PR.from_dict(dct).as_dict()
        except Exception as e:
            back = "raises %s: %s" % (type(e).__name__, e)
        ctx.stat("from_dict_wide_scalars")
        if back != dct or repr(back) != repr(dct):
            ctx.violation("from_dict-wide:%r" % (dct,), "ParseResults.from_dict(%r).as_dict() = %r" % (dct, back), {"kind": "from_dict_py", "d": repr(dct)})
    # --- monoid laws on the implementation (views)
    pool = [K.P_PLAIN, K.P_NAMED, K.P_NESTED, K.P_EMPTY] + [C.canon(starts[s]()) for s in ("seq_names", "groups", "dict")]
    V = lambda x: C.norm(C.vcanon(C.canon(x)))
    for ia, a in enumerate(pool):
        for ib, b in enumerate(pool):
            A, B = C.build(a), C.build(b)
            s = A + B
            if list(s) != list(A) + list(B):
                ctx.violation("add-list:%d:%d" % (ia, ib), "a + b does not append the token lists", {"kind": "monoid", "a": a, "b": b})
            if V(sum([A, B])) != V(A + B):
                ctx.violation("sum:%d:%d" % (ia, ib), "sum([a, b]) != a + b", {"kind": "monoid", "a": a, "b": b})
            for ic, c in enumerate(pool):
                A, B, Cc = C.build(a), C.build(b), C.build(c)
                if V((A + B) + Cc) != V(A + (B + Cc)):
                    ctx.violation("assoc:%d:%d:%d" % (ia, ib, ic), "(a + b) + c != a + (b + c) on the views", {"kind": "monoid", "a": a, "b": b, "c": c})
                ctx.stat("monoid_triples")
        A = C.build(a)
        E = PR([])
        if V(A + E) != V(A) or V(E + A) != V(A):
            ctx.violation("identity:%d" % ia, "the empty result is not an identity of + on the views", {"kind": "monoid", "a": a})
    # --- concatenation never changes its operands: c = copy(a); c += b / a + b / sum / b-side copies, for operands whose names
    #     overlap with DIFFERENT flags (ordinary in one, list-all in the other), nested groups included
    import pyparsing as _pp
    _w, _n = _pp.Word(_pp.alphas), _pp.Word(_pp.nums)
    factories = [
        ("modal-x", lambda: (_w("x") + _pp.Group(_w("k") + _n("v"))("g") + _w("y")).parse_string("p key 7 q")),
        ("listall-x", lambda: _n("x*")[1, ...].parse_string("1 2")),
        ("listall-y-g", lambda: (_pp.Group(_n("v*")[1, ...])("g*") + _w("y*")).parse_string("3 4 r")),
        ("modal-v", lambda: (_n("v") + _w("k")).parse_string("5 s")),
        ("plain", lambda: C.build(K.P_PLAIN)), ("named", lambda: C.build(K.P_NAMED)), ("nested", lambda: C.build(K.P_NESTED)),
    ]
    obs = lambda r: (r.as_list(), r.as_dict(), r.dump(), list(r.keys()), len(r))

    def nested_iadd(a, b, kind):
        d = do_copy(kind, a)
        for i, t in enumerate(list(d)):
            if isinstance(t, PR):
                t += b
    steps = [("copy+=", lambda a, b: do_copy("copy", a).__iadd__(b)), ("copycopy+=", lambda a, b: do_copy("copycopy", a).__iadd__(b)),
             ("deepcopy+=", lambda a, b: do_copy("deepcopy", a).__iadd__(b)), ("deepcopy_method+=", lambda a, b: do_copy("deepcopy_method", a).__iadd__(b)),
             ("pickle+=", lambda a, b: do_copy("pickle", a).__iadd__(b)), ("add", lambda a, b: a + b), ("radd-sum", lambda a, b: sum([a, b])),
             ("sum3", lambda a, b: sum([a, b, a])), ("nested-deepcopy+=", lambda a, b: nested_iadd(a, b, "deepcopy")),
             ("nested-deepcopy_method+=", lambda a, b: nested_iadd(a, b, "deepcopy_method"))]
    for na, fa in factories:
        for nb, fb in factories:
            for ns, step in steps:
                a, b = fa(), fb()
                oa, ob = obs(a), obs(b)
                step(a, b)
                ctx.stat("concat_operand_checks")
                if obs(a) != oa or obs(b) != ob:
                    which = "left" if obs(a) != oa else "right"
                    ctx.violation("concat-changes-operand:%s:%s:%s" % (ns, na, nb),
                                  "%s on (%s, %s) changed its %s operand: %r -> %r" % (ns, na, nb, which, (oa if which == "left" else ob)[1],
                                                                                     (obs(a) if which == "left" else obs(b))[1]),
                                  {"kind": "concat-operand", "step": ns, "a": na, "b": nb})
    # designated probe of the recorded finding: a falsy operand carrying a list-all name
    a, b, c = PR(['u'], 'x', asList=False), PR([], 'x', modal=False), PR(['v'], 'x', asList=False)
    if V((a + b) + c) != V(a + (b + c)):
        ctx.violation("assoc-flags:u-x|empty-x*|v-x", "(a + b) + c != a + (b + c): a falsy operand is skipped together with its list-all names; "
                      "((a+b)+c)['x'] = %r, (a+(b+c))['x'] = %r" % (((a + b) + c)['x'], (a + (b + c))['x']), {"kind": "assoc-flags"})


def search(ctx, reasons):
    starts = K.start_objects()
    names = sorted(starts)
    for i in range(20000 if ctx.thorough else 3000):
        kind = COPY_KINDS[i % len(COPY_KINDS)]
        s = names[(i // len(COPY_KINDS)) % len(names)]
        pms = random_pms(ctx.rng, kind, 4)
        real = run_real(starts[s], kind, pms)
        ctx.stat("search_cases")
        if not real["independent"] or not real["view_preserved"]:
            # shrink
            cur = pms
            changed = True
            while changed and len(cur) > 1:
                changed = False
                for d in range(len(cur)):
                    cand = cur[:d] + cur[d + 1:]
                    rr = run_real(starts[s], kind, cand)
                    if not rr["independent"] or not rr["view_preserved"]:
                        cur, changed = cand, True
                        break
            ctx.violation("indep:" + case_key(kind, s, cur), "mutating the %s of %s changed the original (or the copy's views differ)" % (kind, s),
                          {"kind": "indep", "copy": kind, "start": s, "pms": cur})
            return


def replay(ctx, obj):
    r = obj["replay"]
    starts = K.start_objects()
    if r.get("kind") == "indep":
        pms = [([tuple(s) for s in p], tuple(m)) for p, m in r["pms"]]
        real = run_real(starts[r["start"]], r["copy"], pms)
        ok = real["independent"] and real["view_preserved"]
        if not ok:
            print("copy kind %s of %s, mutations %r: original views before %r after %r" % (r["copy"], r["start"], pms, real["before"], real["after"]))
        return ok
    if r.get("kind") == "assoc-flags":
        PR = C.PRcls()
        a, b, c = PR(['u'], 'x', asList=False), PR([], 'x', modal=False), PR(['v'], 'x', asList=False)
        x, y = ((a + b) + c)['x'], (a + (b + c))['x']
        print("((a+b)+c)['x'] = %r ; (a+(b+c))['x'] = %r" % (x, y))
        return C.canon(x) == C.canon(y)
    if r.get("kind") == "from_dict_py":
        PR = C.PRcls()
        dct = eval(r["d"], {})
        back = PR.from_dict(dct).as_dict()
        print(back)
        return back == dct and repr(back) == repr(dct)
    if r.get("kind") == "concat-operand":
        print("re-run `./check C11`: the scenario %r is regenerated by value_level()" % (r,))
        return False
    if r.get("kind") == "monoid":
        V = lambda x: C.norm(C.vcanon(C.canon(x)))
        a = C.build(r["a"]); b = C.build(r.get("b", K.P_EMPTY)); c = C.build(r.get("c", K.P_EMPTY))
        return V((a + b) + c) == V(C.build(r["a"]) + (C.build(r.get("b", K.P_EMPTY)) + C.build(r.get("c", K.P_EMPTY))))
    if r.get("kind") == "from_dict":
        PR = C.PRcls()
        pd = py_of_pyval(r["d"])
        return PR.from_dict(pd).as_dict() == pd
    print("replay names a broken proof/correspondence obligation: %r" % (r,))
    return False
