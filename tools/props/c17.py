"""C17 — alternative matching strategies for the same element are equivalent.

Correspondence families (model = Coq definitions evaluated with vm_compute; implementation = $VERIF_REPO):
  regex     Model/Regex.v matcher (and tools/regex_ast.py converter) vs CPython `re`: pattern zoo + every pattern the
            generators below produced in this run  x  all short strings x all positions
  word      Word(...) constructor arguments: validity, regex-or-loop decision, reString (parsed, structural), and both
            parseImpl paths at every position vs word_loop / word_regex / word_spec
  literal   Literal dispatch vs literal_parse
  oneof     one_of symbol lists: reordered symbols, generated pattern (parsed, structural), both paths at every position
            vs reorder / oneof_regex / match_first
  ranges    _collapse_string_to_ranges / _escape_regex_range_chars / srange vs collapse_items / collapse_str /
            escape_range_str / read_class / expand_items
  compre    make_compressed_re at max_level 0..3 on fixed + generated word lists: real text parsed (sre_parse) vs the
            Coq model compressed_re (Model/CompRe.v; structurally after sre_norm, else behaviourally), the model AST
            run by the Coq matcher on all short strings vs CPython re on the real text and vs membership, ValueError
            <-> None, re.escape vs re_escape / read_lit; real output also parsed and run through the Coq matcher
Property oracle on the implementation: the two real Word paths agree with each other and with the reading
(longest run capped at max, failing below min); use_regex on/off agree and return a longest listed symbol;
Literal = startswith; the generated classes denote exactly the given characters; make_compressed_re fullmatches
exactly the words.
"""
import itertools, re, warnings
from tools import vlib
from tools import regex_ast as RA

PROP = "C17"
GEN = ["gen_c17"]
RULE = ("exhaustive small scope: Word args (init/body sets over {a,b,-,],^,\\,space,1}, min/max/exact<=4, exclude_chars, "
        "as_keyword) x all strings len<=3..4 x all loc, each real path forced; one_of symbol lists (<=3..4 symbols of "
        "len<=3 incl. duplicates, prefixes, metacharacters) x caseless x use_regex x as_keyword x all strings x all loc; "
        "make_compressed_re: all 1..3-subsets of an 11-word pool + hand-picked + seeded random lists (2..8 words, len<=4) x "
        "max_level 0..3, model AST vs sre_parse of the real text and model/real fullmatch on all strings over 'abc.' len<=3; "
        "generated regex strings parsed by sre_parse and compared structurally with the model AST and run through the Coq "
        "matcher, which is itself compared with CPython re on a pattern zoo; non-trivial = the case exercises a match")
TRUSTED = [
    "Model/Regex.v stands for CPython's re on the fragment pyparsing generates (ASCII-only categories, \\b and IGNORECASE "
    "folding); validated against re on every run (zoo + generated patterns, all strings up to length 3-4)",
    "tools/regex_ast.py (re._parser opcode tree -> Regex.re) — fail-closed converter",
    "str.upper/lower are modelled for ASCII only",
]
EXPLANATION = ("Props/C17.v is in the state of the repaired tree (notes/C17-fix.diff): without the fix the source facts "
               "gen_word_strict/gen_word_guard differ, C17_word_source_facts fails, and the F-17a / F-17c inputs are reported.")

PRE = ("From Coq Require Import List NArith Arith Bool.\n"
       "From PP Require Import Model.Str Model.Regex Gen.GenC17 Model.ReGen Model.WordModel Model.OneOf Model.CompRe.\n"
       "Import ListNotations.\n"
       "Fixpoint strings_exact (alpha : list char) (n : nat) : list str := match n with 0 => [[]] | S m => flat_map (fun c => map (cons c) (strings_exact alpha m)) alpha end.\n"
       "Fixpoint strings_upto (alpha : list char) (n : nat) : list str := match n with 0 => [[]] | S m => strings_upto alpha m ++ strings_exact alpha (S m) end.\n"
       "Definition enc (o : option nat) : nat := match o with Some e => S e | None => 0 end.\n")


def cs(s):
    return vlib.coq_str(s or "")


def enc(x):
    return 0 if x is None else x + 1


def strings(alpha, n):
    out = []
    for k in range(n + 1):
        for t in itertools.product(alpha, repeat=k):
            out.append("".join(t))
    return out


# ------------------------------------------------------------------------------------------------------------
# Coq term -> python tree (same shape as regex_ast.to_tree), comparison modulo sequence association / duplicate items
# ------------------------------------------------------------------------------------------------------------
def _atom(x):
    return x[0] if isinstance(x, tuple) and len(x) == 1 else x


def coq_re_tree(t):
    t = _atom(t)
    if t == "REps":
        return ("REps",)
    k = t[0]
    if k == "RSet":
        return ("RSet", t[1], t[2], [tuple(_atom(y) for y in x) for x in t[3]])
    if k == "RAny":
        return ("RAny", t[1])
    if k in ("RSeq", "RAlt"):
        return (k, coq_re_tree(t[1]), coq_re_tree(t[2]))
    if k == "RRep":
        hi = _atom(t[3])
        return ("RRep", _atom(t[1]), t[2], None if hi == "None" else hi[1], coq_re_tree(t[4]))
    if k == "RGroup":
        ix = _atom(t[1])
        return ("RGroup", None if ix == "None" else ix[1], coq_re_tree(t[2]))
    if k == "RLook":
        return ("RLook", t[1], coq_re_tree(t[2]))
    if k == "RAt":
        return ("RAt", _atom(t[1]))
    raise ValueError(t)


def canon(t):
    """flatten sequences/alternations, drop non-capturing groups and duplicate set items"""
    k = t[0]
    if k == "RSet":
        items = []
        for i in t[3]:
            if i not in items:
                items.append(i)
        return ("RSet", t[1], t[2], items)
    if k in ("RSeq", "RAlt"):
        parts = []
        for x in (canon(t[1]), canon(t[2])):
            if x[0] == k + "*":
                parts.extend(x[1])
            elif not (k == "RSeq" and x == ("REps",)):
                parts.append(x)
        return (k + "*", parts)
    if k == "RRep":
        return t[:4] + (canon(t[4]),)
    if k == "RGroup":
        return canon(t[2]) if t[1] is None else ("RGroup", t[1], canon(t[2]))
    if k == "RLook":
        return ("RLook", t[1], canon(t[2]))
    return t


# ------------------------------------------------------------------------------------------------------------
# 1. regex matcher vs CPython re
# ------------------------------------------------------------------------------------------------------------
ZOO = [
    (r'a', 0), (r'[ab]', 0), (r'[^a]', 0), (r'.', 0), (r'.', re.S), (r'a*', 0), (r'a+', 0), (r'a?', 0), (r'a*?', 0), (r'a+?', 0),
    (r'a??', 0), (r'a*b', 0), (r'a*?b', 0), (r'[ab]+b', 0), (r'[ab]+?b', 0), (r'a{2}', 0), (r'a{1,2}', 0), (r'a{2,}', 0),
    (r'a{1,2}?b', 0), (r'a{,2}', 0), (r'(?:ab|a)b', 0), (r'(?:a|ab)b', 0), (r'(a|b)*', 0), (r'(?:|a)*', 0), (r'(?:|a)*?b', 0),
    (r'(?:|a){2,}b', 0), (r'(?:a|)*', 0), (r'(?:a*)*b', 0), (r'(?:|a){1,3}', 0), (r'(?:|a){2}', 0), (r'(?:|a){2,3}', 0),
    (r'(?:|a)+?b', 0), (r'(?:a*?)*b', 0), (r'(?:a?){3}b', 0), (r'(?:a??){2,3}b', 0), (r'(?:a*){2,3}?b', 0), (r'(?:a|b??)*?b', 0),
    (r'\ba+\b', 0), (r'\b[a-]+\b', 0), (r'\Ba', 0), (r'^a', 0), (r'a$', 0), (r'a\Z', 0), (r'^a', re.M), (r'a$', re.M), (r'\Aa', re.M),
    (r'a(?=b)', 0), (r'a(?!b)', 0), (r'(?=a)[ab]+', 0), (r'(?!a)[ab\n]+', 0), (r'(?=a*b)a', 0),
    (r'\w+', 0), (r'\W', 0), (r'\d', 0), (r'\s', 0), (r'[\w-]+', 0), (r'[^\s\d]', 0), (r'[\D]', 0),
    (r'a', re.I), (r'[a-b]', re.I), (r'[^a]', re.I), (r'(?i:a)b', 0), (r'A|aB', re.I), (r'(?i)ab', 0),
    (r'a.b', 0), (r'a\nb', 0), (r'(?:a\n?)+$', 0), (r'(?s:.)a.', 0), (r'(?m:^)a', 0),
    (r'ab|abc|a', 0), (r'(?:a|ab)(?:c|bcd)?', 0), (r'(a+)+b', 0), (r'(?:a+?)+?b', 0),
]
RX_ALPHA = "ab\n-1A"


def regex_family(ctx, extra_patterns):
    n = 3
    strs = strings(RX_ALPHA, n)
    pats = list(ZOO)
    seen = set(pats)
    for p in extra_patterns:
        if p not in seen:
            seen.add(p)
            pats.append(p)
    trees = []
    usable = []
    for p, f in pats:
        try:
            trees.append(RA.to_tree(p, f))
            usable.append((p, f))
        except RA.Unsupported:
            ctx.stat("regex_patterns_unsupported")
    pre = PRE + ("Definition strs := strings_upto %s %d.\n"
                 "Definition runre (r : re) := map (fun s => (map (fun i => enc (re_match r s i)) (seq 0 (S (length s))), re_fullmatch r s)) strs.\n"
                 % (cs(RX_ALPHA), n))
    res = []
    B = 60
    for i in range(0, len(trees), B):
        res.extend(vlib.coq_eval_terms("c17_regex_%d" % i, pre, ["runre %s" % RA.tree_to_coq(t) for t in trees[i:i + B]], timeout=900))
    for (p, f), tree, out in zip(usable, trees, res):
        c = re.compile(p, f)
        for s, (ends, fm) in zip(strs, out):
            ok = True
            for i in range(len(s) + 1):
                m = c.match(s, i)
                exp = 0 if m is None else m.end() + 1
                if ends[i] != exp:
                    ok = False
                    ctx.broken("correspondence:regex-matcher pattern=%r flags=%d s=%r loc=%d re=%r model=%r" % (p, f, s, i, exp - 1, ends[i] - 1))
                if enc(RA.py_match(tree, s, i)) != exp:
                    ctx.broken("correspondence:regex-py-transcription pattern=%r s=%r loc=%d" % (p, s, i))
            if fm != (c.fullmatch(s) is not None):
                ok = False
                ctx.broken("correspondence:regex-fullmatch pattern=%r s=%r" % (p, s))
            ctx.case(("re", p, f, s), bool(s) and any(e for e in ends), ok)
    ctx.stat("regex_patterns", len(usable))


# ------------------------------------------------------------------------------------------------------------
# 2. Word
# ------------------------------------------------------------------------------------------------------------
def word_args(thorough):
    sets = ["a", "ab", "a-", "b]", "a ", "^\\", "ab1"]
    bodies = [None, "a", "b1", "b ", "ab", "-]"]
    grid = [(1, 0, 0), (2, 0, 0), (1, 1, 0), (1, 2, 0), (2, 2, 0), (1, 3, 0), (2, 3, 0), (3, 3, 0), (1, 0, 1), (1, 0, 2), (1, 0, 3),
            (3, 0, 0), (2, 4, 0), (1, 4, 0), (4, 4, 0), (1, 0, 4), (0, 0, 0), (2, 1, 0), (3, 2, 2)]
    excls = [None, "a", "b-"]
    if not thorough:
        sets = ["a", "ab", "a-", "b]", "a "]
        bodies = [None, "a", "b1", "b "]
        grid = [(1, 0, 0), (2, 0, 0), (1, 1, 0), (1, 2, 0), (2, 2, 0), (2, 3, 0), (3, 3, 0), (1, 0, 1), (1, 0, 2), (1, 0, 3), (2, 4, 0),
                (0, 0, 0), (2, 1, 0)]
        excls = [None, "a"]
    out = []
    for init in sets + [""]:
        for body in bodies:
            for g in grid:
                for excl in excls:
                    for kw in (False, True):
                        out.append((init, body, g[0], g[1], g[2], kw, excl))
    return out


def word_build(a):
    from pyparsing import Word
    init, body, mn, mx, ex, kw, excl = a
    try:
        return Word(init, body, min=mn, max=mx, exact=ex, as_keyword=kw, exclude_chars=excl)
    except ValueError:
        return None


def word_paths(w, s, loc):
    """(loop result, regex result or 'none' when there is no regex path)"""
    from pyparsing import Word, ParseException
    try:
        l = Word.parseImpl(w, s, loc)[0]
    except (ParseException, IndexError):
        l = None
    if "parseImpl" in w.__dict__:
        m = w.re_match(s, loc)
        r = m.end() if m else None
    else:
        r = "none"
    return l, r


def word_spec_py(a, s, loc):
    """the property's reading, from the constructor arguments alone"""
    init, body, mn, mx, ex, kw, excl = a
    ex_set = set(excl or "")
    iset = set(init) - ex_set
    bset = (set(body or "") - ex_set) or iset
    lo = ex if ex > 0 else mn
    hi = ex if ex > 0 else (mx if mx > 0 else None)
    if loc >= len(s) or s[loc] not in iset:
        return None
    j = loc + 1
    while j < len(s) and s[j] in bset and (hi is None or j - loc < hi):
        j += 1
    return j if j - loc >= lo else None


def _isw(c):
    return c.isalnum() or c == "_"


def word_kw_class(a, w, s, loc, l, r):
    """canonical class of an as_keyword disagreement (F-17b): which notion of boundary differs where"""
    body = w.bodyChars
    full = loc + 1
    hi = w.maxLen
    while full < len(s) and s[full] in body and full - loc < hi:
        full += 1
    def side(i):
        if i < 0 or i >= len(s):
            return "edge"
        return ("B" if s[i] in body else "b") + ("W" if _isw(s[i]) else "w")
    first = ("W" if _isw(s[loc]) else "w") if loc < len(s) else "-"
    last = ("W" if _isw(s[full - 1]) else "w") if full - 1 < len(s) else "-"
    ro = "R0" if r is None else ("R=" if r == full else "R<")
    lo = "L0" if l is None else ("L=" if l == full else "L<")
    return "word-askw:%s|%s%s|%s:%s%s" % (side(loc - 1), first, last, side(full), ro, lo)


def word_family(ctx):
    allargs = word_args(ctx.thorough)
    n_model = 3
    # --- implementation vs implementation vs reading (all args)
    built = {}
    for a in allargs:
        w = word_build(a)
        built[a] = w
        if w is None:
            continue
        alpha = "".join(sorted(set((a[0] or "") + (a[1] or "") + "a1 ")))[:5 if ctx.thorough else 4]
        # all short strings over the relevant alphabet, plus longer ones over two/three letters (runs longer than max)
        two = ((a[0] or "a")[:1] + ((a[1] or a[0] or "a")[-1:]))
        sset = strings(alpha, 3) + [x for x in strings("".join(sorted(set(two + ("1" if ctx.thorough else "")))), 6 if ctx.thorough else 5) if len(x) > 3]
        for s in sset:
            for loc in range(len(s) + 1):
                l, r = word_paths(w, s, loc)
                sp = word_spec_py(a, s, loc)
                taken = l if r == "none" else r
                rep = {"kind": "word", "args": list(a), "s": s, "loc": loc}
                nontriv = sp is not None
                ok = True
                if not a[5]:
                    if taken != sp:
                        ok = False
                        ctx.violation("word-spec:%r:%r@%d" % (a, s, loc),
                                      "Word%r at %r[%d]: installed parseImpl gives %r, the longest capped run is %r" % (a, s, loc, taken, sp), rep)
                    if r != "none" and l != r:
                        ok = False
                        ctx.violation("word-paths:%r:%r@%d" % (a, s, loc),
                                      "Word%r at %r[%d]: character loop gives %r, regex %r gives %r" % (a, s, loc, l, w.reString, r), rep)
                elif r != "none" and l != r:
                    ok = False
                    ctx.violation(word_kw_class(a, w, s, loc, l, r),
                                  "Word%r (as_keyword) at %r[%d]: character loop gives %r, regex %r gives %r" % (a, s, loc, l, w.reString, r), rep)
                ctx.case(("word", a, s, loc), nontriv, ok)
    # --- model vs implementation (a stratified part of the grid; everything in thorough)
    margs = [a for i, a in enumerate(allargs) if i % 3 == 0]
    alpha_m = "ab1] -"
    strs = strings(alpha_m[:5], n_model)
    pre = PRE + ("Definition strs := strings_upto %s %d.\n"
                 "Definition runw (a : wargs) := let r := word_regex gen_word_guard a in (w_valid a, r, if w_valid a then map (fun s => map (fun i => "
                 "enc (word_loop gen_word_strict a s i) + 8 * enc (match r with Some r => word_regex_path r s i | None => None end) + 64 * enc (word_spec a s i)) "
                 "(seq 0 (S (length s)))) strs else []).\n" % (cs(alpha_m[:5]), n_model))

    def acoq(a):
        init, body, mn, mx, ex, kw, excl = a
        return "(Build_wargs %s %s %d %d %d %s %s)" % (cs(init), cs(body), mn, mx, ex, "true" if kw else "false", cs(excl))
    res = []
    B = 120
    for i in range(0, len(margs), B):
        res.extend(vlib.coq_eval_terms("c17_word_%d" % i, pre, ["runw %s" % acoq(a) for a in margs[i:i + B]], timeout=900))
    patterns = []
    for a, (valid, mre, rows) in zip(margs, res):
        w = built[a]
        if (w is not None) != valid:
            ctx.broken("correspondence:word-valid args=%r impl=%r model=%r" % (a, w is not None, valid))
            continue
        if w is None:
            ctx.stat("word_args_rejected")
            continue
        has = "parseImpl" in w.__dict__
        mhas = _atom(mre) != "None"
        if has != mhas:
            ctx.broken("correspondence:word-regex-decision args=%r impl_has_regex=%r model=%r reString=%r" % (a, has, mhas, getattr(w, "reString", None)))
            continue
        if has:
            patterns.append((w.reString, 0))
            try:
                if canon(coq_re_tree(mre[1])) != canon(RA.to_tree(w.reString)):
                    ctx.broken("correspondence:word-reString args=%r reString=%r model=%r" % (a, w.reString, mre[1]))
            except RA.Unsupported as e:
                ctx.broken("correspondence:word-reString-unsupported args=%r %s" % (a, e))
        for s, mrow in zip(strs, rows):
            for loc, y in enumerate(mrow):
                l, r = word_paths(w, s, loc)
                x = enc(l) + 8 * enc(None if r == "none" else r)
                agreed = x == y % 64
                if not agreed:
                    ctx.broken("correspondence:word-run args=%r s=%r loc=%d impl(loop,regex)=%r model=%r" % (
                        a, s, loc, (l, r), (y % 8 - 1, (y // 8) % 8 - 1)))
                if word_spec_py(a, s, loc) != (None if y // 64 == 0 else y // 64 - 1):
                    ctx.broken("correspondence:word-spec-transcription args=%r s=%r loc=%d" % (a, s, loc))
                ctx.case(("wordm", a, s, loc), y // 64 != 0, agreed)
    ctx.stat("word_args_total", len(allargs))
    ctx.stat("word_args_model", len(margs))
    return patterns


# ------------------------------------------------------------------------------------------------------------
# 3. Literal
# ------------------------------------------------------------------------------------------------------------
def literal_family(ctx):
    from pyparsing import Literal, ParseException, Empty
    words = ["", "a", "b", "ab", "aa", "aba", "."]
    strs = strings("ab.", 4)
    pre = PRE + ("Definition strs := strings_upto %s 4.\n"
                 "Definition runl (w : str) := map (fun s => map (fun i => enc (literal_parse w s i)) (seq 0 (S (length s)))) strs.\n" % cs("ab."))
    res = vlib.coq_eval_terms("c17_lit", pre, ["runl %s" % cs(w) for w in words], timeout=600)
    for w, rows in zip(words, res):
        e = Literal(w).leave_whitespace()
        for s, mrow in zip(strs, rows):
            for loc, y in enumerate(mrow):
                try:
                    l, toks = e._parse(s, loc)
                    got = l
                    txt = "".join(toks)
                except ParseException:
                    got, txt = None, None
                exp = loc + len(w) if s.startswith(w, loc) and (loc < len(s) or w == "") else None
                ok = True
                if got != exp or (got is not None and txt != w):
                    ok = False
                    ctx.violation("literal:%r:%r@%d" % (w, s, loc), "Literal(%r) (%s) at %r[%d] gives %r %r, startswith says %r" % (
                        w, type(e).__name__, s, loc, got, txt, exp), {"kind": "literal", "w": w, "s": s, "loc": loc})
                if enc(got) != y:
                    ok = False
                    ctx.broken("correspondence:literal w=%r s=%r loc=%d impl=%r model=%r" % (w, s, loc, got, y - 1))
                ctx.case(("lit", w, s, loc), exp is not None, ok)


# ------------------------------------------------------------------------------------------------------------
# 4. one_of
# ------------------------------------------------------------------------------------------------------------
ONEOF_POOL = ["a", "ab", "abc", "b", "A", "aB", "a.", "-", "a-", "ba", "]", "^", "a$", "\\", "|", "bc"]


def oneof_lists(thorough):
    pool = ONEOF_POOL
    out = []
    small = pool[:9]
    for n in (1, 2, 3):
        for t in itertools.product(small if n == 3 else pool, repeat=n):
            out.append(list(t))
    # longer lists: all orders of a few prefix chains and duplicates
    for base in (["a", "ab", "abc", "b"], ["a", "A", "ab", "aB"], ["a", "a", "ab", "ab"], ["-", "a-", "a", "]"], ["a", "ab", "abc", "abc", "b"]):
        for p in itertools.permutations(base):
            if list(p) not in out:
                out.append(list(p))
    if not thorough:
        out = [l for i, l in enumerate(out) if len(l) < 3 or (len(l) == 3 and i % 7 == 0) or (len(l) > 3 and i % 3 == 0)]
    return out


def oneof_build(syms, cl, use_regex, kw):
    import pyparsing as pp
    with warnings.catch_warnings():
        warnings.simplefilter("ignore")
        return pp.one_of(list(syms), caseless=cl, use_regex=use_regex, as_keyword=kw).leave_whitespace()


def oneof_run(e, s, loc):
    from pyparsing import ParseException
    try:
        l, t = e._parse(s, loc)
        return (l, list(t))
    except ParseException:
        return None


def oneof_symbols(e):
    """the reordered symbol list, read back from the MatchFirst the use_regex=False path builds"""
    import pyparsing as pp
    if isinstance(e, pp.MatchFirst):
        return [getattr(x, "returnString", None) or x.match for x in e.exprs]
    return None


def oneof_kw_class(syms, cl, s, loc, r1, r2):
    ident = set("abcdefghijklmnopqrstuvwxyzABCDEFGHIJKLMNOPQRSTUVWXYZ0123456789_$")
    def side(i):
        if i < 0 or i >= len(s):
            return "edge"
        return ("I" if s[i] in ident else "i") + ("W" if _isw(s[i]) else "w")
    e1 = None if r1 is None else r1[0]
    e2 = None if r2 is None else r2[0]
    ref = e2 if e2 is not None else e1
    edge = ""
    if ref is not None and ref > loc:
        edge = ("W" if _isw(s[loc]) else "w") + ("W" if _isw(s[ref - 1]) else "w")
    rel = "same" if e1 == e2 else ("re-only" if e2 is None else ("kw-only" if e1 is None else ("re-longer" if e1 > e2 else "re-shorter")))
    return "oneof-askw:%s|%s|%s:%s" % (side(loc - 1), edge, side(ref) if ref is not None else "-", rel)


def oneof_family(ctx):
    lists = oneof_lists(ctx.thorough)
    alpha = "abAB.-$ c"
    n = 3
    patterns = []
    # --- implementation oracle: use_regex on/off agree, result is a longest listed symbol
    strs_by_alpha = {}
    for syms in lists:
        al = "".join(sorted(set("".join(syms) + "aB ")))[:5 if ctx.thorough else 4]
        if al not in strs_by_alpha:
            strs_by_alpha[al] = strings(al, n)
        strs = strs_by_alpha[al]
        for cl in (False, True):
            for kw in (False, True):
                e1 = oneof_build(syms, cl, True, kw)
                e2 = oneof_build(syms, cl, False, kw)
                for s in strs:
                    for loc in range(len(s) + 1):
                        r1 = oneof_run(e1, s, loc)
                        r2 = oneof_run(e2, s, loc)
                        rep = {"kind": "oneof", "syms": syms, "caseless": cl, "as_keyword": kw, "s": s, "loc": loc}
                        ok = True
                        if not kw:
                            cand = [w for w in syms if (s[loc:loc + len(w)].upper() == w.upper() if cl else s.startswith(w, loc))]
                            best = max((len(w) for w in cand), default=None)
                            for nm, r in (("use_regex=True", r1), ("use_regex=False", r2)):
                                got = None if r is None else r[0] - loc
                                if got != best or (r is not None and (len(r[1]) != 1 or r[1][0] not in cand)):
                                    ok = False
                                    ctx.violation("oneof-longest:%r:%s:%r@%d:%s" % (syms, cl, s, loc, nm),
                                                  "one_of(%r, caseless=%r, %s) at %r[%d] gives %r, the longest listed symbol has length %r" % (
                                                      syms, cl, nm, s, loc, r, best), rep)
                            if r1 != r2:
                                ok = False
                                ctx.violation("oneof-paths:%r:%s:%r@%d" % (syms, cl, s, loc),
                                              "one_of(%r, caseless=%r) at %r[%d]: use_regex=True gives %r, use_regex=False gives %r" % (
                                                  syms, cl, s, loc, r1, r2), rep)
                        elif r1 != r2:
                            ok = False
                            ctx.violation(oneof_kw_class(syms, cl, s, loc, r1, r2),
                                          "one_of(%r, caseless=%r, as_keyword=True) at %r[%d]: use_regex=True gives %r, use_regex=False gives %r" % (
                                              syms, cl, s, loc, r1, r2), rep)
                        ctx.case(("oneof", tuple(syms), cl, kw, s, loc), r2 is not None, ok)
    # --- model vs implementation
    mlists = [l for i, l in enumerate(lists) if ctx.thorough or i % 3 == 0]
    al_m = "abAB.-"
    strs = strings(al_m, 2) + ([x for x in strings("ab.", 3) if len(x) == 3] if ctx.thorough else [])
    pre = PRE + ("Definition strs := strings_upto %s 2 ++ %s.\n"
                 "Definition runo (cl : bool) (syms : list str) := match reorder cl syms with None => (false, [], REps, REps, [], [], []) | Some l => "
                 "(true, l, oneof_regex cl false l, oneof_regex cl true l, "
                 "map (fun s => map (fun i => enc (oneof_regex_path cl false l s i) + 8 * enc (match match_first cl l s i with Some w => Some (i + length w) | None => None end) "
                 " + 64 * enc (oneof_regex_path cl true l s i) + 512 * enc (match match_first_kw cl l s i with Some w => Some (i + length w) | None => None end)) (seq 0 (S (length s)))) strs, "
                 "map (fun s => map (fun i => match match_first cl l s i with Some w => w | None => [] end) (seq 0 (S (length s)))) strs, "
                 "match reorder_ix cl (reorder_fuel syms) syms 0 with Some l2 => l2 | None => [[0%%N]] end) end.\n"
                 % (cs(al_m), ("strings_exact %s 3" % cs("ab.")) if ctx.thorough else "[]"))
    exprs, keys = [], []
    for syms in mlists:
        for cl in (False, True):
            exprs.append("runo %s [%s]" % ("true" if cl else "false", "; ".join(cs(w) for w in syms)))
            keys.append((syms, cl))
    res = []
    B = 150
    for i in range(0, len(exprs), B):
        res.extend(vlib.coq_eval_terms("c17_oneof_%d" % i, pre, exprs[i:i + B], timeout=900))
    for (syms, cl), out in zip(keys, res):
        okf, ml, mre, mrekw, rows, wrows, mlix = out
        if not okf:
            ctx.broken("correspondence:oneof-fuel model ran out of fuel on %r" % (syms,))
            continue
        ml = [vlib.from_coq_str(w) for w in ml]
        if [vlib.from_coq_str(w) for w in mlix] != ml:
            ctx.broken("correspondence:oneof-index-model reorder_ix and reorder differ on %r caseless=%r" % (syms, cl))
        e_mf = oneof_build(syms, cl, False, False)
        real_syms = oneof_symbols(e_mf)
        if real_syms is not None and real_syms != ml:
            ctx.broken("correspondence:oneof-reorder syms=%r caseless=%r impl=%r model=%r" % (syms, cl, real_syms, ml))
        for kw, mtree in ((False, mre), (True, mrekw)):
            e_re = oneof_build(syms, cl, True, kw)
            patt = getattr(e_re, "pattern", None)
            if patt is None:
                ctx.broken("correspondence:oneof-no-regex syms=%r" % (syms,))
                continue
            fl = re.I if cl else 0
            patterns.append((patt, fl))
            try:
                # sre_parse factors common prefixes out of alternations, so compare the two ASTs by running them
                # (python transcription of the Coq matcher; itself cross-checked against Coq in regex_family)
                mt, pt = coq_re_tree(mtree), RA.to_tree(patt, fl)
                if canon(mt) != canon(pt):
                    for s in strs:
                        for loc in range(len(s) + 1):
                            if RA.py_match(mt, s, loc) != RA.py_match(pt, s, loc):
                                ctx.broken("correspondence:oneof-pattern syms=%r caseless=%r as_keyword=%r pattern=%r model=%r differ on %r[%d]" % (
                                    syms, cl, kw, patt, mtree, s, loc))
                                break
                else:
                    ctx.stat("oneof_patterns_structurally_equal")
            except RA.Unsupported as e:
                ctx.broken("correspondence:oneof-pattern-unsupported %r %s" % (patt, e))
        es = {(ur, kw): oneof_build(syms, cl, ur, kw) for ur in (True, False) for kw in (True, False)}
        for s, mrow, wrow in zip(strs, rows, wrows):
            for loc, y in enumerate(mrow):
                got = []
                for ur, kw in ((True, False), (False, False), (True, True), (False, True)):
                    r = oneof_run(es[(ur, kw)], s, loc)
                    got.append(enc(None if r is None else r[0]))
                x = got[0] + 8 * got[1] + 64 * got[2] + 512 * got[3]
                agreed = x == y
                if not agreed:
                    ctx.broken("correspondence:oneof-run syms=%r caseless=%r s=%r loc=%d impl(re,mf,re-kw,mf-kw)=%r model=%r" % (
                        syms, cl, s, loc, [g - 1 for g in got], [y % 8 - 1, (y // 8) % 8 - 1, (y // 64) % 8 - 1, y // 512 - 1]))
                r = oneof_run(es[(False, False)], s, loc)
                if r is not None and r[1] != [vlib.from_coq_str(wrow[loc])]:
                    agreed = False
                    ctx.broken("correspondence:oneof-symbol syms=%r caseless=%r s=%r loc=%d impl=%r model=%r" % (
                        syms, cl, s, loc, r[1], vlib.from_coq_str(wrow[loc])))
                ctx.case(("oneofm", tuple(syms), cl, s, loc), got[1] != 0, agreed)
    ctx.stat("oneof_lists_total", len(lists))
    ctx.stat("oneof_lists_model", len(mlists))
    return patterns


# ------------------------------------------------------------------------------------------------------------
# 5. _collapse_string_to_ranges, _escape_regex_range_chars, srange
# ------------------------------------------------------------------------------------------------------------
def ranges_family(ctx):
    from pyparsing.util import _collapse_string_to_ranges, _escape_regex_range_chars
    from pyparsing import srange
    base = "ab-]^\\ 1[c"
    sets = []
    for n in range(1, 5 if ctx.thorough else 4):
        for t in itertools.combinations(base, n):
            sets.append("".join(t))
    sets += ["abc", "abcd", "abd", "acd", "0123456789", "Z[\\]^", "+,-./", ",-.", "-./", "+,-", "aabbc", "cba", "\x00\x01\x02", "\x01\x03",
             "xyz{|}", "\t\n", "a\nb",
             # the smallest characters of all: the run grouping starts from an initial key below chr(0)
             "\x01abc", "\x00abc", "\x01\x03\x05", "\x00\x02\x03\x04", "\x00\x01ab", "\x00ab", "\x01 ab", "\x00\x01\x02a", "\x02abc"]
    pre = PRE + ("Definition runc (cs : list char) := (collapse_items cs, collapse_str cs, "
                 "match read_class (length (collapse_str cs)) (collapse_str cs) with Some l => l | None => [CI_cat true CatDigit] end, "
                 "expand_items (collapse_items cs), escape_range_str cs).\n")
    res = vlib.coq_eval_terms("c17_ranges", pre, ["runc %s" % cs(s) for s in sets], timeout=600)
    patterns = []
    for s, (items, text, back, expanded, esc) in zip(sets, res):
        real = _collapse_string_to_ranges(s)
        want = sorted(set(s))
        patt = "[" + real + "]"
        patterns.append((patt, 0))
        ok = True
        # property oracle on the implementation: the class matches exactly the given characters
        try:
            c = re.compile(patt)
            universe = sorted(set(base + s + "\n\t de09:@`{"))
            accepted = [ch for ch in universe if c.fullmatch(ch)]
            if accepted != [ch for ch in universe if ch in want]:
                ok = False
                ctx.violation("collapse-class:%r" % s, "[%s] built from %r matches %r" % (real, s, accepted), {"kind": "collapse", "chars": s})
        except re.error as e:
            ok = False
            ctx.violation("collapse-class:%r" % s, "[%s] built from %r does not compile: %s" % (real, s, e), {"kind": "collapse", "chars": s})
        if " " not in s and "\t" not in s and "\n" not in s and "\x00" not in s:
            sr = srange(patt)
            if sorted(sr) != want:
                ok = False
                ctx.violation("srange-inverse:%r" % s, "srange(%r) = %r, expected the characters %r" % (patt, sr, "".join(want)), {"kind": "srange", "chars": s})
        # model
        if vlib.from_coq_str(text) != real:
            ok = False
            ctx.broken("correspondence:collapse-text chars=%r impl=%r model=%r" % (s, real, vlib.from_coq_str(text)))
        mitems = [tuple(_atom(y) for y in it) for it in items]
        try:
            t = RA.to_tree(patt)
            pitems = t[3] if t[0] == "RSet" else None
            if pitems != mitems:
                ok = False
                ctx.broken("correspondence:collapse-items chars=%r parsed=%r model=%r" % (s, pitems, mitems))
        except (RA.Unsupported, re.error) as e:
            ctx.broken("correspondence:collapse-parse chars=%r %s" % (s, e))
        if [tuple(_atom(y) for y in it) for it in back] != mitems:
            ok = False
            ctx.broken("correspondence:collapse-readback chars=%r items=%r read=%r" % (s, mitems, back))
        if sorted(vlib.from_coq_str(expanded)) != want:
            ok = False
            ctx.broken("correspondence:srange-expand chars=%r model=%r" % (s, vlib.from_coq_str(expanded)))
        if vlib.from_coq_str(esc) != _escape_regex_range_chars(s):
            ok = False
            ctx.broken("correspondence:escape-range-chars chars=%r impl=%r model=%r" % (s, _escape_regex_range_chars(s), vlib.from_coq_str(esc)))
        # _escape_regex_range_chars: the class built from it matches exactly the characters
        patt2 = "[" + _escape_regex_range_chars(s) + "]"
        try:
            c2 = re.compile(patt2)
            universe = sorted(set(base + s + "nt de09"))
            acc2 = [ch for ch in universe if c2.fullmatch(ch)]
            if acc2 != [ch for ch in universe if ch in want]:
                ok = False
                ctx.violation("escape-class:%r" % s, "[%s] built from %r matches %r" % (_escape_regex_range_chars(s), s, acc2), {"kind": "escape", "chars": s})
        except re.error as e:
            ok = False
            ctx.violation("escape-class:%r" % s, "%r built from %r does not compile: %s" % (patt2, s, e), {"kind": "escape", "chars": s})
        ctx.case(("ranges", s), len(want) > 2, ok)
    ctx.stat("char_sets", len(sets))
    return patterns


# ------------------------------------------------------------------------------------------------------------
# 6. make_compressed_re
# ------------------------------------------------------------------------------------------------------------
def compre_lists(thorough, rng=None):
    pool = ["a", "ab", "abc", "b", "ba", "abd", "a.", "-", "ac", "abcd", "b]"]
    out = []
    for n in (1, 2, 3) + ((4,) if thorough else ()):
        for t in itertools.combinations(pool, n):
            out.append(list(t))
    out += [["a", "a"], ["ab", "a", "ab"], ["abc", "abd", "abe", "ab"], ["aa", "ab", "ac", "a"], ["ab", "ac", "abc", "acd", "b"],
            ["a.", "a-", "a]"], ["abc", "abd", "acd", "ace", "acef"],
            ["if", "ifdef", "ifndef", "in", "int", "else"], ["a", "a.", "a.b", "a.c", "a.bc"], ["abcd", "abce", "abcf", "abc", "abdd", "abd"],
            ["ba", "a", "bab", "baba", "babb", "ab"], ["a-", "a", "a]", "a^", "a\\"], ["aaaa", "aaab", "aaba", "aabb", "abaa", "abab"]]
    if rng is not None:
        # generated lists (duplicates, prefixes of one another, metacharacters; the same property holds for every list)
        for _ in range(400 if thorough else 90):
            al = rng.choice(["ab", "abc", "ab.", "a.-", "abc]", "ab"])
            out.append(["".join(rng.choice(al) for _ in range(rng.randint(1, 4))) for _ in range(rng.randint(2, 8))])
    return out


def _mkseq(parts):
    return ("REps",) if not parts else parts[0] if len(parts) == 1 else ("RSeq*", parts)


def sre_norm(t):
    """On canon() trees: what re._parser._parse_sub makes of an alternation (leading items common to all alternatives
    are moved out; alternatives that are all single literals / positive sets become one set).  Meaning-preserving; the
    model writes the alternation as the text has it, sre_parse returns the rewritten one."""
    k = t[0]
    if k == "RSeq*":
        parts = []
        for x in t[1]:
            y = sre_norm(x)
            if y[0] == "RSeq*":
                parts.extend(y[1])
            elif y != ("REps",):
                parts.append(y)
        return _mkseq(parts)
    if k == "RAlt*":
        items = []
        for x in t[1]:
            y = sre_norm(x)
            items.append(list(y[1]) if y[0] == "RSeq*" else [] if y == ("REps",) else [y])
        prefix = []
        while all(items) and all(it[0] == items[0][0] for it in items):
            prefix.append(items[0][0])
            items = [it[1:] for it in items]
        if all(len(it) == 1 and it[0][0] == "RSet" and not it[0][2] and it[0][1] == items[0][0][1] for it in items):
            merged = []
            for it in items:
                for ci in it[0][3]:
                    if ci not in merged:
                        merged.append(ci)
            rest = ("RSet", items[0][0][1], False, merged)
        else:
            rest = ("RAlt*", [_mkseq(it) for it in items])
        return _mkseq(prefix + ([rest] if rest[0] != "RSeq*" else rest[1]))
    if k == "RRep":
        return t[:4] + (sre_norm(t[4]),)
    if k == "RGroup":
        return ("RGroup", t[1], sre_norm(t[2]))
    if k == "RLook":
        return ("RLook", t[1], sre_norm(t[2]))
    return t


def compre_model(ctx, cases, trees, probe):
    """Model/CompRe.v compressed_re at every level vs the real make_compressed_re: (a) the model AST against the
    sre_parse AST of the real text (structurally after sre_norm, else behaviourally on probe strings), (b) the model
    AST run by the Coq matcher on all short strings against CPython re on the real text and against membership,
    (c) rep_ok of the model AST (so that rm_correct / the theorem's fullmatch form applies), (d) ValueError <-> None."""
    from pyparsing.util import make_compressed_re
    strs = strings("abc.", 3)
    pre = PRE + ("Definition strs := strings_upto %s 3.\n" % cs("abc.") +
                 "Definition runc (ws : list str) (ml : nat) := match compressed_re ws ml with "
                 "Some r => Some (r, rep_ok r, map (re_fullmatch r) strs) | None => None end.\n")
    raising = [[], [""], ["a", ""], ["", "ab", "ab"]]
    allc = [(w, ml, p) for (w, ml, p) in cases] + [(w, ml, None) for w in raising for ml in (0, 1, 2)]
    res = []
    B = 250
    for i in range(0, len(allc), B):
        res.extend(vlib.coq_eval_terms("c17_comprec_%d" % i, pre, ["runc [%s] %d" % ("; ".join(cs(x) for x in w), ml) for w, ml, _ in allc[i:i + B]],
                                       timeout=900))
    compiled = {}
    for (w, ml, p), r in zip(allc, res):
        r = _atom(r)
        if p is None:
            try:
                make_compressed_re(list(w), max_level=ml)
                raised = False
            except ValueError:
                raised = True
            agreed = raised == (r == "None")
            if not agreed:
                ctx.broken("correspondence:compre-raises words=%r max_level=%d real raises ValueError=%r model=%r" % (w, ml, raised, r))
            ctx.case(("comprer", tuple(w), ml), True, agreed)
            continue
        if r == "None":
            ctx.broken("correspondence:compre-model words=%r max_level=%d: model None (ValueError), real %r" % (w, ml, p))
            continue
        mt, rok, outs = r[1]
        mt = coq_re_tree(mt)
        ok = True
        if not rok:
            ok = False
            ctx.broken("correspondence:compre-model-rep_ok words=%r max_level=%d model AST outside the class of rm_correct" % (w, ml))
        if p in trees:
            if sre_norm(canon(mt)) == sre_norm(canon(trees[p])):
                ctx.stat("compressed_re_structural")
            else:
                ctx.stat("compressed_re_behavioural")
                for s in probe:
                    if RA.py_fullmatch(mt, s) != RA.py_fullmatch(trees[p], s) or RA.py_match(mt, s, 0) != RA.py_match(trees[p], s, 0):
                        ok = False
                        ctx.broken("correspondence:compre-model words=%r max_level=%d pattern=%r model=%r differ on %r" % (w, ml, p, mt, s))
                        break
        if p not in compiled:
            try:
                compiled[p] = re.compile(p)
            except re.error:
                compiled[p] = None
        c = compiled[p]
        for s, o in zip(strs, outs):
            real = None if c is None else (c.fullmatch(s) is not None)
            if c is not None and o != real:
                ok = False
                ctx.broken("correspondence:compre-model-fullmatch words=%r max_level=%d pattern=%r s=%r re=%r model=%r" % (w, ml, p, s, real, o))
                break
            if o != (s in w):
                # the theorem C17_compressed_re_partial says this cannot happen for the model
                ok = False
                ctx.broken("proof:C17_compressed_re_partial model fullmatch(%r)=%r for words=%r max_level=%d" % (s, o, w, ml))
                break
        ctx.case(("comprec", tuple(w), ml), len(w) > 1 and ml > 0, ok)
    ctx.stat("compressed_re_model_cases", len(allc))


def compre_escape(ctx):
    """re.escape vs Model/CompRe.v re_escape / escaped_len; sre_parse of the escaped text vs read_lit"""
    chars = [chr(c) for c in range(0, 128)] + ["\xe9", "Ж"]
    words = chars + ["a.b", "-]", "\\^", "a b", "x{2}", "(a|b)*", "\t\n"]
    res = vlib.coq_eval_terms("c17_escape", PRE, ["map (fun w => (re_escape w, escaped_len w, read_lit (re_escape w))) [%s]" % "; ".join(cs(w) for w in words)],
                              timeout=300)[0]
    for w, (e, n, back) in zip(words, res):
        real = re.escape(w)
        agreed = vlib.from_coq_str(e) == real and n == len(real)
        try:
            lits = [av for op, av in RA.sre_parse.parse(real)]
            plain = all(str(op) == "LITERAL" for op, av in RA.sre_parse.parse(real))
        except Exception:
            lits, plain = None, False
        back = _atom(back)
        agreed = agreed and plain and back != "None" and list(back[1]) == lits == [ord(ch) for ch in w]
        if not agreed:
            ctx.broken("correspondence:compre-escape %r: re.escape=%r model=%r len=%r sre_parse=%r read_lit=%r" % (w, real, vlib.from_coq_str(e), n, lits, back))
        ctx.case(("escape", w), real != w, agreed)
    ctx.stat("escape_words", len(words))


def compre_iterator(ctx):
    """F-17f: the signature takes Iterable[str]; a one-shot iterator is consumed by the `"" in word_list` test"""
    from pyparsing.util import make_compressed_re
    for ml in (0, 2):
        words = ["ab", "ac"]
        try:
            patt = make_compressed_re(iter(words), max_level=ml)
            c = re.compile(patt)
            ok = all((c.fullmatch(s) is not None) == (s in words) for s in strings("abc", 3))
            what = "= %r" % patt
        except Exception as e:
            ok = False
            what = "raises %s" % type(e).__name__
        if not ok:
            ctx.violation("compre-iterator:%d" % ml, "make_compressed_re(iter(%r), max_level=%d) %s (the list gives %r)" % (
                words, ml, what, make_compressed_re(words, max_level=ml)), {"kind": "compre-iter", "words": words, "max_level": ml})
        ctx.case(("compre-iter", ml), True, ok)


def compre_family(ctx):
    from pyparsing.util import make_compressed_re
    lists = compre_lists(ctx.thorough, ctx.rng)
    alpha = "abcd.-]e"
    cases = []
    for words in lists:
        for ml in (0, 1, 2, 3):
            try:
                patt = make_compressed_re(words, max_level=ml)
            except Exception as e:
                ctx.violation("compre-raises:%r:%d" % (words, ml), "make_compressed_re(%r, %d) raised %r" % (words, ml, e), {"kind": "compre", "words": words, "max_level": ml})
                continue
            cases.append((words, ml, patt))
    # property oracle with CPython re: fullmatch accepts exactly the words (all strings up to the longest word + 1)
    trees = {}
    for words, ml, patt in cases:
        al = "".join(sorted(set("".join(words) + "a")))[:5]
        maxlen = min(max(len(w) for w in words) + 1, 4)
        ok = True
        try:
            c = re.compile(patt)
        except re.error as e:
            ctx.violation("compre-compile:%r:%d" % (words, ml), "make_compressed_re(%r, %d) = %r does not compile: %s" % (words, ml, patt, e),
                          {"kind": "compre", "words": words, "max_level": ml})
            continue
        for s in strings(al, maxlen):
            if (c.fullmatch(s) is not None) != (s in words):
                ok = False
                ctx.violation("compre:%r:%d:%r" % (words, ml, s), "make_compressed_re(%r, max_level=%d) = %r: fullmatch(%r) is %r" % (
                    words, ml, patt, s, c.fullmatch(s) is not None), {"kind": "compre", "words": words, "max_level": ml, "s": s})
        ctx.case(("compre", tuple(words), ml), len(words) > 1, ok)
        if patt not in trees:
            try:
                trees[patt] = RA.to_tree(patt)
            except RA.Unsupported as e:
                ctx.broken("correspondence:compre-unsupported %r %s" % (patt, e))
    # max_level = 0: the Coq model compressed0 vs the real pattern (structure, else behaviour)
    c0 = [(w, p) for (w, ml, p) in cases if ml == 0]
    res0 = vlib.coq_eval_terms("c17_compre0", PRE, ["compressed0 [%s]" % "; ".join(cs(x) for x in w) for w, _ in c0], timeout=600)
    probe = strings("abc.-]", 3)
    for (w, p), mt in zip(c0, res0):
        mt = coq_re_tree(mt)
        if p in trees and canon(mt) != canon(trees[p]):
            for s in probe:
                if RA.py_fullmatch(mt, s) != RA.py_fullmatch(trees[p], s) or RA.py_match(mt, s, 0) != RA.py_match(trees[p], s, 0):
                    ctx.broken("correspondence:compre-level0 words=%r pattern=%r model=%r differ on %r" % (w, p, mt, s))
                    break
        ctx.stat("compressed0_compared")
    # every level: the Coq model compressed_re (Model/CompRe.v, the subject of C17_compressed_re_partial)
    compre_model(ctx, cases, trees, probe)
    compre_escape(ctx)
    compre_iterator(ctx)
    # the same through the Coq matcher (model of re), on a common alphabet
    pats = sorted(trees)
    strs = strings("abc.", 3)
    pre = PRE + ("Definition strs := strings_upto %s 3.\nDefinition runf (r : re) := (rep_ok r, map (re_fullmatch r) strs).\n" % cs("abc."))
    res = []
    B = 150
    for i in range(0, len(pats), B):
        res.extend(vlib.coq_eval_terms("c17_compre_%d" % i, pre, ["runf %s" % RA.tree_to_coq(trees[p]) for p in pats[i:i + B]], timeout=900))
    for p, (rok, outs) in zip(pats, res):
        c = re.compile(p)
        if not rok:
            ctx.broken("correspondence:compre-rep_ok pattern %r is outside the class of rm_correct" % p)
        for s, o in zip(strs, outs):
            agreed = o == (c.fullmatch(s) is not None)
            if not agreed:
                ctx.broken("correspondence:compre-matcher pattern=%r s=%r re=%r model=%r" % (p, s, c.fullmatch(s) is not None, o))
            ctx.case(("comprem", p, s), o, agreed)
    ctx.stat("compressed_re_cases", len(cases))
    return [(p, 0) for p in pats]


# ------------------------------------------------------------------------------------------------------------
def correspond(ctx):
    pats = []
    for fam in (word_family, literal_family, oneof_family, ranges_family, compre_family):
        try:
            r = fam(ctx)
            if r:
                pats.extend(r)
        except Exception as e:
            import traceback
            ctx.broken("correspondence:%s harness-error %s: %s" % (fam.__name__, type(e).__name__, str(e)[:300]))
            ctx.coverage_extra["harness_traceback_" + fam.__name__] = traceback.format_exc()[-1500:]
    # every generated pattern goes through the matcher-vs-re sweep (bounded: the distinct ones, capped)
    uniq = []
    for p in pats:
        if p not in uniq:
            uniq.append(p)
    cap = 400 if ctx.thorough else 120
    step = max(1, len(uniq) // cap)
    regex_family(ctx, uniq[::step][:cap])
    ctx.stat("generated_patterns_distinct", len(uniq))
    ctx.sample({"word": "Word('ab', 'b-', min=2, max=3) on 'xab-bb' at 1", "model_spec_end": 4})
    ctx.sample({"one_of": ["<", "=", "<=", "<", "<=>"], "model_reorder": ["<=>", "<=", "<", "="]})
    ctx.coverage_extra["exhaustive"] = True


def search(ctx, reasons):
    """tie broken: widen the implementation oracles (thorough scopes)"""
    was = ctx.thorough
    ctx.thorough = True
    try:
        for fam in (word_family, oneof_family, ranges_family, compre_family, literal_family):
            try:
                fam(ctx)
            except Exception:
                pass
            if any(v["found_input"] for v in ctx.violations):
                return
    finally:
        ctx.thorough = was


def replay(ctx, obj):
    r = obj["replay"]
    k = r.get("kind")
    if k == "word":
        a = tuple(r["args"])
        w = word_build(a)
        l, rg = word_paths(w, r["s"], r["loc"])
        sp = word_spec_py(a, r["s"], r["loc"])
        print("Word%r reString=%r  s=%r loc=%d: loop=%r regex=%r reading=%r" % (a, getattr(w, "reString", None), r["s"], r["loc"], l, rg, sp))
        taken = l if rg == "none" else rg
        return (rg == "none" or l == rg) and (a[5] or taken == sp)
    if k == "oneof":
        e1 = oneof_build(r["syms"], r["caseless"], True, r["as_keyword"])
        e2 = oneof_build(r["syms"], r["caseless"], False, r["as_keyword"])
        r1, r2 = oneof_run(e1, r["s"], r["loc"]), oneof_run(e2, r["s"], r["loc"])
        print("one_of(%r, caseless=%r, as_keyword=%r) on %r at %d: use_regex=True %r, use_regex=False %r" % (
            r["syms"], r["caseless"], r["as_keyword"], r["s"], r["loc"], r1, r2))
        if r1 != r2:
            return False
        if not r["as_keyword"]:
            s, loc, cl = r["s"], r["loc"], r["caseless"]
            cand = [w for w in r["syms"] if (s[loc:loc + len(w)].upper() == w.upper() if cl else s.startswith(w, loc))]
            best = max((len(w) for w in cand), default=None)
            return (None if r1 is None else r1[0] - loc) == best
        return True
    if k == "literal":
        from pyparsing import Literal, ParseException
        e = Literal(r["w"]).leave_whitespace()
        try:
            got = e._parse(r["s"], r["loc"])[0]
        except ParseException:
            got = None
        exp = r["loc"] + len(r["w"]) if r["s"].startswith(r["w"], r["loc"]) and (r["loc"] < len(r["s"]) or r["w"] == "") else None
        print("Literal(%r) on %r at %d: %r, startswith: %r" % (r["w"], r["s"], r["loc"], got, exp))
        return got == exp
    if k in ("collapse", "escape", "srange"):
        from pyparsing.util import _collapse_string_to_ranges, _escape_regex_range_chars
        from pyparsing import srange
        s = r["chars"]
        body = _escape_regex_range_chars(s) if k == "escape" else _collapse_string_to_ranges(s)
        patt = "[" + body + "]"
        print("characters %r -> %r" % (s, patt))
        if k == "srange":
            return sorted(srange(patt)) == sorted(set(s))
        try:
            c = re.compile(patt)
        except re.error as e:
            print("does not compile:", e)
            return False
        universe = sorted(set(s + "ab-]^\\ 1[cnt"))
        return [ch for ch in universe if c.fullmatch(ch)] == [ch for ch in universe if ch in s]
    if k == "compre":
        from pyparsing.util import make_compressed_re
        patt = make_compressed_re(r["words"], max_level=r["max_level"])
        print("make_compressed_re(%r, max_level=%d) = %r" % (r["words"], r["max_level"], patt))
        c = re.compile(patt)
        al = "".join(sorted(set("".join(r["words"]) + "a")))[:5]
        return all((c.fullmatch(s) is not None) == (s in r["words"]) for s in strings(al, min(max(len(w) for w in r["words"]) + 1, 4)))
    if k == "compre-iter":
        from pyparsing.util import make_compressed_re
        try:
            patt = make_compressed_re(iter(r["words"]), max_level=r["max_level"])
            print("make_compressed_re(iter(%r), max_level=%d) = %r" % (r["words"], r["max_level"], patt))
            c = re.compile(patt)
            return all((c.fullmatch(s) is not None) == (s in r["words"]) for s in strings("abc", 3))
        except Exception as e:
            print("make_compressed_re(iter(%r), max_level=%d) raises %r" % (r["words"], r["max_level"], e))
            return False
    print("replay names a broken proof/correspondence obligation: %r" % (r,))
    return False
