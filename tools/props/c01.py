"""C01 — combinators obey PEG semantics with pyparsing's whitespace rule."""
from tools import vlib
from tools.harness import gen, corr, pcommon, views, peg_ref, shrink as shr

PROP = "C01"
GEN = []
RULE = ("all grammars of depth <= 2 over an 8-leaf pool x all strings of length <= 2 (quick; <= 3 thorough) over {a,b,',',' '} plus "
        "seeded random deep grammars (no actions, no names) with sampled and mutated inputs; per case: (i) extracted model vs "
        "implementation (success/failure, end, tokens), (ii) the Coq reference reading `peg` vs the implementation on every grammar of "
        "the reference class, (iii) membership in the proved class `in_class` is evaluated by the model and counted; "
        "(iv) an independent surface-level transcription of the reading (tools/harness/peg_ref.py: whitespace rule decided structurally, "
        "not from the objects' flags) vs the implementation, incl. a family of '&' (Each) grammars over plain / Opt / ZeroOrMore / OneOrMore operands with "
        "permuted and repeated operand inputs; (v) the extracted model of Each.parseImpl vs the implementation (outcome class, location, message, "
        "tokens, names) on that family and on a second one (random deep grammars with '&' nodes, results names, error stops, operands that can "
        "match empty, the same operand twice, Opt(x) & x, named repetitions), and the Coq reading `peg` (case peg_each) vs the implementation on those "
        "of them that are in the reference class; (vi) a family of repetitions with stop_on and of SkipTo (plain / include=True) over token, '|', "
        "lookahead and sequence targets, in sequences and repetitions, with inputs that have blanks before the target / the stop expression: model, "
        "`peg` and implementation; (vii) the documented meaning of SkipTo's fail_on on the implementation; "
        "non-trivial = grammar with >= 3 nodes and non-empty input")
TRUSTED = pcommon.TRUSTED_PARSE + [
    "the reading `peg` (coq/Model/Peg.v) is the formal statement of the property; `in_class` delimits what is proved "
    "(Or, Combine over a content that yields scalar tokens only, repetition with stop_on and SkipTo without fail_on / private ignore "
    "expression over a target whose head component does not skip whitespace are in the proved class; Combine over Group / Each / Forward "
    "is compared with the reference by correspondence only; SkipTo over other targets, with fail_on or ignore= only model-vs-implementation; "
    "the reading of SkipTo tries the target at each position without the target's own leading whitespace skip (`nopre`), as "
    "SkipTo.parseImpl calls it with callPreParse=False)",
    "Each ('&'): the model (Model/Core.v each_impl) takes the children's mayReturnEmpty flags and the `==` classes of the operands "
    "(ParserElement.__eq__ is `vars(self) == vars(other)`) from the dump (tools/harness/dump.py each_info); `in_class` contains the Each nodes none of "
    "whose required operands may return empty (for the others the implementation violates the reading: C01_each_once_refuted); Each with results "
    "names / actions / such operands is covered by correspondence only"]


def peg_of_real(o):
    """implementation outcome -> the PEG-level observation"""
    if o[0] == "ok":
        return ("ok", views.as_list(o[1]))
    if o[0] == "err":
        return ("fail",) if o[1] == "ParseException" else ("other", o[1])
    return ("div",)


def peg_of_ref(res):
    if res[0] == "ok":
        return ("ok", [views.as_list_tok(t) for t in res[2]])
    if res[0] == "fail":
        return ("fail",)
    return ("div",)      # div / out


def run(ctx, groups, oracle_only=False):
    stats = {}
    recs = corr.run_groups(groups, stats=stats)
    if not oracle_only:
        ctx.coverage_extra["class_histogram"] = stats.get("classes", {})
        ctx.stats["unsupported_grammars"] = stats.get("unsupported", 0)
    parse_recs = [r for r in recs if r["entry"][0] == "parse"]
    pegs = {(repr(r["g"]), repr(r["env"]), r["inp"]): r for r in recs if r["entry"][0] == "peg"}
    if not oracle_only:
        pcommon.outcome_hist(ctx, parse_recs)
        pcommon.model_agreement(ctx, parse_recs, "parse-outcomes")
    n_in, n_ref, n_surf = 0, 0, 0
    for r in parse_recs:
        p = pegs.get((repr(r["g"]), repr(r["env"]), r["inp"]))
        nontriv = gen.size(r["g"]) >= 3 and len(r["inp"]) > 0
        ctx.case(pcommon.key_of(r), nontriv, r.get("agree", True))
        # (iv) the surface-level transcription of the whitespace rule: independent of the real objects' flags
        sw = peg_ref.reading(r["g"], r["env"], r["inp"])
        if sw is not None and r["real"][0] != "timeout":
            n_surf += 1
            got = peg_of_real(r["real"])
            if sw != got and not (sw[0] == "div" or got[0] == "div"):
                def sfails(g, env, inp):
                    a = pcommon.single(g, env, inp, ("none",), ("parse", False))
                    w = peg_ref.reading(g, env, inp)
                    return a is not None and w is not None and w[0] != "div" and peg_of_real(a["real"]) not in (w, ("div",))
                try:
                    g, env, inp = shr.shrink(r["g"], r["env"], r["inp"], sfails, budget=80)
                    got = peg_of_real(pcommon.single(g, env, inp, ("none",), ("parse", False))["real"])
                    sw = peg_ref.reading(g, env, inp)
                except Exception:
                    g, env, inp = r["g"], r["env"], r["inp"]
                ctx.violation("surface-peg:%r|%r|%r" % (g, env, inp),
                              "parse_string of %r (env %r) on %r gives %r but the PEG reading with the structural whitespace rule gives %r" % (
                                  g, env, inp, got, sw), {"kind": "surface", "grammar": g, "env": env, "input": inp})
        if p is None or p["model"][0] != "peg":
            continue
        _, inc, inr, res = p["model"]
        n_in += inc
        n_ref += inr
        if not inr:
            continue
        want, got = peg_of_ref(res), peg_of_real(r["real"])
        if want != got:
            def fails(g, env, inp):
                rr = corr.run_groups([(g, env, [inp], [("none",)], [("parse", False), ("peg",)])])
                if len(rr) != 2 or rr[1]["model"][0] != "peg" or not rr[1]["model"][2]:
                    return False
                return peg_of_ref(rr[1]["model"][3]) != peg_of_real(rr[0]["real"])
            try:
                g, env, inp = shr.shrink(r["g"], r["env"], r["inp"], fails, budget=80)
                rr = corr.run_groups([(g, env, [inp], [("none",)], [("parse", False), ("peg",)])])
                want, got = peg_of_ref(rr[1]["model"][3]), peg_of_real(rr[0]["real"])
            except Exception:
                g, env, inp = r["g"], r["env"], r["inp"]
            ctx.violation("peg:%r|%r|%r" % (g, env, inp),
                          "parse_string of %r (env %r) on %r gives %r but the PEG reading gives %r%s" % (
                              g, env, inp, got, want, " [grammar is in the proved class]" if inc else ""),
                          {"kind": "peg", "grammar": g, "env": env, "input": inp})
    ctx.stat("cases_in_proved_class", n_in)
    ctx.stat("cases_in_reference_class", n_ref)
    ctx.stat("cases_in_surface_reading", n_surf)
    return recs


def whitespace_family():
    """every head of depth <= 2 over {CharsNotIn, Literal, Word, Empty} x {Opt, Group, NotAny, FollowedBy, ZeroOrMore} x {And, MatchFirst, Or}
    as the FIRST element of a sequence (directly, inside a Group, through a Forward): the shapes in which a composite hands its
    whitespace flag on to an enclosing element; inputs with and without leading whitespace"""
    NI, W_ = ("notin", ","), ("word", "ab")
    heads = gen.enum_depth(2, leaves=[NI, gen.A, W_, ("empty",)], unary=["opt", "group", "not", "fb", "star"], binary=["and", "mf", "or"])
    inputs = [" b,", "b,", " a,", " ,", "  ab ,a", "a ,", "", " "]
    groups = []
    for h in heads:
        if h[0] == "star" and gen.nullable(h[1], {}):
            continue
        tail = ("lit", ",")
        groups.append((("and", h, tail), {}, inputs, [("none",)], [("parse", False), ("peg",)]))
        groups.append((("and", ("group", h), tail), {}, inputs, [("none",)], [("parse", False), ("peg",)]))
        groups.append((("and", ("fwd", 1), tail), {1: h}, inputs, [("none",)], [("parse", False), ("peg",)]))
        groups.append((("mf", ("and", ("opt", h), tail), h), {}, inputs, [("none",)], [("parse", False), ("peg",)]))
    return groups


def word_bounds_family():
    """Word with min / max / exact, through BOTH matchers of Word.parseImpl (a character set containing a blank cannot become a
    regular expression: the character loop), alone, followed by another bounded Word, repeated up to the end of the text, and in
    an alternation; every input over {a, b, blank} up to length 4"""
    words = [("word", "ab ", None, 1, 2, 0, False), ("word", "ab ", None, 1, 0, 2, False), ("word", "a", "b ", 1, 3, 0, False),
             ("word", "ab ", None, 2, 3, 0, False), ("word", "ab", None, 1, 2, 0, False), ("word", "ab", None, 1, 0, 2, False),
             ("word", "ab", None, 2, 3, 0, False), ("word", "ab ", None, 1, 1, 0, False)]
    inputs = gen.enum_inputs(4, "ab ") + ["abab,", "ab ab,b", "aaaaa", "a    b"]
    groups = []
    E = [("parse", False), ("peg",)]
    for w in words:
        for g in (w, ("and", w, w), ("and", ("plus", ("group", w)), ("stringend",)), ("and", w, ("lit", "b")),
                  ("mf", ("and", w, ("lit", ",")), ("and", w, w, w))):
            groups.append((g, {}, inputs, [("none",)], E))
    return groups


EACH_POOL = [("lit", "x"), ("lit", "c"), ("word", "12"), ("and", ("opt", ("lit", "a")), ("opt", ("lit", "b")), ("lit", "c")),
             ("and", ("lit", "a"), ("and", ("opt", ("lit", "b")), ("opt", ("lit", "c")))), ("and", ("and", ("opt", ("lit", "a")), ("opt", ("lit", "b"))), ("lit", "y")),
             ("opt", ("lit", "z")), ("opt", ("word", "12")), ("star", ("lit", "s")), ("plus", ("lit", "p")), ("group", ("and", ("lit", "g"), ("opt", ("lit", "h")))),
             ("mf", ("lit", "m"), ("lit", "n")), ("kw", "k")]


EACH_NULLABLE = [("and", ("opt", ("lit", "a")), ("opt", ("lit", "b"))), ("empty",), ("fb", ("lit", "x")), ("plus", ("opt", ("lit", "q")))]


def each_family(ctx):
    """'&' (Each): (a) the implementation against the surface-level reading of the property (tools/harness/peg_ref.py),
    (b) the Coq model (Model/Core.v each_impl) against the implementation on the same grammars and inputs, and on a second
    family (random deep grammars with '&' nodes, results names, operands that can match empty, shared operands) that is
    compared model-vs-implementation only (full observation: outcome class, location, message, tokens, names)"""
    import itertools
    rng = ctx.rng
    n = 150 if not ctx.thorough else 1500
    ncase = 0
    groups = []
    for i in range(n):
        ops = rng.sample(EACH_POOL, rng.choice([2, 2, 3, 3, 4]))
        g = ("each",) + tuple(ops)
        if rng.random() < 0.3:
            g = rng.choice([("and", g, ("lit", "!")), ("group", g), ("mf", ("and", g, ("lit", "!")), g), ("opt", g)])
        inputs = set()
        for _ in range(6):
            pieces = [gen.sample_input(rng, o, {}) for o in rng.sample(ops, len(ops))]
            if rng.random() < 0.6:
                pieces.insert(rng.randint(0, len(pieces)), gen.sample_input(rng, rng.choice(ops), {}))     # an operand repeated
            s = " ".join(p for p in pieces if p)
            inputs.add(s)
            inputs.add(gen.mutate_input(rng, s, "abcxyz12 "))
        groups.append((g, {}, sorted(inputs), [("none",)], [("parse", False), ("peg",)]))
        for inp in sorted(inputs):
            a = pcommon.single(g, {}, inp, ("none",), ("parse", False)) if False else None
            want = peg_ref.reading(g, {}, inp)
            got = each_impl(g, inp)
            if want is None or got is None or want[0] == "div" or got[0] == "div":
                continue
            ncase += 1
            ctx.case("each:%r|%r" % (g, inp), nontrivial=len(inp) >= 3, agreed=True)
            if want != got:
                ctx.violation("each:%r|%r" % (g, inp), "parse_string of %r on %r gives %r but the PEG reading of '&' gives %r" % (g, inp, got, want),
                              {"kind": "each", "grammar": g, "input": inp})
    ctx.stat("each_cases", ncase)
    # (b) model vs implementation.  The second family draws from its own generator state, so that the cases above
    # (and their keys) do not depend on it.
    import random
    rng2 = random.Random(rng.getrandbits(32))
    for i in range(120 if not ctx.thorough else 1200):
        r = rng2.random()
        if r < 0.6:
            g = gen.rand_grammar(rng2, rng2.randint(2, 4), dict(names=True, actions=False, stops=rng2.random() < 0.5, fwd=False, extra=True,
                                                                ws=False, each=True))
            if "each" not in repr(g):
                g = ("each", g, rng2.choice(EACH_POOL))
        else:
            ops = rng2.sample(EACH_POOL, rng2.choice([1, 2, 3])) + [rng2.choice(EACH_NULLABLE)]
            if rng2.random() < 0.3:
                ops.append(rng2.choice(ops))                      # the same operand object twice
            if rng2.random() < 0.3:
                ops.append(("opt", rng2.choice([o for o in ops if o[0] not in ("opt",)] or [("lit", "x")])))     # Opt(x) & x
            if rng2.random() < 0.3:
                ops.append(("andstop", 1, ("lit", "c"), ("lit", "y")))       # 'c' - 'y' : fatal errors collected by Each
            if rng2.random() < 0.2:
                ops.append(("name", "n", ("plus", ("lit", "z"))))            # named repetition: the copies of initExprGroups
            rng2.shuffle(ops)
            g = ("each",) + tuple(ops)
            if rng2.random() < 0.3:
                g = rng2.choice([("and", g, ("lit", "!")), ("group", g), ("name", "n", g), ("star", ("and", ("lit", "("), g, ("lit", ")")))])
        inputs = set()
        for _ in range(5):
            s = gen.sample_input(rng2, g, {})[:60]
            inputs.add(s)
            inputs.add(gen.mutate_input(rng2, s, "abcxyz12 "))
        groups.append((g, {}, sorted(inputs), [("none",)], [("parse", False), ("peg",)]))
    stats = {}
    recs = corr.run_groups(groups, stats=stats)
    from tools.harness import observe
    retried = 0
    for r in recs:
        if not r.get("agree", True) and r["real"] == ("div",) and retried < 8:
            # the 0.5 s budget of run_real also cuts off parses that are merely slow: decide (a few of them) with a long budget
            retried += 1
            r["real"] = observe.run_real(r["root"], r["dumper"], r["inp"], r["mode"], r["entry"], timeout=20)
            r["agree"] = corr.proj_all(r["model"]) == corr.proj_all(r["real"])
    ctx.stat("each_model_unsupported_grammars", stats.get("unsupported", 0))
    parse_recs = [r for r in recs if r["entry"][0] == "parse"]
    pegs = {(repr(r["g"]), r["inp"]): r for r in recs if r["entry"][0] == "peg"}
    for r in parse_recs:
        ctx.case("each-model:" + pcommon.key_of(r), len(r["inp"]) >= 3, r.get("agree", True))
        ctx.stat("each_model_outcome_" + corr.kind_of(r["real"]))
        # (c) the Coq reference reading `peg` (its '&' case is peg_each) vs the implementation, on the grammars of the
        # reference class (in_ref_class excludes Each nodes with a required operand that may return empty)
        p = pegs.get((repr(r["g"]), r["inp"]))
        if p is None or p["model"][0] != "peg" or not p["model"][2]:
            continue
        ctx.stat("each_cases_in_reference_class")
        ctx.stat("each_cases_in_proved_class", int(p["model"][1]))
        want, got = peg_of_ref(p["model"][3]), peg_of_real(r["real"])
        if want != got and "div" not in (want[0], got[0]):
            ctx.violation("peg-each:%r|%r" % (r["g"], r["inp"]),
                          "parse_string of %r on %r gives %r but the PEG reading (Model/Peg.v peg_each) gives %r%s" % (
                              r["g"], r["inp"], got, want, " [grammar is in the proved class]" if p["model"][1] else ""),
                          {"kind": "peg", "grammar": r["g"], "env": {}, "input": r["inp"]})
    pcommon.model_agreement(ctx, parse_recs, "each-parse-outcomes")


def each_nullable_operand(ctx):
    """F-01a: a plain (required) operand of '&' that can match empty is put into BOTH `required` and `optionals` by
    Each.parseImpl's one-time grouping, so it may be matched twice (closed Coq witness: Props/C01.v C01_each_once_refuted)"""
    import pyparsing as pp
    cases = [("Group(Opt('a')) & 'x' on 'a x a'", lambda: (pp.Group(pp.Opt("a")) & pp.Literal("x")).parse_string("a x a").as_list(), [["a"], "x"]),
             ("(Opt('a') + Opt('b')) & 'x' on 'aax'", lambda: ((pp.Opt("a") + pp.Opt("b")) & pp.Literal("x")).parse_string("aax").as_list(), ["a"])]
    for name, f, once in cases:
        try:
            got = f()
        except pp.ParseBaseException as e:
            got = type(e).__name__
        ctx.case("each-nullable:" + name, True, True)
        # with each operand used at most once the second 'a' cannot be consumed
        if isinstance(got, list) and sum(1 for t in got if t == "a" or t == ["a"]) >= 2:
            ctx.violation("each:nullable-required-operand-matched-twice", "%s gives %r: the operand that can match empty was matched twice" % (name, got),
                          {"kind": "each-nullable"})


def stop_skip_family():
    """(vi) repetitions with stop_on and SkipTo (plain / include=True): targets / stop expressions that are tokens, '|', a
    lookahead, a CharsNotIn (does not skip whitespace), a sequence (outside the proved class when its first element skips);
    inputs with blanks in front of the target / stop expression and without any match"""
    W_, C_, NI = ("word", "ab"), ("lit", ","), ("notin", ", ")
    targets = [C_, W_, ("mf", C_, ("lit", "b")), ("or", ("lit", "ab"), ("lit", "a")), ("fb", C_), NI, ("and", ("lit", "a"), ("lit", "b")),
               ("and", NI, C_), ("group", C_), ("stringend",), ("lineend",), ("star", C_), ("opt", C_)]
    inputs = ["x ,", " x  , y", "ab,", "  ", "", "x a b ,", "x  ab", ",", "x\n,", "xx", "a ,b, ", " ,"]
    E = [("parse", False), ("peg",)]
    groups = []
    for tg in targets:
        for k in ("skipto", "skiptoi"):
            groups.append(((k, tg), {}, inputs, [("none",)], E))
            groups.append((("and", (k, tg), C_), {}, inputs, [("none",)], E))
            groups.append((("and", W_, (k, tg)), {}, inputs, [("none",)], E))
            groups.append((("star", ("and", (k, tg), C_)), {}, inputs, [("none",)], E))
            groups.append((("group", ("and", ("opt", W_), (k, tg))), {}, inputs, [("none",)], E))
    # SkipTo with fail_on, including pairs in which target and fail_on match at the SAME position (fail_on is asked first)
    fpairs = [(W_, ("lit", "b")), (W_, ("lit", "ab")), (C_, C_), (("lit", "a"), W_), (W_, C_), (C_, ("lit", "x")), (("lit", "b"), ("lit", "a")),
              (("mf", C_, ("lit", "b")), ("lit", "b")), (W_, ("kw", "a"))]
    finputs = ["x b", "xx ab", ", b", "x ,b", "xa", "1 2 ab", "x a", "b", " ab", "x , a", "12 a b", ""]
    for tg, fo in fpairs:
        g = ("skiptof", tg, fo)
        for gg in (g, ("and", g, W_), ("and", g, C_), ("mf", ("group", ("and", g, W_)), ("notin", "")) if False else ("mf", ("group", ("and", g, W_)), ("word", "ab12x, ")),
                   ("and", ("opt", ("lit", "x")), g)):
            groups.append((gg, {}, finputs, [("none",)], E))
    stops = [C_, ("lit", "b"), W_, ("mf", C_, ("lit", "b")), ("not", ("lit", "a")), ("and", ("lit", "a"), C_), ("stringend",), ("empty",)]
    bodies = [("lit", "a"), W_, ("notin", ","), ("and", ("lit", "a"), ("opt", ("lit", "b"))), ("mf", ("lit", "a"), ("lit", "b")), ("group", W_)]
    sinputs = ["a a b", "a a , a", "ab ba , b", "a  ,", "b", ", a", "a a", "", "a ,a, ", "aab a, b"]
    for st in stops:
        for b in bodies:
            for k in ("starstop", "plusstop"):
                groups.append(((k, b, st), {}, sinputs, [("none",)], E))
                groups.append((("and", (k, b, st), ("opt", C_)), {}, sinputs, [("none",)], E))
                groups.append((("combine", ("and", (k, b, st), ("opt", C_))), {}, sinputs, [("none",)], E))
    return groups


def skipto_fail_on(ctx):
    """F-01b: SkipTo's documentation says of fail_on: "if found before the target expression is found, the SkipTo is not a match";
    SkipTo.parseImpl leaves its scan loop with `break` when fail_on matches, which skips the `else:` clause that raises: the SkipTo
    succeeds with the text skipped so far (closed Coq witness: Props/C01.v C01_skipto_fail_on_refuted)"""
    import pyparsing as pp
    cases = [("SkipTo(',', fail_on='a') on 'ba,'", lambda: pp.SkipTo(",", fail_on="a").parse_string("ba,").as_list()),
             ("SkipTo(Word('xy'), fail_on=Literal(';')) on 'q ; xy'", lambda: pp.SkipTo(pp.Word("xy"), fail_on=pp.Literal(";")).parse_string("q ; xy").as_list())]
    for name, f in cases:
        try:
            got = f()
        except pp.ParseException:
            got = "ParseException"
        except pp.ParseBaseException as e:
            got = type(e).__name__
        ctx.case("skipto-fail-on:" + name, True, True)
        if got != "ParseException":
            ctx.violation("skipto:fail_on-match-does-not-fail", "%s gives %r: fail_on matched before the target was found, yet the SkipTo matches" % (name, got),
                          {"kind": "skipto-fail-on"})


def each_named_repetition_with_each(ctx):
    """F-01c: giving a results name to a OneOrMore operand of '&' whose body contains another '&' changes what is accepted"""
    import pyparsing as pp

    def run(e, s):
        try:
            return e.parse_string(s).as_list()
        except pp.ParseBaseException as x:
            return type(x).__name__
    mk = lambda: pp.Literal("x") + pp.Each([pp.ZeroOrMore(pp.CaselessLiteral("aB"))])
    plain = run(pp.ZeroOrMore("a") & pp.OneOrMore(mk()), "ax")
    named = run(pp.ZeroOrMore("a") & pp.OneOrMore(mk())("x"), "ax")
    ctx.case("each-named-repetition", True, True)
    if plain != named:
        ctx.violation("each:named-repetition-operand-containing-each",
                      "ZeroOrMore('a') & OneOrMore('x' + Each([ZeroOrMore(CaselessLiteral('aB'))])) on 'ax' gives %r; with the results name 'x' on the OneOrMore "
                      "it gives %r" % (plain, named), {"kind": "each-named-rep"})


def each_impl(g, inp):
    import pyparsing as pp
    from tools.harness import build
    try:
        e = build.Builder({}).build_all(g)
    except build.Unbuildable:
        return None
    def run():
        try:
            r = e.parse_string(inp)
            return ("ok", [peg_ref._tag(t) for t in r.as_list()])
        except pp.ParseException:
            return ("fail",)
        except pp.ParseBaseException as x:
            return ("other", type(x).__name__)
        except RecursionError:
            return ("div",)
    from tools.props.c04 import guarded
    r = guarded(run, 1.0)
    return ("div",) if r == ("timeout",) else r


def correspond(ctx):
    corr.ensure_driver()
    groups = pcommon.grammar_groups(
        ctx, n_random=600 if not ctx.thorough else 5000, depth=(2, 5),
        opts=dict(names=False, actions=False, stops=False, fwd=True, extra=True, ws=False),
        modes=[("none",)], entries=[("parse", False), ("peg",)], inputs_per=5,
        enum_depth=2, enum_inputs=gen.enum_inputs(2 if not ctx.thorough else 3, "ab, ") + ["a b", "(a)", "ab ab", "((a) b)", "a,b"])
    groups += whitespace_family()
    groups += stop_skip_family()
    groups += word_bounds_family()
    recs = run(ctx, groups)
    each_family(ctx)
    each_nullable_operand(ctx)
    each_named_repetition_with_each(ctx)
    skipto_fail_on(ctx)
    for r in [x for x in recs if x["entry"][0] == "parse"][200:203]:
        ctx.sample({"grammar": r["g"], "input": r["inp"], "impl": peg_of_real(r["real"])})


def search(ctx, reasons):
    import random
    for seed in range(1, 5 if not ctx.thorough else 30):
        sub = vlib.Ctx(PROP, ctx.tier, ctx.seed * 100 + seed)
        sub.known = ctx.known
        groups = pcommon.grammar_groups(sub, n_random=250, depth=(2, 6),
                                        opts=dict(names=False, actions=False, stops=False, fwd=True, extra=True, ws=False),
                                        modes=[("none",)], entries=[("parse", False), ("peg",)], inputs_per=6)
        run(sub, groups, oracle_only=True)
        ctx.stat("search_cases", sub.evaluations)
        for v in sub.violations:
            ctx.violation(v["key"], v["what"], v["replay"])
        if sub.violations:
            return


def _tuplify(x):
    return tuple(_tuplify(y) for y in x) if isinstance(x, list) else x


def replay(ctx, obj):
    r = obj["replay"]
    if r.get("kind") == "peg":
        g, env = _tuplify(r["grammar"]), {int(k): _tuplify(v) for k, v in (r.get("env") or {}).items()}
        rr = corr.run_groups([(g, env, [r["input"]], [("none",)], [("parse", False), ("peg",)])])
        want, got = peg_of_ref(rr[1]["model"][3]), peg_of_real(rr[0]["real"])
        print("implementation:", got)
        print("PEG reading   :", want)
        return want == got
    if r.get("kind") == "each-named-rep":
        c2 = vlib.Ctx(PROP, "quick", 0)
        c2.known = {}
        each_named_repetition_with_each(c2)
        for v in c2.violations:
            print(v["what"])
        return not c2.violations
    if r.get("kind") == "each-nullable":
        c2 = vlib.Ctx(PROP, "quick", 0)
        c2.known = {}
        each_nullable_operand(c2)
        for v in c2.violations:
            print(v["what"])
        return not c2.violations
    if r.get("kind") == "skipto-fail-on":
        c2 = vlib.Ctx(PROP, "quick", 0)
        c2.known = {}
        skipto_fail_on(c2)
        for v in c2.violations:
            print(v["what"])
        return not c2.violations
    if r.get("kind") == "each":
        g = _tuplify(r["grammar"])
        got, want = each_impl(g, r["input"]), peg_ref.reading(g, {}, r["input"])
        print("implementation:", got)
        print("PEG reading   :", want)
        return want == got
    if r.get("kind") == "surface":
        g, env = _tuplify(r["grammar"]), {int(k): _tuplify(v) for k, v in (r.get("env") or {}).items()}
        got = peg_of_real(pcommon.single(g, env, r["input"], ("none",), ("parse", False))["real"])
        want = peg_ref.reading(g, env, r["input"])
        print("implementation:", got)
        print("surface PEG   :", want)
        return want == got
    print("replay names a broken proof/correspondence obligation: %r" % (r,))
    return False
