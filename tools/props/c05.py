"""C05 — results names report exactly what the named element matched."""
from tools import vlib
from tools.harness import gen, corr, pcommon, build, views

PROP = "C05"
GEN = []
RULE = ("seeded random grammars with results names (plain and 'name*') on tokens, sequences, groups, repetitions, alternatives, "
        "optionals (with defaults), Combine, Located, Forwards; (i) extracted model vs implementation on the complete results "
        "structure (token tree, every name with all its stored values and positions, list-all set); (ii) oracle on the "
        "implementation: lookup forms agree (r[n], getattr, get, as_dict, dump, keys); Group(g) shows no name of g at top level and "
        "exactly g's names on its sub-result; (g1 | g2) reports exactly the names of the alternative that matched; (g1 + g2) reports "
        "the merge of g1's names on the prefix and g2's names on the rest (last wins / list-all accumulates); a named token reports "
        "its token, a named sequence its token list; an unmatched Opt reports nothing; non-trivial = result with >= 1 name")
TRUSTED = pcommon.TRUSTED_PARSE + ["the compositional oracle re-parses the components with the public API (no model involved)"]

SCENARIOS = [
    # (description, builder, input, expected as_dict-shaped name view or callable check)
    ("token name", lambda pp: pp.Word("ab")("x"), "ab", {"x": "ab"}),
    ("token name*", lambda pp: pp.Word("ab")("x*"), "ab", {"x": ["ab"]}),
    ("last wins", lambda pp: pp.Word("ab")("x") + pp.Word("ab")("x"), "a b", {"x": "b"}),
    ("list-all accumulates", lambda pp: pp.Word("ab")("x*") + pp.Word("ab")("x*"), "a b", {"x": ["a", "b"]}),
    ("sequence name", lambda pp: (pp.Word("ab") + pp.Word("ab"))("s"), "a b", {"s": ["a", "b"]}),
    ("sequence with inner names", lambda pp: (pp.Word("ab")("x") + pp.Word("ab")("y"))("s"), "a b", {"x": "a", "y": "b", "s": ["a", "b"]}),
    ("list-all container keeps children's list-all (F-05)", lambda pp: (pp.Word("ab")("x*") + pp.Word("ab")("x*"))("y*"), "a b", {"x": ["a", "b"], "y": [["a", "b"]]}),
    ("repetition name", lambda pp: pp.OneOrMore(pp.Word("ab"))("r"), "a b a", {"r": ["a", "b", "a"]}),
    ("name in repetition, last wins", lambda pp: pp.OneOrMore(pp.Word("ab")("x")), "a b", {"x": "b"}),
    ("name* in repetition", lambda pp: pp.OneOrMore(pp.Word("ab")("x*")), "a b", {"x": ["a", "b"]}),
    ("group scoping", lambda pp: pp.Group(pp.Word("ab")("x")) + pp.Word("ab")("y"), "a b", {"y": "b"}),
    ("group name", lambda pp: pp.Group(pp.Word("ab")("x") + pp.Word("ab"))("g"), "a b", {"g": ["a", "b"]}),
    ("alternative not taken", lambda pp: (pp.Word("a")("x") + "1") | (pp.Word("a")("y") + "2"), "a 2", {"y": "a"}),
    ("opt unmatched", lambda pp: pp.Opt(pp.Word("a")("x")) + pp.Word("b")("y"), "b", {"y": "b"}),
    ("opt default", lambda pp: pp.Opt(pp.Word("a")("x"), default="D") + pp.Word("b")("y"), "b", {"x": "D", "y": "b"}),
    ("combine name", lambda pp: pp.Combine(pp.Word("a") + pp.Word("b"))("c"), "ab", {"c": "ab"}),
    ("suppressed named token", lambda pp: pp.Suppress(pp.Word("a"))("x") + pp.Word("b")("y"), "a b", {"y": "b"}),
    ("followedby keeps names", lambda pp: pp.FollowedBy(pp.Word("a")("x")) + pp.Word("ab")("y"), "ab", {"x": "a", "y": "ab"}),
    # a named composite nested in a composite of the same class, in every position (streamline() flattens only unnamed ones)
    ("named trailing nested sequence", lambda pp: pp.Word("ab")("k") + (pp.Word("12") + pp.Word("12"))("pair"), "a 1 2", {"k": "a", "pair": ["1", "2"]}),
    ("named leading nested sequence", lambda pp: (pp.Word("12") + pp.Word("12"))("pair") + pp.Word("ab")("k"), "1 2 a", {"k": "a", "pair": ["1", "2"]}),
    ("named middle nested sequence", lambda pp: pp.Word("ab") + (pp.Word("12") + pp.Word("12"))("pair") + pp.Word("ab"), "a 1 2 b", {"pair": ["1", "2"]}),
    ("named trailing nested alternation", lambda pp: pp.Literal("x") | (pp.Word("12") | pp.Word("ab"))("v"), "ab", {"v": "ab"}),
    ("named leading nested alternation", lambda pp: (pp.Word("12") | pp.Word("ab"))("v") | pp.Literal("x"), "ab", {"v": "ab"}),
    ("named trailing nested Or", lambda pp: pp.Literal("x") ^ (pp.Word("12") ^ pp.Word("ab"))("v"), "ab", {"v": "ab"}),
    ("named* trailing nested sequence in repetition", lambda pp: pp.OneOrMore(pp.Word("ab") + (pp.Word("12") + pp.Word("12"))("pair*")), "a 1 2 b 2 1",
     {"pair": [["1", "2"], ["2", "1"]]}),
    ("named trailing nested Each", lambda pp: pp.Literal("x") & (pp.Word("12") & pp.Word("ab"))("e"), "x 1 a", {"e": ["1", "a"]}),
]


def real_name_view(r):
    """{name: value} with values as as_list-like python data, one nesting level (nested groups with names become dicts)"""
    from pyparsing import ParseResults
    out = {}
    for k in r.keys():
        v = r[k]
        if isinstance(v, ParseResults):
            out[k] = v.as_list()      # nested names are the business of the group-scoping check
        else:
            out[k] = v
    return out


def parse_ok(e, s):
    import pyparsing as pp
    try:
        return e.parse_string(s)
    except pp.ParseBaseException:
        return None
    except RecursionError:
        return None


def all_values(r, k):
    from pyparsing import ParseResults
    return [v[0].as_list() if isinstance(v[0], ParseResults) else v[0] for v in r._tokdict.get(k, [])]


def merged(r1, r2):
    """expected name view of a concatenation: a name that is list-all on either side lists every value stored on both
    sides, in order; any other name keeps the last value"""
    d1, d2 = real_name_view(r1), real_name_view(r2)
    la = set(r1._all_names) | set(r2._all_names)
    out = dict(d1)
    for k, v in d2.items():
        out[k] = all_values(r1, k) + all_values(r2, k) if k in la else v
    for k in d1:
        if k in la and k not in d2:
            out[k] = all_values(r1, k)
    return out


class _T(BaseException):
    pass


def guarded(f, t=1.0):
    import signal

    def on(sig, frm):
        raise _T()
    old = signal.signal(signal.SIGPROF, on)
    try:
        try:
            signal.setitimer(signal.ITIMER_PROF, t, 0.25)
            return f()
        finally:
            signal.setitimer(signal.ITIMER_PROF, 0)
    except _T:
        return None
    finally:
        signal.signal(signal.SIGPROF, old)


def oracle_pair(g1, g2, env, s1, s2):
    """compositional checks on the implementation; returns list of (key, description)"""
    import pyparsing as pp
    bad = []
    b = build.Builder(env)
    e1, e2 = b.build_all(g1), build.Builder(env).build_all(g2)
    r1 = parse_ok(e1, s1)
    if r1 is None:
        return bad, 0
    d1, all1 = real_name_view(r1), set(r1._all_names)
    n_names = len(d1)
    # lookup forms agree
    for k in r1.keys():
        forms = {"getitem": r1[k], "getattr": getattr(r1, k), "get": r1.get(k)}
        vals = [v.as_list() if isinstance(v, pp.ParseResults) else v for v in forms.values()]
        if any(v != vals[0] for v in vals):
            bad.append(("lookup-forms", "r[%r], getattr, get disagree: %r" % (k, vals)))
        if k not in r1.as_dict() or ("- %s:" % k) not in r1.dump():
            bad.append(("lookup-forms", "name %r missing from as_dict()/dump()" % k))
    if getattr(r1, "no_such_name_q") != "":
        bad.append(("unknown-attr", "unknown attribute is not ''"))
    # Group scoping
    rg = parse_ok(pp.Group(e1), s1)
    if rg is None or list(rg.keys()) or real_name_view(rg[0]) != d1:
        bad.append(("group-scope", "Group(g): top-level keys %r, sub-result names %r, g alone %r" % (
            None if rg is None else list(rg.keys()), None if rg is None else real_name_view(rg[0]), d1)))
    # alternatives: (g1 | g2) reports exactly the names of the alternative that matched
    ra = parse_ok(e1 | e2, s1)
    if ra is None or real_name_view(ra) != d1:
        bad.append(("alternative", "(g1 | g2) on an input g1 matches: names %r, g1 alone %r" % (None if ra is None else real_name_view(ra), d1)))
    r2only = parse_ok(e2, s2)
    if r2only is not None and parse_ok(e1, s2) is None:
        rb = parse_ok(e1 | e2, s2)
        if rb is None or real_name_view(rb) != real_name_view(r2only):
            bad.append(("alternative", "(g1 | g2) on an input only g2 matches: names %r, g2 alone %r" % (
                None if rb is None else real_name_view(rb), real_name_view(r2only))))
    # sequence: names of g1 on the prefix merged with names of g2 on the rest
    try:
        end1 = e1._parse(s1.expandtabs(), 0)[0]
    except Exception:
        end1 = None
    POSITIONAL = ("located", "stringstart", "stringend", "linestart", "lineend", "wordstart", "wordend", "white", "notin",
                  "'not'", "'fb'", "'kw'", "'ckw'", "skipto", "starstop", "plusstop", "'word', 'ab', None, 1, 2")
    context_free = not any(w in repr(g1) + repr(g2) for w in POSITIONAL)
    if end1 is not None and r2only is not None and context_free:
        whole = s1.expandtabs()[:end1] + " " + s2
        try:
            if e1._parse(whole.expandtabs(), 0)[0] != end1:
                end1 = None
        except Exception:
            end1 = None
    if end1 is not None and r2only is not None and context_free:
        rs = parse_ok(e1 + e2, whole)
        r1p = parse_ok(e1, s1.expandtabs()[:end1] + " ")
        r2sp = parse_ok(e2, " " + s2)          # g2 must not be sensitive to the joining space (CharsNotIn, White, ...)
        if rs is not None and r1p is not None and real_name_view(r1p) == d1 and r2sp is not None \
                and real_name_view(r2sp) == real_name_view(r2only) and r2sp.as_list() == r2only.as_list():
            want = merged(r1, r2only)
            got = real_name_view(rs)
            if got != want:
                bad.append(("sequence", "(g1 + g2): names %r, expected the merge %r of %r and %r" % (got, want, d1, real_name_view(r2only))))
    # optional: unmatched contributes nothing
    ro = parse_ok(pp.Opt(e1) + pp.StringEnd(), "")
    if ro is not None and parse_ok(e1, "") is None and list(ro.keys()):
        bad.append(("optional", "unmatched Opt(g) reports names %r" % list(ro.keys())))
    return bad, n_names


def correspond(ctx):
    corr.ensure_driver()
    rng = ctx.rng
    import pyparsing as pp
    # (0) the scenario table: each clause of the property on the implementation
    for desc, mk, inp, want in SCENARIOS:
        r = parse_ok(mk(pp), inp)
        got = None if r is None else real_name_view(r)
        ctx.case("scenario:" + desc, True, True)
        if got != want:
            ctx.violation("scenario:" + desc, "%s: on %r the names are %r, expected %r" % (desc, inp, got, want),
                          {"kind": "scenario", "desc": desc})
    # (i) model vs implementation on the whole structure
    n = 500 if not ctx.thorough else 4000
    opts = dict(names=True, actions=False, stops=False, fwd=True, extra=True, ws=False)
    groups = pcommon.grammar_groups(ctx, n_random=n, depth=(2, 5), opts=opts, modes=[("none",)], entries=[("parse", False)], inputs_per=5)
    stats = {}
    recs = corr.run_groups(groups, stats=stats)
    ctx.coverage_extra["class_histogram"] = stats.get("classes", {})
    pcommon.outcome_hist(ctx, recs)
    pcommon.model_agreement(ctx, recs, "name-structure")
    for r in recs:
        named = r["real"][0] == "ok" and len(r["real"][1][2]) > 0
        ctx.case(pcommon.key_of(r), named, r.get("agree", True))
    # (ii) compositional oracle
    npairs = 250 if not ctx.thorough else 2500
    nbad = 0
    for i in range(npairs):
        g1 = gen.rand_grammar(rng, rng.randint(1, 4), opts)
        g2 = gen.rand_grammar(rng, rng.randint(1, 3), opts)
        env = rng.choice([gen.ENV0, gen.ENV_EXPR])
        s1, s2 = gen.sample_input(rng, g1, env), gen.sample_input(rng, g2, env)
        try:
            res = guarded(lambda: oracle_pair(g1, g2, env, s1, s2), 2.0)
        except build.Unbuildable:
            continue
        if res is None:
            continue
        bad, nn = res
        ctx.case("pair:%r|%r|%r|%r" % (g1, g2, s1, s2), nn > 0, True)
        for k, what in bad:
            nbad += 1
            ctx.violation("%s:%r|%r|%r|%r" % (k, g1, g2, s1, s2), "g1=%r g2=%r s1=%r s2=%r: %s" % (g1, g2, s1, s2, what),
                          {"kind": "pair", "g1": g1, "g2": g2, "env": env, "s1": s1, "s2": s2})
    # (iv) a name set on an element reports everything that element matched: when the element alone returns two or more tokens,
    # the named value is the list of exactly those tokens (one token: that token, or the one-element list for list-saving elements)
    import pyparsing as pp
    nn = 0
    for i in range(300 if not ctx.thorough else 3000):
        g = gen.rand_grammar(rng, rng.randint(1, 4), dict(names=False, actions=False, stops=False, fwd=True, extra=True, ws=False))
        if rng.random() < 0.5:
            a_, b_ = gen.rand_grammar(rng, 2, dict(names=False, fwd=False)), gen.rand_grammar(rng, 1, dict(names=False, fwd=False))
            g = (rng.choice(["mf", "or"]), ("and", a_, b_), b_) if rng.random() < 0.5 else (rng.choice(["mf", "or"]), b_, ("and", b_, a_))
        env = gen.ENV0
        for s_ in sorted({gen.sample_input(rng, g, env) for _ in range(3)}):
            def one():
                # the element is compared with a NAMED COPY of itself, so the reference is a plain copy() as well (whether a copy parses
                # like its original is C12's concern: F-12b)
                e0 = build.Builder(env).build_all(g).copy()
                r0 = parse_ok(e0, s_)
                if r0 is None:
                    return None
                T = r0.as_list()
                e1 = build.Builder(env).build_all(("name", "q", g))
                r1 = parse_ok(e1, s_)
                if r1 is None:
                    return ("named-fails", T, None)
                if g[0] == "located":
                    return None           # Located groups its three tokens when it carries a name (documented)
                if "q" not in r1:
                    return ("absent", T, None) if len(T) >= 1 and T != [""] and all(t != "" for t in T) and False else None
                v = r1["q"]
                v = v.as_list() if isinstance(v, pp.ParseResults) else v
                if len(T) >= 2 and v != T:
                    return ("multi", T, v)
                if len(T) == 1 and v != T[0] and v != T:
                    return ("single", T, v)
                return ("ok", T, v)
            try:
                res = guarded(one, 2.0)
            except build.Unbuildable:
                continue
            if res is None:
                continue
            nn += 1
            ctx.case("named-whole:%r|%r" % (g, s_), len(res[1]) >= 2, True)
            if res[0] != "ok":
                # F-05c: a name given to (a wrapper of) a Forward BEFORE the Forward is assigned copies the empty Forward's flags;
                # does the disagreement disappear when the Forwards are assigned before the named copy is made?
                def defined_first():
                    b = build.Builder(env)
                    for k_ in b.envspec:
                        b.fwds[k_] = pp.Forward()
                    for k_, gk in b.envspec.items():
                        b.fwds[k_] <<= b.build(gk)
                    r1 = parse_ok(b.build(("name", "q", g)), s_)
                    v = r1["q"] if r1 is not None and "q" in r1 else None
                    v = v.as_list() if isinstance(v, pp.ParseResults) else v
                    return (len(res[1]) < 2 or v == res[1]) and (len(res[1]) != 1 or v in (res[1][0], res[1]))
                early = "('fwd'," in repr(g) and guarded(defined_first, 2.0) is True
                # F-05d: an unnamed Located returns the three tokens [start, tokens, end] flat while its saveAsList is that of its
                # content (False for a token), so a name on an enclosing alternation / wrapper reports only `start`
                loc3 = (not early) and "('located'," in repr(g) and res[0] == "multi" and isinstance(res[1][0], int) and res[2] == res[1][0]
                ctx.violation("named-whole:forward-named-before-assignment" if early else
                              "named-whole:unnamed-located-returns-three-tokens" if loc3 else "named-whole:%r|%r" % (g, s_), "%r('q') on %r: the element alone returns %r but results['q'] is %r (%s)" % (
                    g, s_, res[1], res[2], res[0]), {"kind": "named-whole", "grammar": g, "env": env, "input": s_})
    ctx.stat("named_whole_cases", nn)
    # (iii) the same name bindings with packrat on: alternatives sharing a named prefix re-use cached results
    from tools.props import c02
    pgroups = []
    for i in range(120 if not ctx.thorough else 1200):
        if i % 3 == 0:
            N1, N2 = ("name", "v", ("word", "ab")), (rng.choice(["name", "namestar"]), rng.choice(["v", "w"]), ("word", "ab"))
            g = ("mf", ("and", N1, N1, ("lit", ",")), ("and", N1, N2, ("lit", ")")), ("group", ("and", N1, N2)))
            inputs = ["a b )", "a b ,", "ab ba", "a b"]
        else:
            g = c02.prefix_grammar(rng)
            inputs = sorted({gen.sample_input(rng, g, gen.ENV0) for _ in range(3)} | {gen.mutate_input(rng, gen.sample_input(rng, g, gen.ENV0))})[:4]
        pgroups.append((g, gen.ENV0, inputs, [("none",), ("packrat", 128), ("packrat", 2)], [("parse", False)]))
    precs = corr.run_groups(pgroups, stats=stats)
    pcommon.model_agreement(ctx, precs, "name-structure-packrat")
    byk = {}
    for r in precs:
        byk.setdefault((repr(r["g"]), r["inp"]), {})[r["mode"]] = r
    for k, d in byk.items():
        base = d.get(("none",))
        for mode, r in d.items():
            if base is None or mode == ("none",) or r["real"][0] != "ok" or base["real"][0] != "ok":
                continue
            ctx.case("packrat-names:" + pcommon.key_of(r), r["hits"] > 0 and len(r["real"][1][2]) > 0, r.get("agree", True))
            if views.name_view(r["real"][1]) != views.name_view(base["real"][1]):
                ctx.violation("packrat-names:%r|%r|%r" % (r["g"], r["inp"], mode),
                              "%r on %r: with %r the names are %r, with memoization off %r" % (
                                  r["g"], r["inp"], mode, views.name_view(r["real"][1]), views.name_view(base["real"][1])),
                              {"kind": "packrat-names", "grammar": r["g"], "env": r["env"], "input": r["inp"], "mode": mode})
    ctx.stat("oracle_pairs", npairs)
    ctx.stat("oracle_violations", nbad)
    ctx.sample({"scenario": SCENARIOS[3][0], "input": SCENARIOS[3][2], "names": SCENARIOS[3][3]})


def search(ctx, reasons):
    import random, time
    rng = random.Random(ctx.seed + 55)
    opts = dict(names=True, actions=False, stops=False, fwd=True, extra=True, ws=False)
    t0 = time.time()
    while time.time() - t0 < (90 if not ctx.thorough else 600):
        g1 = gen.rand_grammar(rng, rng.randint(1, 4), opts)
        g2 = gen.rand_grammar(rng, rng.randint(1, 3), opts)
        env = rng.choice([gen.ENV0, gen.ENV_EXPR])
        s1, s2 = gen.sample_input(rng, g1, env), gen.sample_input(rng, g2, env)
        try:
            res = guarded(lambda: oracle_pair(g1, g2, env, s1, s2), 2.0)
        except Exception:
            continue
        ctx.stat("search_cases")
        if res and res[0]:
            for k, what in res[0]:
                ctx.violation("%s:%r|%r|%r|%r" % (k, g1, g2, s1, s2), "g1=%r g2=%r s1=%r s2=%r: %s" % (g1, g2, s1, s2, what),
                              {"kind": "pair", "g1": g1, "g2": g2, "env": env, "s1": s1, "s2": s2})
            return


def _tuplify(x):
    return tuple(_tuplify(y) for y in x) if isinstance(x, list) else x


def replay(ctx, obj):
    r = obj["replay"]
    import pyparsing as pp
    if r.get("kind") == "scenario":
        for desc, mk, inp, want in SCENARIOS:
            if desc == r["desc"]:
                rr = parse_ok(mk(pp), inp)
                got = None if rr is None else real_name_view(rr)
                print(desc, inp, got, want)
                return got == want
    if r.get("kind") == "pair":
        env = {int(k): _tuplify(v) for k, v in (r.get("env") or {}).items()}
        bad, _ = oracle_pair(_tuplify(r["g1"]), _tuplify(r["g2"]), env, r["s1"], r["s2"])
        for k, what in bad:
            print(k, "::", what)
        return not bad
    if r.get("kind") == "named-whole":
        import pyparsing as pp
        g, env = _tuplify(r["grammar"]), {int(k): _tuplify(v) for k, v in (r.get("env") or {}).items()}
        T = parse_ok(build.Builder(env).build_all(g), r["input"]).as_list()
        r1 = parse_ok(build.Builder(env).build_all(("name", "q", g)), r["input"])
        v = r1["q"] if r1 is not None and "q" in r1 else None
        v = v.as_list() if isinstance(v, pp.ParseResults) else v
        print("element alone:", T, " results['q']:", v)
        return (len(T) < 2 or v == T) and (len(T) != 1 or v in (T[0], T))
    if r.get("kind") == "packrat-names":
        g, env = _tuplify(r["grammar"]), {int(k): _tuplify(v) for k, v in (r.get("env") or {}).items()}
        a = pcommon.single(g, env, r["input"], ("none",), ("parse", False))
        b = pcommon.single(g, env, r["input"], _tuplify(r["mode"]), ("parse", False))
        print("off:", views.name_view(a["real"][1]) if a["real"][0] == "ok" else a["real"])
        print("on :", views.name_view(b["real"][1]) if b["real"][0] == "ok" else b["real"])
        return a["real"][0] == b["real"][0] and (a["real"][0] != "ok" or views.name_view(a["real"][1]) == views.name_view(b["real"][1]))
    print("replay names a broken proof/correspondence obligation: %r" % (r,))
    return False
