"""C05 — results names report exactly what the named element matched."""
from tools import vlib
from tools.harness import gen, corr, pcommon, build, views

PROP = "C05"
GEN = []
RULE = ("seeded random grammars with results names (plain and 'name*') on tokens, sequences, groups, repetitions, alternatives, "
        "optionals (with defaults), Combine, Located, Forwards; (i) extracted model vs implementation on the complete results "
        "structure (token tree, every name with all its stored values and positions, list-all set); (ii) oracle on the "
        "implementation: lookup forms agree (r[n], getattr, get, as_dict, dump, keys); Group(g) shows no name of g at top level and "
        "exactly g's names on its sub-result; (g1 | g2) reports exactly the names of the alternative that matched; (g1 + g2) reports "
        "the merge of g1's names on the prefix and g2's names on the rest (last wins / list-all accumulates); a named token reports "
        "its token, a named sequence its token list; an unmatched Opt reports nothing; non-trivial = result with >= 1 name; "
        "(v) the reference reading names_of of the end-to-end theorem (coq/Model/NamesSpec.v), evaluated by coqc on the dumps of the "
        "scenario grammars and of seeded random named grammars of the class in_class_n, vs the abstract view (token list with nested "
        "sub-results and their names, every name with all its values, list-all set) of what parse_string returns; the witness grammars "
        "of Props/C05.v are re-dumped from the real objects and compared term by term")
TRUSTED = pcommon.TRUSTED_PARSE + ["the compositional oracle re-parses the components with the public API (no model involved)",
                                   "names_of is evaluated by coqc (vm_compute) on Gallina terms printed from the dumps by tools/props/c05.py "
                                   "(sx_to_coq: a transliteration of the S-expressions of tools/harness/dump.py)"]

SCENARIOS = [
    # (description, builder, input, expected as_dict-shaped name view or callable check)
    ("token name", lambda pp: pp.Word("ab")("x"), "ab", {"x": "ab"}),
    ("token name*", lambda pp: pp.Word("ab")("x*"), "ab", {"x": ["ab"]}),
    ("last wins", lambda pp: pp.Word("ab")("x") + pp.Word("ab")("x"), "a b", {"x": "b"}),
    ("list-all accumulates", lambda pp: pp.Word("ab")("x*") + pp.Word("ab")("x*"), "a b", {"x": ["a", "b"]}),
    ("sequence name", lambda pp: (pp.Word("ab") + pp.Word("ab"))("s"), "a b", {"s": ["a", "b"]}),
    ("sequence with inner names", lambda pp: (pp.Word("ab")("x") + pp.Word("ab")("y"))("s"), "a b", {"x": "a", "y": "b", "s": ["a", "b"]}),
    ("list-all container keeps children's list-all (F-05)", lambda pp: (pp.Word("ab")("x*") + pp.Word("ab")("x*"))("y*"), "a b", {"x": ["a", "b"], "y": [["a", "b"]]}),
    ("repetition name", lambda pp: pp.OneOrMore(pp.Word("ab"))("r"), "a b a", {"r": ["a", "b", "a"]}),
    ("name in repetition, last wins", lambda pp: pp.OneOrMore(pp.Word("ab")("x")), "a b", {"x": "b"}),
    ("name* in repetition", lambda pp: pp.OneOrMore(pp.Word("ab")("x*")), "a b", {"x": ["a", "b"]}),
    ("group scoping", lambda pp: pp.Group(pp.Word("ab")("x")) + pp.Word("ab")("y"), "a b", {"y": "b"}),
    ("group name", lambda pp: pp.Group(pp.Word("ab")("x") + pp.Word("ab"))("g"), "a b", {"g": ["a", "b"]}),
    ("alternative not taken", lambda pp: (pp.Word("a")("x") + "1") | (pp.Word("a")("y") + "2"), "a 2", {"y": "a"}),
    ("opt unmatched", lambda pp: pp.Opt(pp.Word("a")("x")) + pp.Word("b")("y"), "b", {"y": "b"}),
    ("opt default", lambda pp: pp.Opt(pp.Word("a")("x"), default="D") + pp.Word("b")("y"), "b", {"x": "D", "y": "b"}),
    ("combine name", lambda pp: pp.Combine(pp.Word("a") + pp.Word("b"))("c"), "ab", {"c": "ab"}),
    ("suppressed named token", lambda pp: pp.Suppress(pp.Word("a"))("x") + pp.Word("b")("y"), "a b", {"y": "b"}),
    ("followedby keeps names", lambda pp: pp.FollowedBy(pp.Word("a")("x")) + pp.Word("ab")("y"), "ab", {"x": "a", "y": "ab"}),
    # a named composite nested in a composite of the same class, in every position (streamline() flattens only unnamed ones)
    ("named trailing nested sequence", lambda pp: pp.Word("ab")("k") + (pp.Word("12") + pp.Word("12"))("pair"), "a 1 2", {"k": "a", "pair": ["1", "2"]}),
    ("named leading nested sequence", lambda pp: (pp.Word("12") + pp.Word("12"))("pair") + pp.Word("ab")("k"), "1 2 a", {"k": "a", "pair": ["1", "2"]}),
    ("named middle nested sequence", lambda pp: pp.Word("ab") + (pp.Word("12") + pp.Word("12"))("pair") + pp.Word("ab"), "a 1 2 b", {"pair": ["1", "2"]}),
    ("named trailing nested alternation", lambda pp: pp.Literal("x") | (pp.Word("12") | pp.Word("ab"))("v"), "ab", {"v": "ab"}),
    ("named leading nested alternation", lambda pp: (pp.Word("12") | pp.Word("ab"))("v") | pp.Literal("x"), "ab", {"v": "ab"}),
    ("named trailing nested Or", lambda pp: pp.Literal("x") ^ (pp.Word("12") ^ pp.Word("ab"))("v"), "ab", {"v": "ab"}),
    ("named* trailing nested sequence in repetition", lambda pp: pp.OneOrMore(pp.Word("ab") + (pp.Word("12") + pp.Word("12"))("pair*")), "a 1 2 b 2 1",
     {"pair": [["1", "2"], ["2", "1"]]}),
    ("named trailing nested Each", lambda pp: pp.Literal("x") & (pp.Word("12") & pp.Word("ab"))("e"), "x 1 a", {"e": ["1", "a"]}),
]


# ---------------------------------------------------------------------------------------------------------------
# the Coq reference reading `names_of` (coq/Model/NamesSpec.v) evaluated by coqc on the dumps of real grammar objects and
# compared with the abstract view (token list with nested sub-results, name -> all values, list-all set) of what the
# implementation returns: ties the reference of C05_names_end_to_end_partial itself to the code.
# ---------------------------------------------------------------------------------------------------------------
REF_PREAMBLE = """From Coq Require Import List ZArith NArith Bool.
From PP Require Import Model.Str Model.Results Model.ResultsAPI Model.ResultsSpec Model.Prog Model.Core Model.Peg Model.NamesSpec.
Import ListNotations.
Definition A_ (n : nat) (rs : option str) (mo asl sk : bool) (wh : list char) (cp mi cu hm ct : bool) (sl : nat) : attrs :=
  {| nid := n; rsname := rs; modalr := mo; aslist := asl; skipws := sk; white := wh; callpre := cp; mayidx := mi;
     custom := cu; hasmsg := hm; acts := []; calltry := ct; slen := sl |}.
Definition run_ref (G : env) (e : expr) (s : str) :=
  (in_class_n G e && env_in_class_n G, nres_obs (names_of G s 300 e 0)).
"""


class NotExpressible(Exception):
    pass


def _cb(x):
    return "true" if x == "1" else "false"


def _cchars(l):
    return "[" + ";".join(l) + "]%N"


def _conat(x):
    return "None" if x == "N" else "(Some %s)" % x


def attrs_coq(A):
    if A[0] != "A" or A[11] != []:
        raise NotExpressible("parse actions")
    rs = "None" if A[2] == "N" else "(Some %s)" % _cchars(A[2][1:])
    return "(A_ %s %s %s %s %s %s %s %s %s %s %s %s)" % (A[1], rs, _cb(A[3]), _cb(A[4]), _cb(A[5]), _cchars(A[6]), _cb(A[7]), _cb(A[8]),
                                                          _cb(A[9]), _cb(A[10]), _cb(A[12]), A[13])


def tokval_coq(t):
    if t == "none":
        return "TNone"
    if t[0] == "s":
        return "(TStr %s)" % _cchars(t[1])
    if t[0] == "i":
        return "(TInt (%s)%%Z)" % t[1]
    if t[0] == "b":
        return "(TBool %s)" % _cb(t[1])
    if t[0] == "l":
        return "(TList [%s])" % "; ".join(tokval_coq(x) for x in t[1:])
    raise NotExpressible("token value %r" % (t,))


def sx_to_coq(sx):
    """dumped grammar node (parsed S-expression of tools/harness/dump.py) -> Gallina term of type expr"""
    k = sx[0]
    A = attrs_coq(sx[1])
    I = "[%s]" % "; ".join(sx_to_coq(x) for x in sx[2])
    if k == "T":
        t = sx[3]
        simple = {"empty": "KEmpty", "nomatch": "KNoMatch", "lineend": "KLineEnd", "stringstart": "KStringStart", "stringend": "KStringEnd",
                  "errorstop": "KErrorStop"}
        if isinstance(t, str):
            if t not in simple:
                raise NotExpressible("token %r" % (t,))
            tk = simple[t]
        elif t[0] == "lit": tk = "(KLit %s)" % _cchars(t[1])
        elif t[0] == "clit": tk = "(KCaselessLit %s %s)" % (_cchars(t[1]), _cchars(t[2]))
        elif t[0] == "kw": tk = "(KKeyword %s %s %s %s)" % (_cchars(t[1]), _cchars(t[2]), _cb(t[3]), _cchars(t[4]))
        elif t[0] == "word": tk = "(KWord %s %s %s %s %s %s %s)" % (_cchars(t[1]), _cchars(t[2]), t[3], _conat(t[4]), _cb(t[5]), _cb(t[6]), _cb(t[7]))
        elif t[0] == "notin": tk = "(KNotIn %s %s %s)" % (_cchars(t[1]), t[2], _conat(t[3]))
        elif t[0] == "white": tk = "(KWhite %s %s %s)" % (_cchars(t[1]), t[2], _conat(t[3]))
        elif t[0] == "wordstart": tk = "(KWordStart %s)" % _cchars(t[1])
        elif t[0] == "wordend": tk = "(KWordEnd %s)" % _cchars(t[1])
        elif t[0] == "linestart": tk = "(KLineStart %s %s)" % (_cb(t[1]), _cchars(t[2]))
        elif t[0] == "gotocol": tk = "(KGoToCol %s)" % t[1]
        else:
            raise NotExpressible("token %r" % (t,))
        return "(Tok %s %s %s)" % (A, I, tk)
    if k == "N" and sx[3] in ("and", "mf", "or"):
        kind = {"and": "NAnd", "mf": "NMatchFirst", "or": "NOr"}[sx[3]]
        return "(Nary %s %s %s [%s])" % (A, I, kind, "; ".join(sx_to_coq(x) for x in sx[4]))
    if k == "E":
        ek = sx[3]
        simple = {"suppress": "ESuppress", "not": "ENot", "fb": "EFollowedBy", "pass": "EPass", "lookahead": "ELookahead", "located": "ELocated",
                  "dict": "EDict", "atstringstart": "EAtStringStart", "atlinestart": "EAtLineStart"}
        if isinstance(ek, str):
            if ek not in simple:
                raise NotExpressible("enhance %r" % (ek,))
            e = simple[ek]
        elif ek[0] == "group": e = "(EGroup %s)" % _cb(ek[1])
        elif ek[0] == "opt": e = "(EOpt None)" if ek[1] == "N" else "(EOpt (Some %s))" % tokval_coq(ek[1])
        elif ek[0] == "combine": e = "(ECombine %s)" % _cchars(ek[1])
        else:
            raise NotExpressible("enhance %r" % (ek,))
        return "(Enh %s %s %s %s)" % (A, I, e, sx_to_coq(sx[4]))
    if k == "R":
        return "(Rep %s %s %s %s %s)" % (A, I, _cb(sx[3]), sx_to_coq(sx[4]), "None" if sx[5] == "N" else "(Some %s)" % sx_to_coq(sx[5]))
    if k == "F":
        return "(Fwd %s %s %s)" % (A, I, _conat(sx[3]))
    raise NotExpressible("node %r" % (k,))


def dump_coq(root):
    """real (streamlined) object graph -> (Gallina env term, Gallina root term)"""
    from tools.harness import dump, observe
    d = dump.Dumper()
    rsx, esx = d.dump(root)
    env = observe.parse_sx(esx)[1:]
    return "[%s]" % "; ".join(sx_to_coq(x) for x in env), sx_to_coq(observe.parse_sx(rsx))


def _norm_v(t):
    """canonical abstract token (both sides): list-all sets sorted, at every level"""
    if isinstance(t, tuple) and t and t[0] == "VPR":
        return ("VPR", [_norm_v(x) for x in t[1]], [(list(k), [_norm_v(v) for v in vs]) for k, vs in t[2]], sorted(list(x) for x in t[3]))
    if isinstance(t, tuple) and t and t[0] == "VList":
        return ("VList", [_norm_v(x) for x in t[1]])
    if isinstance(t, tuple) and t and t[0] == "VStr":
        return ("VStr", list(t[1]))
    return t


def view_of_real_tok(t):
    """canonical token of tools/harness/observe.py -> abstract token (the `tview` of Model/ResultsSpec.v)"""
    if t == "none":
        return ("VNone",)
    if t[0] == "s": return ("VStr", [ord(c) for c in t[1]])
    if t[0] == "i": return ("VInt", t[1])
    if t[0] == "b": return ("VBool", t[1])
    if t[0] == "l": return ("VList", [view_of_real_tok(x) for x in t[1]])
    if t[0] == "p":
        return ("VPR",) + view_of_real(t[1])
    raise ValueError(t)


def view_of_real(p):
    """canonical pres -> (token list, [(name, [values])], sorted list-all names): positions and `_name` are forgotten"""
    return ([view_of_real_tok(x) for x in p[1]],
            [([ord(c) for c in k], [view_of_real_tok(v) for v, _ in occ]) for k, occ in p[2]],
            sorted([ord(c) for c in n] for n in p[3]))


def ref_outcome(val):
    """parsed `run_ref` value -> (in_class, ('ok', end, view) | ('fail',) | ('div',) | ('out',))"""
    inc, (code, l, body) = val
    if code == 0:
        lst, mp, al = body[1]
        v = _norm_v(("VPR", lst, mp, al))
        return inc, ("ok", l, (v[1], v[2], v[3]))
    return inc, ({1: "fail", 2: "div", 3: "out"}[code],)


def real_outcome(root, s):
    """the implementation on the same case: parse_string (= _parse(s, 0) on a tab-free input) through the canonical observation"""
    from tools.harness import observe, dump
    r = observe.run_real(root, dump.Dumper(), s, ("none",), ("parse", False))
    if r[0] == "ok":
        v = _norm_v(("VPR",) + view_of_real(r[1]))
        return ("ok", (v[1], v[2], v[3]))
    if r[0] == "err":
        return ("fail",) if r[1] == "ParseException" else ("other", r[1])
    return ("div",)


REF_LEAVES = [("lit", "a"), ("lit", "b"), ("lit", "ab"), ("word", "ab"), ("word", "12"), ("kw", "a"), ("lit", ","), ("empty",), ("stringend",),
              ("clit", "aB"), ("char", "ab"), ("fwd", 0)]


def rand_named(rng, depth):
    """random grammar of the class of the end-to-end theorem, with results names (plain and 'name*') at every level"""
    def go(d):
        if d <= 1 or rng.random() < 0.15:
            g = rng.choice(REF_LEAVES)
        else:
            r = rng.random()
            if r < 0.35:
                g = ("and",) + tuple(go(d - 1) for _ in range(rng.choice([2, 2, 3])))
            elif r < 0.5:
                g = ("mf",) + tuple(go(d - 1) for _ in range(rng.choice([2, 2, 3])))
            elif r < 0.58:
                g = ("or",) + tuple(go(d - 1) for _ in range(rng.choice([2, 2])))
            else:
                u = rng.choice(["opt", "opt", "optd", "star", "plus", "group", "group", "suppress", "fb", "not"])
                if u in ("star", "plus"):
                    body = go(d - 1)
                    if gen.nullable(body, gen.ENV0):
                        body = ("and", rng.choice([("lit", "a"), ("word", "ab")]), body)
                    g = (u, body)
                elif u == "optd":
                    g = ("optd", rng.choice(["D", 7, None, True]), go(d - 1))
                else:
                    g = (u, go(d - 1))
        # few distinct names, so that the same name is bound several times (last wins / list-all accumulation / mixed declarations)
        if rng.random() < (0.55 if g[0] in ("lit", "word", "kw", "clit", "char") else 0.35):
            g = (rng.choice(["name", "namestar"]), rng.choice(["x", "x", "y"]), g)
        return g
    return go(depth)


def reference_cases(ctx, n):
    """[(g, env, input, root object, Gallina term)] for n random named grammars"""
    rng = ctx.rng
    cases = []
    for i in range(n):
        g = rand_named(rng, rng.randint(1, 4))
        env = rng.choice([gen.ENV0, gen.ENV_EXPR, {0: ("name", "f", ("and", ("lit", "("), ("opt", ("fwd", 0)), ("lit", ")")))}])
        try:
            root = build.Builder(env).build_all(g)
            root.streamline()
            G, e = dump_coq(root)
        except (build.Unbuildable, NotExpressible, Exception) as ex:
            ctx.stat("reference_unsupported")
            continue
        inputs = set()
        for _ in range(3):
            s = gen.sample_input(rng, g, env)
            inputs.add(s)
            inputs.add(gen.mutate_input(rng, s))
        for s in sorted(x for x in inputs if "\t" not in x)[:4]:
            cases.append((g, env, s, root, "run_ref %s %s %s" % (G, e, vlib.coq_str(s))))
    return cases


def compare_reference(ctx, cases, tag):
    import os
    if not cases:
        return
    vals = []
    CH = 400
    for c in range(0, len(cases), CH):
        vals += vlib.coq_eval_terms("c05_ref_%s_%d_%d" % (tag, os.getpid(), c), REF_PREAMBLE, [t for _, _, _, _, t in cases[c:c + CH]], timeout=900)
    nin = 0
    for (g, env, s, root, _), val in zip(cases, vals):
        inc, ref = ref_outcome(val)
        if not inc:
            ctx.stat("reference_outside_class")
            continue
        real = guarded(lambda: real_outcome(root, s), 3.0)
        if real is None or real[0] in ("div", "other") or ref[0] in ("div", "out"):
            ctx.stat("reference_not_compared")
            continue
        nin += 1
        want = ("ok", ref[2]) if ref[0] == "ok" else ("fail",)
        named = real[0] == "ok" and (len(real[1][1]) > 0 or any(isinstance(t, tuple) and t[0] == "VPR" and t[2] for t in real[1][0]))
        ctx.case("names-ref:%r|%r|%r" % (g, sorted(env.items()), s), named, real == want)
        if real != want:
            ctx.violation("names-reference:%r|%r|%r" % (g, sorted(env.items()), s),
                          "%r (env %r) on %r: the implementation returns %r but the reference reading names_of (Model/NamesSpec.v; "
                          "C05_names_end_to_end_partial) gives %r" % (g, env, s, real, want),
                          {"kind": "names-ref", "grammar": g, "env": env, "input": s})
    ctx.stat("reference_compared_" + tag, nin)


def _f05c(pp):
    F = pp.Forward()
    named = F("q")                       # the name is given BEFORE the Forward is assigned
    F <<= "(" + pp.Word("ab") + ")"
    return named


def _fwd_named_after(pp):
    F = pp.Forward()
    F <<= "(" + pp.Word("ab") + ")"
    return F("q")                        # the same grammar, named AFTER the assignment


# the witness grammars of coq/Props/C05.v (Definitions w_*: dumps of these real objects after streamline(), re-dumped and compared
# on every run) with the input of their Example and the names the Example states
E2E_WITNESSES = [
    ("w_main", lambda pp: pp.Word("ab")("k") + pp.Group(pp.Word("12")("n") + pp.Word("12")("n"))("g") + pp.Opt(pp.Word("ab")("o")),
     ["a 1 2 b", "a 1 2"]),
    ("w_last_wins", SCENARIOS[2][1], [SCENARIOS[2][2]]),
    ("w_listall", SCENARIOS[3][1], [SCENARIOS[3][2]]),
    ("w_seq_inner", SCENARIOS[5][1], [SCENARIOS[5][2]]),
    ("w_listall_container", SCENARIOS[6][1], [SCENARIOS[6][2]]),
    ("w_rep_last", SCENARIOS[8][1], [SCENARIOS[8][2]]),
    ("w_rep_listall", SCENARIOS[9][1], [SCENARIOS[9][2]]),
    ("w_group_scope", SCENARIOS[10][1], [SCENARIOS[10][2]]),
    ("w_group_name", SCENARIOS[11][1], [SCENARIOS[11][2]]),
    ("w_alternative", SCENARIOS[12][1], [SCENARIOS[12][2]]),
    ("w_opt_unmatched", SCENARIOS[13][1], [SCENARIOS[13][2]]),
    ("w_opt_default", SCENARIOS[14][1], [SCENARIOS[14][2]]),
    ("w_suppress", SCENARIOS[16][1], [SCENARIOS[16][2]]),
    ("w_followedby", SCENARIOS[17][1], [SCENARIOS[17][2]]),
    ("w_nested_or", SCENARIOS[23][1], [SCENARIOS[23][2]]),
    ("w_rep_nested_listall", SCENARIOS[24][1], [SCENARIOS[24][2]]),
    ("w_zero_rep", lambda pp: pp.ZeroOrMore(pp.Word("a"))("z") + pp.Word("b"), ["b"]),
    ("w_f05c", _f05c, ["(ab)"]),
    ("w_fwd_named_after", _fwd_named_after, ["(ab)"]),
    ("w_opt_default_listall", lambda pp: pp.Opt(pp.Word("a")("x*"), default="D"), [""]),
]


def _vtok_coq(v):
    if isinstance(v, str): return "VStr %s" % vlib.coq_str(v)
    if isinstance(v, bool): return "VBool %s" % ("true" if v else "false")
    if isinstance(v, int): return "VInt (%d)%%Z" % v
    if v is None: return "VNone"
    return "VList [%s]" % "; ".join(_vtok_coq(x) for x in v)


def emit_witnesses():
    """the text of the witness Definitions / Examples of coq/Props/C05.v (python -c 'from tools.props import c05; print(c05.emit_witnesses())')"""
    import pyparsing as pp
    out = []
    for name, mk, inputs in E2E_WITNESSES:
        e = mk(pp)
        e.streamline()
        G, t = dump_coq(e)
        out.append("Definition %s_G : env := %s.\nDefinition %s : expr := %s." % (name, G.replace("A_ ", "c05_at "), name, t.replace("A_ ", "c05_at ")))
        for i, s in enumerate(inputs):
            if name == "w_opt_default_listall":
                continue                  # outside the class of the theorem: C05_opt_default_listall_refuted is stated by hand
            r = e.parse_string(s)
            nv = "[%s]" % "; ".join("(%s, %s)" % (vlib.coq_str(k), _vtok_coq(v)) for k, v in real_name_view(r).items())
            out.append("Example C05_e2e_%s%s :\n  in_class_n %s_G %s && env_in_class_n %s_G = true /\\\n"
                       "  nproj (parse (step %s_G) 40 (mkargs %s %s 0 true true)) = Some (names_of %s_G %s 40 %s 0) /\\\n"
                       "  nres_names (names_of %s_G %s 40 %s 0) = Some %s.\nProof. vm_compute. repeat split. Qed."
                       % (name[2:], "" if len(inputs) == 1 else "_%d" % (i + 1), name, name, name, name, name, vlib.coq_str(s), name, vlib.coq_str(s), name,
                          name, vlib.coq_str(s), name, nv))
    return "\n".join(out)


def check_witness_dumps(ctx):
    """the witness grammars stated in Props/C05.v are the dumps of the real objects (as built by the code under test)"""
    import pyparsing as pp
    # compared up to `slen` (= len(str(element)), which only orders simultaneous fatal errors of Or / Each)
    pre = REF_PREAMBLE + """From PP Require Import Proofs.EqDec Props.C05.
Fixpoint zs (e : expr) : expr :=
  let za (a : attrs) := {| nid := nid a; rsname := rsname a; modalr := modalr a; aslist := aslist a; skipws := skipws a;
    white := white a; callpre := callpre a; mayidx := mayidx a; custom := custom a; hasmsg := hasmsg a; acts := acts a;
    calltry := calltry a; slen := 0 |} in
  match e with
  | Tok a i t => Tok (za a) (map zs i) t
  | Nary a i k es => Nary (za a) (map zs i) k (map zs es)
  | Enh a i k c => Enh (za a) (map zs i) k (zs c)
  | Rep a i z c ne => Rep (za a) (map zs i) z (zs c) (option_map zs ne)
  | Skip a i c incl ig fo => Skip (za a) (map zs i) (zs c) incl (map zs ig) (option_map zs fo)
  | Fwd a i b => Fwd (za a) (map zs i) b
  end.
"""
    terms = []
    for name, mk, inputs in E2E_WITNESSES:
        e = mk(pp)
        e.streamline()
        G, t = dump_coq(e)
        terms.append("(if expr_eq_dec (zs %s) (zs %s) then true else false, if list_eq_dec expr_eq_dec (map zs %s_G) (map zs %s) then true else false)" % (name, t, name, G))
    vals = vlib.coq_eval_terms("c05_witness_dumps", pre, terms, timeout=600)
    for (name, mk, inputs), v in zip(E2E_WITNESSES, vals):
        ctx.case("witness-dump:" + name, True, v == (True, True))
        if v != (True, True):
            ctx.broken("tie:witness-dump the grammar %s of Props/C05.v is no longer the dump of the real object it stands for "
                       "(attributes or structure changed in the implementation)" % name)


def real_name_view(r):
    """{name: value} with values as as_list-like python data, one nesting level (nested groups with names become dicts)"""
    from pyparsing import ParseResults
    out = {}
    for k in r.keys():
        v = r[k]
        if isinstance(v, ParseResults):
            out[k] = v.as_list()      # nested names are the business of the group-scoping check
        else:
            out[k] = v
    return out


def parse_ok(e, s):
    import pyparsing as pp
    try:
        return e.parse_string(s)
    except pp.ParseBaseException:
        return None
    except RecursionError:
        return None


def all_values(r, k):
    from pyparsing import ParseResults
    return [v[0].as_list() if isinstance(v[0], ParseResults) else v[0] for v in r._tokdict.get(k, [])]


def merged(r1, r2, falsy_right_declares=True):
    """expected name view of a concatenation: a name that is list-all on either side lists every value stored on both
    sides, in order; any other name keeps the last value.  falsy_right_declares=False: a right operand that is falsy (no
    tokens, no names) contributes no list-all declaration (what `__iadd__`'s early return does: F-05f)"""
    d1, d2 = real_name_view(r1), real_name_view(r2)
    la = set(r1._all_names) | (set(r2._all_names) if (falsy_right_declares or bool(r2)) else set())
    out = dict(d1)
    for k, v in d2.items():
        out[k] = all_values(r1, k) + all_values(r2, k) if k in la else v
    for k in d1:
        if k in la and k not in d2:
            out[k] = all_values(r1, k)
    return out


class _T(BaseException):
    pass


def guarded(f, t=1.0):
    import signal

    def on(sig, frm):
        raise _T()
    old = signal.signal(signal.SIGPROF, on)
    try:
        try:
            signal.setitimer(signal.ITIMER_PROF, t, 0.25)
            return f()
        finally:
            signal.setitimer(signal.ITIMER_PROF, 0)
    except _T:
        return None
    finally:
        signal.signal(signal.SIGPROF, old)


def each_named_operands(ctx):
    """a named operand of '&' reports what it reports on its own: Each re-names the bodies of its repetition operands when it
    groups them (once, on first use), so the name views of `A & B` on a text in either order must be those of A alone and
    of B alone on their pieces.  (Repetitions named with a list-all name are left out: alone they list the repetition's token
    list once, inside '&' the re-named body lists every item - a consequence of how '&' is built, not decided here.)"""
    import itertools
    import pyparsing as pp
    N, W = lambda: pp.Word(pp.nums), lambda: pp.Word(pp.alphas)
    digit_ops = [("plus-n", lambda: pp.OneOrMore(N())("n")), ("star-n", lambda: pp.ZeroOrMore(N())("n")),
                 ("opt-n", lambda: pp.Opt(N())("n")), ("tok-n", lambda: N()("n")), ("tok-n*", lambda: N()("n*")),
                 ("group-plus-n", lambda: pp.Group(pp.OneOrMore(N()))("n")), ("plus-inner-d", lambda: pp.OneOrMore(N()("d"))("n")),
                 ("plus-inner-d*", lambda: pp.OneOrMore(N()("d*"))), ("slice-n", lambda: N()[1, 3]("n")), ("seq-n", lambda: (N() + N())("n"))]
    alpha_ops = [("tok-w", lambda: W()("w")), ("plus-w", lambda: pp.OneOrMore(W())("w")), 
                 ("opt-w", lambda: pp.Opt(W())("w")), ("star-w", lambda: pp.ZeroOrMore(W())("w")), ("group-w", lambda: pp.Group(W() + pp.Opt(W()))("w"))]
    for (dn, dmk), (an, amk) in itertools.product(digit_ops, alpha_ops):
        for dpiece, apiece in itertools.product(["7", "7 8", "7 8 9"], ["abc", "a b"]):
            for order in ("da", "ad"):
                text = (dpiece + " " + apiece) if order == "da" else (apiece + " " + dpiece)
                for build in ("d&a", "a&d"):
                    D, A = dmk(), amk()
                    rd, ra = parse_ok(dmk(), dpiece), parse_ok(amk(), apiece)
                    if rd is None or ra is None or rd.as_list() == [] or len(rd.as_list()) != len(dpiece.split()) or len(pp.ParseResults(ra.as_list()).as_list()) == 0:
                        continue
                    if sum(len(x) if isinstance(x, list) else 1 for x in ra.as_list()) != len(apiece.split()):
                        continue
                    e = (D & A) if build == "d&a" else (A & D)
                    r = parse_ok(e, text)
                    ctx.stat("each_named_operand_cases")
                    ctx.case("each-named:%s|%s|%r|%s" % (dn, an, text, build), True, True)
                    want = dict(real_name_view(rd))
                    want.update(real_name_view(ra))
                    got = None if r is None else real_name_view(r)
                    if got != want:
                        lost_inner = (got is not None and dn == "plus-inner-d" and "d" not in got and {k: v for k, v in want.items() if k != "d"} == got)
                        ctx.violation("each-renames-repetition-body:inner-name-lost" if lost_inner else "each-named-operand:%s:%s:%r:%s" % (dn, an, text, build),
                                      "(%s) on %r with operands %s, %s: names %r; the operands alone give %r" % (build, text, dn, an, got, want),
                                      {"kind": "each-named", "d": dn, "a": an, "text": text, "build": build})


def debug_metamorphic(ctx, n):
    """what a results name reports does not depend on diagnostics: the same grammar (names, list-all names, value-returning
    actions) gives the same tokens and names with quiet debug actions set on every node (the debug / fail-action branch of
    _parseNoCache is a second copy of the action loop)"""
    import pyparsing as pp
    from tools.harness import observe, dump
    rng = ctx.rng
    opts = dict(names=True, actions=True, stops=False, fwd=True, extra=True, ws=False)
    quiet = lambda *a: None
    fixed = [(("and", ("namestar", "v", ("act", ("upper",), ("word", "ab"))), ("star", ("and", ("lit", ","), ("namestar", "v", ("act", ("upper",), ("word", "ab")))))), gen.ENV0, "a, b, ab"),
             (("plus", ("name", "v", ("act", ("upper",), ("word", "ab")))), gen.ENV0, "a b"),
             (("and", ("namestar", "v", ("act", ("upper",), ("word", "ab"))), ("namestar", "v", ("word", "ab"))), gen.ENV0, "a b")]
    cases = list(fixed)
    for i in range(n):
        g = gen.rand_grammar(rng, rng.randint(1, 4), opts)
        env = rng.choice([gen.ENV0, gen.ENV_EXPR])
        cases.append((g, env, gen.sample_input(rng, g, env)))
    for g, env, inp in cases:
        def run(dbg):
            root = build.Builder(env).build_all(g)
            if dbg:
                for node in list(root.visit_all()):
                    node.set_debug_actions(quiet, quiet, quiet)
            return observe.run_real(root, dump.Dumper(), inp, ("none",), ("parse", False))
        try:
            a, b = run(False), run(True)
        except build.Unbuildable:
            continue
        ctx.stat("debug_metamorphic_cases")
        if a[0] != "ok" or b[0] != "ok":
            continue
        va, vb = view_of_real(a[1]), view_of_real(b[1])
        ctx.case("debug-names:%r|%r" % (g, inp), nontrivial=len(va[1]) > 0, agreed=True)
        if va[0] != vb[0]:
            # the TOKENS differ: debug flags change what streamline() flattens (F-07b's mechanism, whitespace flags of an
            # unflattened sequence) - not a statement about names; counted, not decided here
            ctx.stat("debug_metamorphic_tokens_differ")
            continue
        if va != vb:
            ctx.violation("debug-changes-names:%r|%r" % (g, inp),
                          "%r on %r: tokens / names / list-all names are %r, with quiet debug actions on every node %r" % (g, inp, va, vb),
                          {"kind": "debug-names", "grammar": g, "env": env, "input": inp})


def oracle_pair(g1, g2, env, s1, s2):
    """compositional checks on the implementation; returns list of (key, description)"""
    import pyparsing as pp
    bad = []
    b = build.Builder(env)
    e1, e2 = b.build_all(g1), build.Builder(env).build_all(g2)
    r1 = parse_ok(e1, s1)
    if r1 is None:
        return bad, 0
    d1, all1 = real_name_view(r1), set(r1._all_names)
    n_names = len(d1)
    # lookup forms agree
    for k in r1.keys():
        forms = {"getitem": r1[k], "getattr": getattr(r1, k), "get": r1.get(k)}
        vals = [v.as_list() if isinstance(v, pp.ParseResults) else v for v in forms.values()]
        if any(v != vals[0] for v in vals):
            bad.append(("lookup-forms", "r[%r], getattr, get disagree: %r" % (k, vals)))
        if k not in r1.as_dict() or ("- %s:" % k) not in r1.dump():
            bad.append(("lookup-forms", "name %r missing from as_dict()/dump()" % k))
    if getattr(r1, "no_such_name_q") != "":
        bad.append(("unknown-attr", "unknown attribute is not ''"))
    # Group scoping
    rg = parse_ok(pp.Group(e1), s1)
    if rg is None or list(rg.keys()) or real_name_view(rg[0]) != d1:
        bad.append(("group-scope", "Group(g): top-level keys %r, sub-result names %r, g alone %r" % (
            None if rg is None else list(rg.keys()), None if rg is None else real_name_view(rg[0]), d1)))
    # alternatives: (g1 | g2) reports exactly the names of the alternative that matched
    ra = parse_ok(e1 | e2, s1)
    if ra is None or real_name_view(ra) != d1:
        bad.append(("alternative", "(g1 | g2) on an input g1 matches: names %r, g1 alone %r" % (None if ra is None else real_name_view(ra), d1)))
    r2only = parse_ok(e2, s2)
    if r2only is not None and parse_ok(e1, s2) is None:
        rb = parse_ok(e1 | e2, s2)
        if rb is None or real_name_view(rb) != real_name_view(r2only):
            bad.append(("alternative", "(g1 | g2) on an input only g2 matches: names %r, g2 alone %r" % (
                None if rb is None else real_name_view(rb), real_name_view(r2only))))
    # sequence: names of g1 on the prefix merged with names of g2 on the rest
    try:
        end1 = e1._parse(s1.expandtabs(), 0)[0]
    except Exception:
        end1 = None
    POSITIONAL = ("located", "stringstart", "stringend", "linestart", "lineend", "wordstart", "wordend", "white", "notin",
                  "'not'", "'fb'", "'kw'", "'ckw'", "skipto", "starstop", "plusstop", "'word', 'ab', None, 1, 2")
    context_free = not any(w in repr(g1) + repr(g2) for w in POSITIONAL)
    if end1 is not None and r2only is not None and context_free:
        whole = s1.expandtabs()[:end1] + " " + s2
        try:
            if e1._parse(whole.expandtabs(), 0)[0] != end1:
                end1 = None
        except Exception:
            end1 = None
    if end1 is not None and r2only is not None and context_free:
        rs = parse_ok(e1 + e2, whole)
        r1p = parse_ok(e1, s1.expandtabs()[:end1] + " ")
        r2sp = parse_ok(e2, " " + s2)          # g2 must not be sensitive to the joining space (CharsNotIn, White, ...)
        if rs is not None and r1p is not None and real_name_view(r1p) == d1 and r2sp is not None \
                and real_name_view(r2sp) == real_name_view(r2only) and r2sp.as_list() == r2only.as_list():
            want = merged(r1, r2only)
            got = real_name_view(rs)
            if got != want:
                # F-05f: `self += other` returns early when `other` is falsy and then drops other's list-all declarations
                f05f = got == merged(r1, r2only, falsy_right_declares=False)
                bad.append(("sequence-listall-of-empty-operand-dropped" if f05f else "sequence",
                            "(g1 + g2): names %r, expected the merge %r of %r and %r" % (got, want, d1, real_name_view(r2only))))
    # optional: unmatched contributes nothing
    ro = parse_ok(pp.Opt(e1) + pp.StringEnd(), "")
    if ro is not None and parse_ok(e1, "") is None and list(ro.keys()):
        bad.append(("optional", "unmatched Opt(g) reports names %r" % list(ro.keys())))
    return bad, n_names


def correspond(ctx):
    corr.ensure_driver()
    rng = ctx.rng
    import pyparsing as pp
    # (0) the scenario table: each clause of the property on the implementation
    for desc, mk, inp, want in SCENARIOS:
        r = parse_ok(mk(pp), inp)
        got = None if r is None else real_name_view(r)
        ctx.case("scenario:" + desc, True, True)
        if got != want:
            ctx.violation("scenario:" + desc, "%s: on %r the names are %r, expected %r" % (desc, inp, got, want),
                          {"kind": "scenario", "desc": desc})
    # (i) model vs implementation on the whole structure
    n = 500 if not ctx.thorough else 4000
    opts = dict(names=True, actions=False, stops=False, fwd=True, extra=True, ws=False)
    groups = pcommon.grammar_groups(ctx, n_random=n, depth=(2, 5), opts=opts, modes=[("none",)], entries=[("parse", False)], inputs_per=5)
    stats = {}
    recs = corr.run_groups(groups, stats=stats)
    ctx.coverage_extra["class_histogram"] = stats.get("classes", {})
    pcommon.outcome_hist(ctx, recs)
    pcommon.model_agreement(ctx, recs, "name-structure")
    for r in recs:
        named = r["real"][0] == "ok" and len(r["real"][1][2]) > 0
        ctx.case(pcommon.key_of(r), named, r.get("agree", True))
    debug_metamorphic(ctx, 300 if not ctx.thorough else 3000)
    each_named_operands(ctx)
    # (ii) compositional oracle
    npairs = 250 if not ctx.thorough else 2500
    nbad = 0
    for i in range(npairs):
        g1 = gen.rand_grammar(rng, rng.randint(1, 4), opts)
        g2 = gen.rand_grammar(rng, rng.randint(1, 3), opts)
        env = rng.choice([gen.ENV0, gen.ENV_EXPR])
        s1, s2 = gen.sample_input(rng, g1, env), gen.sample_input(rng, g2, env)
        try:
            res = guarded(lambda: oracle_pair(g1, g2, env, s1, s2), 2.0)
        except build.Unbuildable:
            continue
        if res is None:
            continue
        bad, nn = res
        ctx.case("pair:%r|%r|%r|%r" % (g1, g2, s1, s2), nn > 0, True)
        for k, what in bad:
            nbad += 1
            ctx.violation(k if k == "sequence-listall-of-empty-operand-dropped" else "%s:%r|%r|%r|%r" % (k, g1, g2, s1, s2), "g1=%r g2=%r s1=%r s2=%r: %s" % (g1, g2, s1, s2, what),
                          {"kind": "pair", "g1": g1, "g2": g2, "env": env, "s1": s1, "s2": s2})
    # (iv) a name set on an element reports everything that element matched: when the element alone returns two or more tokens,
    # the named value is the list of exactly those tokens (one token: that token, or the one-element list for list-saving elements)
    import pyparsing as pp
    nn = 0
    for i in range(300 if not ctx.thorough else 3000):
        g = gen.rand_grammar(rng, rng.randint(1, 4), dict(names=False, actions=False, stops=False, fwd=True, extra=True, ws=False))
        if rng.random() < 0.5:
            a_, b_ = gen.rand_grammar(rng, 2, dict(names=False, fwd=False)), gen.rand_grammar(rng, 1, dict(names=False, fwd=False))
            g = (rng.choice(["mf", "or"]), ("and", a_, b_), b_) if rng.random() < 0.5 else (rng.choice(["mf", "or"]), b_, ("and", b_, a_))
        env = gen.ENV0
        for s_ in sorted({gen.sample_input(rng, g, env) for _ in range(3)}):
            def one():
                # the element is compared with a NAMED COPY of itself, so the reference is a plain copy() as well (whether a copy parses
                # like its original is C12's concern: F-12b)
                e0 = build.Builder(env).build_all(g).copy()
                r0 = parse_ok(e0, s_)
                if r0 is None:
                    return None
                T = r0.as_list()
                e1 = build.Builder(env).build_all(("name", "q", g))
                r1 = parse_ok(e1, s_)
                if r1 is None:
                    return ("named-fails", T, None)
                if g[0] == "located":
                    return None           # Located groups its three tokens when it carries a name (documented)
                if "q" not in r1:
                    return ("absent", T, None) if len(T) >= 1 and T != [""] and all(t != "" for t in T) and False else None
                v = r1["q"]
                v = v.as_list() if isinstance(v, pp.ParseResults) else v
                if len(T) >= 2 and v != T:
                    return ("multi", T, v)
                if len(T) == 1 and v != T[0] and v != T:
                    return ("single", T, v)
                return ("ok", T, v)
            try:
                res = guarded(one, 2.0)
            except build.Unbuildable:
                continue
            if res is None:
                continue
            nn += 1
            ctx.case("named-whole:%r|%r" % (g, s_), len(res[1]) >= 2, True)
            if res[0] != "ok":
                # F-05c: a name given to (a wrapper of) a Forward BEFORE the Forward is assigned copies the empty Forward's flags;
                # does the disagreement disappear when the Forwards are assigned before the named copy is made?
                def defined_first():
                    b = build.Builder(env)
                    for k_ in b.envspec:
                        b.fwds[k_] = pp.Forward()
                    for k_, gk in b.envspec.items():
                        b.fwds[k_] <<= b.build(gk)
                    r1 = parse_ok(b.build(("name", "q", g)), s_)
                    v = r1["q"] if r1 is not None and "q" in r1 else None
                    v = v.as_list() if isinstance(v, pp.ParseResults) else v
                    return (len(res[1]) < 2 or v == res[1]) and (len(res[1]) != 1 or v in (res[1][0], res[1]))
                early = "('fwd'," in repr(g) and guarded(defined_first, 2.0) is True
                # F-05d: an unnamed Located returns the three tokens [start, tokens, end] flat while its saveAsList is that of its
                # content (False for a token), so a name on an enclosing alternation / wrapper reports only `start`
                loc3 = (not early) and "('located'," in repr(g) and res[0] == "multi" and isinstance(res[1][0], int) and res[2] == res[1][0]
                ctx.violation("named-whole:forward-named-before-assignment" if early else
                              "named-whole:unnamed-located-returns-three-tokens" if loc3 else "named-whole:%r|%r" % (g, s_), "%r('q') on %r: the element alone returns %r but results['q'] is %r (%s)" % (
                    g, s_, res[1], res[2], res[0]), {"kind": "named-whole", "grammar": g, "env": env, "input": s_})
    ctx.stat("named_whole_cases", nn)
    # (iii) the same name bindings with packrat on: alternatives sharing a named prefix re-use cached results
    from tools.props import c02
    pgroups = []
    for i in range(120 if not ctx.thorough else 1200):
        if i % 3 == 0:
            N1, N2 = ("name", "v", ("word", "ab")), (rng.choice(["name", "namestar"]), rng.choice(["v", "w"]), ("word", "ab"))
            g = ("mf", ("and", N1, N1, ("lit", ",")), ("and", N1, N2, ("lit", ")")), ("group", ("and", N1, N2)))
            inputs = ["a b )", "a b ,", "ab ba", "a b"]
        else:
            g = c02.prefix_grammar(rng)
            inputs = sorted({gen.sample_input(rng, g, gen.ENV0) for _ in range(3)} | {gen.mutate_input(rng, gen.sample_input(rng, g, gen.ENV0))})[:4]
        pgroups.append((g, gen.ENV0, inputs, [("none",), ("packrat", 128), ("packrat", 2)], [("parse", False)]))
    precs = corr.run_groups(pgroups, stats=stats)
    pcommon.model_agreement(ctx, precs, "name-structure-packrat")
    byk = {}
    for r in precs:
        byk.setdefault((repr(r["g"]), r["inp"]), {})[r["mode"]] = r
    for k, d in byk.items():
        base = d.get(("none",))
        for mode, r in d.items():
            if base is None or mode == ("none",) or r["real"][0] != "ok" or base["real"][0] != "ok":
                continue
            ctx.case("packrat-names:" + pcommon.key_of(r), r["hits"] > 0 and len(r["real"][1][2]) > 0, r.get("agree", True))
            if views.name_view(r["real"][1]) != views.name_view(base["real"][1]):
                ctx.violation("packrat-names:%r|%r|%r" % (r["g"], r["inp"], mode),
                              "%r on %r: with %r the names are %r, with memoization off %r" % (
                                  r["g"], r["inp"], mode, views.name_view(r["real"][1]), views.name_view(base["real"][1])),
                              {"kind": "packrat-names", "grammar": r["g"], "env": r["env"], "input": r["inp"], "mode": mode})
    # (v) the end-to-end theorem (C05_names_end_to_end_partial): its witness grammars are the dumps of the real objects; its
    # reference reading `names_of`, evaluated by coqc on the dumps of the scenario grammars and of random named grammars of the
    # class, gives the abstract view (tokens with nested sub-results, every name with all its values, list-all set) of what the
    # implementation returns
    check_witness_dumps(ctx)
    scen = []
    for desc, mk, inp, want in SCENARIOS:
        try:
            root = mk(pp)
            root.streamline()
            G, e = dump_coq(root)
        except (NotExpressible, Exception):
            ctx.stat("reference_unsupported")
            continue
        scen.append(("scenario:" + desc, {}, inp, root, "run_ref %s %s %s" % (G, e, vlib.coq_str(inp))))
    compare_reference(ctx, scen, "scenarios")
    compare_reference(ctx, reference_cases(ctx, 150 if not ctx.thorough else 1500), "random")
    # F-05e: the default value of an Opt whose content carries a list-all name is reported as a scalar
    r = parse_ok(pp.Opt(pp.Word("a")("x*"), default="D"), "")
    rm = parse_ok(pp.Opt(pp.Word("a")("x*"), default="D"), "a")
    if r is not None and rm is not None:
        got = r["x"].as_list() if isinstance(r["x"], pp.ParseResults) else r["x"]
        ctx.case("opt-default-listall", True, True)
        if got != ["D"] and rm["x"].as_list() == ["a"]:
            ctx.violation("opt-default-under-listall-name", "Opt(Word('a')('x*'), default='D') on '': results['x'] is %r, but a list-all name "
                          "reports the list of its values (['D']; a match gives %r)" % (got, rm["x"].as_list()),
                          {"kind": "opt-default-listall"})
    ctx.stat("oracle_pairs", npairs)
    ctx.stat("oracle_violations", nbad)
    ctx.sample({"scenario": SCENARIOS[3][0], "input": SCENARIOS[3][2], "names": SCENARIOS[3][3]})


def search(ctx, reasons):
    import random, time
    rng = random.Random(ctx.seed + 55)
    opts = dict(names=True, actions=False, stops=False, fwd=True, extra=True, ws=False)
    t0 = time.time()
    while time.time() - t0 < (90 if not ctx.thorough else 600):
        g1 = gen.rand_grammar(rng, rng.randint(1, 4), opts)
        g2 = gen.rand_grammar(rng, rng.randint(1, 3), opts)
        env = rng.choice([gen.ENV0, gen.ENV_EXPR])
        s1, s2 = gen.sample_input(rng, g1, env), gen.sample_input(rng, g2, env)
        try:
            res = guarded(lambda: oracle_pair(g1, g2, env, s1, s2), 2.0)
        except Exception:
            continue
        ctx.stat("search_cases")
        if res and res[0]:
            for k, what in res[0]:
                ctx.violation(k if k == "sequence-listall-of-empty-operand-dropped" else "%s:%r|%r|%r|%r" % (k, g1, g2, s1, s2), "g1=%r g2=%r s1=%r s2=%r: %s" % (g1, g2, s1, s2, what),
                              {"kind": "pair", "g1": g1, "g2": g2, "env": env, "s1": s1, "s2": s2})
            return


def _tuplify(x):
    return tuple(_tuplify(y) for y in x) if isinstance(x, list) else x


def replay(ctx, obj):
    r = obj["replay"]
    import pyparsing as pp
    if r.get("kind") == "scenario":
        for desc, mk, inp, want in SCENARIOS:
            if desc == r["desc"]:
                rr = parse_ok(mk(pp), inp)
                got = None if rr is None else real_name_view(rr)
                print(desc, inp, got, want)
                return got == want
    if r.get("kind") == "opt-default-listall":
        a, b = pp.Opt(pp.Word("a")("x*"), default="D").parse_string(""), pp.Opt(pp.Word("a")("x*"), default="D").parse_string("a")
        print("unmatched: x =", a["x"], " matched: x =", b["x"])
        return isinstance(a["x"], pp.ParseResults) and a["x"].as_list() == ["D"]
    if r.get("kind") == "names-ref":
        g = r["grammar"]
        if isinstance(g, str) and g.startswith("scenario:"):
            root = [mk for desc, mk, _, _ in SCENARIOS if "scenario:" + desc == g][0](pp)
        else:
            env = {int(k): _tuplify(v) for k, v in (r.get("env") or {}).items()}
            root = build.Builder(env).build_all(_tuplify(g))
        root.streamline()
        G, e = dump_coq(root)
        val = vlib.coq_eval_terms("c05_ref_replay", REF_PREAMBLE, ["run_ref %s %s %s" % (G, e, vlib.coq_str(r["input"]))])[0]
        inc, ref = ref_outcome(val)
        real = real_outcome(root, r["input"])
        want = ("ok", ref[2]) if ref[0] == "ok" else (ref[0],)
        print("in class:", inc)
        print("reference     :", want)
        print("implementation:", real)
        return real == want
    if r.get("kind") == "pair":
        env = {int(k): _tuplify(v) for k, v in (r.get("env") or {}).items()}
        bad, _ = oracle_pair(_tuplify(r["g1"]), _tuplify(r["g2"]), env, r["s1"], r["s2"])
        for k, what in bad:
            print(k, "::", what)
        return not bad
    if r.get("kind") == "named-whole":
        import pyparsing as pp
        g, env = _tuplify(r["grammar"]), {int(k): _tuplify(v) for k, v in (r.get("env") or {}).items()}
        T = parse_ok(build.Builder(env).build_all(g), r["input"]).as_list()
        r1 = parse_ok(build.Builder(env).build_all(("name", "q", g)), r["input"])
        v = r1["q"] if r1 is not None and "q" in r1 else None
        v = v.as_list() if isinstance(v, pp.ParseResults) else v
        print("element alone:", T, " results['q']:", v)
        return (len(T) < 2 or v == T) and (len(T) != 1 or v in (T[0], T))
    if r.get("kind") == "packrat-names":
        g, env = _tuplify(r["grammar"]), {int(k): _tuplify(v) for k, v in (r.get("env") or {}).items()}
        a = pcommon.single(g, env, r["input"], ("none",), ("parse", False))
        b = pcommon.single(g, env, r["input"], _tuplify(r["mode"]), ("parse", False))
        print("off:", views.name_view(a["real"][1]) if a["real"][0] == "ok" else a["real"])
        print("on :", views.name_view(b["real"][1]) if b["real"][0] == "ok" else b["real"])
        return a["real"][0] == b["real"][0] and (a["real"][0] != "ok" or views.name_view(a["real"][1]) == views.name_view(b["real"][1]))
    print("replay names a broken proof/correspondence obligation: %r" % (r,))
    return False
