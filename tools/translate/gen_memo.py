"""GenMemo.v: the memo tables of pyparsing/util.py and the bounded-recursion part of Forward.parseImpl, as normalised source
text (ast.unparse), so that the transcription in coq/Model/LR.v is pinned to what the code says now."""
import ast
from .pyexpr import Untranslatable

OUTPUTS = ["GenMemo.v"]


def _cls(tree, name):
    for n in tree.body:
        if isinstance(n, ast.ClassDef) and n.name == name:
            return n
    raise Untranslatable("class %s not found" % name)


def _meth(c, name):
    for m in c.body:
        if isinstance(m, ast.FunctionDef) and m.name == name:
            return m
    raise Untranslatable("%s.%s not found" % (c.name, name))


def _body_text(fn):
    body = [st for st in fn.body if not (isinstance(st, ast.Expr) and isinstance(st.value, ast.Constant))]
    return " ; ".join(" ".join(ast.unparse(st).split()) for st in body)


def q(s):
    return '"%s"' % s.replace('"', "'")


def generate(repo):
    util = ast.parse(open(repo + "/pyparsing/util.py").read())
    core = ast.parse(open(repo + "/pyparsing/core.py").read())
    lru = _cls(util, "LRUMemo")
    unb = _cls(util, "UnboundedMemo")
    fwd = _meth(_cls(core, "Forward"), "parseImpl")
    withs = [n for n in ast.walk(fwd) if isinstance(n, ast.With) and ast.unparse(n.items[0].context_expr) == "ParserElement.recursion_lock"]
    if len(withs) != 1:
        raise Untranslatable("Forward.parseImpl: expected exactly one `with ParserElement.recursion_lock:` block")
    lr_text = " ; ".join(" ".join(ast.unparse(st).split()) for st in withs[0].body)
    guard = [ast.unparse(n.test) for n in fwd.body if isinstance(n, ast.If) and "_left_recursion_enabled" in ast.unparse(n.test)]
    reset = _meth(_cls(core, "ParserElement"), "reset_cache")
    out = ["(* GENERATED from pyparsing/util.py and pyparsing/core.py by tools/translate/gen_memo.py -- do not edit *)",
           "From Coq Require Import List String.", "Import ListNotations.", "Local Open Scope string_scope.",
           "Definition gen_lru_init : string := %s." % q(_body_text(_meth(lru, "__init__"))),
           "Definition gen_lru_getitem : string := %s." % q(_body_text(_meth(lru, "__getitem__"))),
           "Definition gen_lru_setitem : string := %s." % q(_body_text(_meth(lru, "__setitem__"))),
           "Definition gen_lru_delitem : string := %s." % q(_body_text(_meth(lru, "__delitem__"))),
           "Definition gen_lru_clear : string := %s." % q(_body_text(_meth(lru, "clear"))),
           "Definition gen_unbounded_bases : string := %s." % q(", ".join(ast.unparse(b) for b in unb.bases)),
           "Definition gen_unbounded_delitem : string := %s." % q(_body_text(_meth(unb, "__delitem__"))),
           "Definition gen_forward_lr_guard : list string := [%s]." % "; ".join(q(g) for g in guard),
           "Definition gen_forward_lr_block : string := %s." % q(lr_text),
           "Definition gen_reset_cache : string := %s." % q(_body_text(reset)),
           ""]
    return {"GenMemo.v": "\n".join(out)}
